------------------------- MODULE TraceVectorField -------------------------
(***************************************************************************)
(* Direction B for C15: every record is one input that was run through the *)
(* real code (integers only).  For each record, in order, the trace        *)
(* specification re-derives the expectation with the operators of          *)
(* VectorField and prints it ({"rec": k, "exp": ...}); the harness         *)
(* evaluates the terms and compares (TLC has no reals).  A record whose    *)
(* shape is not admissible is rejected (`bad`).  Decisions that sit on an  *)
(* exact half-cell tie are reported as ties, never asserted.               *)
(* prq / divcurl records carry `order`, the row order of the neighbour     *)
(* file (a permutation of the ids): the expectation does not depend on it. *)
(* vib records may carry frequency entries of either sign.                 *)
(***************************************************************************)
EXTENDS VectorField, TLC, Json, IOUtils

Tr == ndJsonDeserialize(IOEnv.TRACE_FILE)

VARIABLES l, bad
vars == <<l, bad>>

QRs(s) == [x \in 1..Len(s) |-> QR(s[x])]

WellFormed(rec) ==
  IF rec.m = "prq" THEN /\ Len(rec.nl) = Len(rec.e) /\ \A i \in 1..Len(rec.e) : Len(rec.nl[i]) >= 1 /\ Len(rec.e[i]) = rec.d
                        /\ IsPerm(rec.order, Len(rec.nl))
  ELSE IF rec.m = "divcurl" THEN /\ Len(rec.nl) = Len(rec.pos) /\ Len(rec.u) = Len(rec.pos) /\ Len(rec.H) = rec.d
                                 /\ IsPerm(rec.order, Len(rec.nl))
  ELSE IF rec.m = "vib" THEN Len(rec.ev) = rec.d * rec.n /\ \A x \in 1..Len(rec.om) : rec.om[x] # 0   \* either sign
  ELSE IF rec.m = "decomp" THEN Len(rec.pm) = Len(rec.e) /\ Len(rec.L) = rec.d /\ \A x \in 1..Len(rec.qs) : rec.qs[x] # Zero(rec.d)
  ELSE FALSE

ExpPrq(r) ==
  IF ~PRDefined(r.e) THEN [tie |-> TRUE]
  ELSE [ tie   |-> FALSE,
         rows  |-> NlRows(r.nl, r.order),      \* the file as it is to be written (rows in the recorded order)
         pr    |-> QR(PR(r.e)),
         align |-> [i \in 1..Len(r.e) |-> QR(Align(r.e, r.nl, i, r.S))],
         pq    |-> IF PQDefined(r.e, r.nl) THEN QR(PQ(r.e, r.nl)) ELSE "undef" ]

ExpDc(r) ==
  IF PairTie(r.H, r.ppp, r.pos, r.nl) THEN [tie |-> TRUE]
  ELSE [ tie  |-> FALSE,
         rows |-> NlRows(r.nl, r.order),
         div  |-> [i \in 1..Len(r.pos) |-> QR(Divergence(r.H, r.ppp, r.pos, r.u, r.nl, i, r.S, r.SU))],
         curl |-> IF r.d = 3 THEN [i \in 1..Len(r.pos) |-> QRs(CurlVec(r.H, r.ppp, r.pos, r.u, r.nl, i, r.S, r.SU))]
                  ELSE << >> ]

ExpVib(r) == [ tie |-> FALSE, vib |-> [i \in 1..r.n |-> QR(Vib(r.ev, r.om, r.d, i, r.S, r.SO))] ]

TwoPi(t) == Mul(<<I(2), Pi, t>>)
ExpDecompRow(r, q) ==
  LET F == FTerms(q, r.pm, r.e, r.M, r.S) IN
  [ n    |-> q,
    qk   |-> [k \in 1..r.d |-> TwoPi(Q(q[k], r.L[k]))],
    q    |-> TwoPi(Sqrt(Q(W2(q, r.L), VfLcm(r.L) * VfLcm(r.L)))),
    w2   |-> W2(q, r.L),
    fft  |-> F,
    lfft |-> LTerms(q, r.L, F),
    tfft |-> TTerms(q, r.L, F),
    sq   |-> Norm2Term(F),
    sql  |-> Norm2Term(LTerms(q, r.L, F)),
    sqt  |-> Norm2Term(TTerms(q, r.L, F)) ]
ExpDecomp(r) ==
  LET rows == [x \in 1..Len(r.qs) |-> ExpDecompRow(r, r.qs[x])]
      gs   == QGroups(r.qs, r.L)
      Col(g, key) == LET s == SortedSeq(gs[g].idx) IN MeanTerm([x \in 1..Len(s) |-> rows[s[x]][key]])
  IN  [ tie  |-> FALSE,
        rows |-> rows,
        ave  |-> [g \in 1..Len(gs) |->
                   [ q   |-> TwoPi(Sqrt(Q(gs[g].w2, VfLcm(r.L) * VfLcm(r.L)))),
                     sq  |-> Col(g, "sq"), sqt |-> Col(g, "sqt"), sql |-> Col(g, "sql") ]] ]

Expected(rec) == IF rec.m = "prq" THEN ExpPrq(rec)
                 ELSE IF rec.m = "divcurl" THEN ExpDc(rec)
                 ELSE IF rec.m = "vib" THEN ExpVib(rec)
                 ELSE ExpDecomp(rec)

Why(rec) == IF ~WellFormed(rec) THEN "WellFormed" ELSE ""

Init == l = 1 /\ bad = ""
Step == /\ l <= Len(Tr) /\ bad = ""
        /\ LET w == Why(Tr[l]) IN
           IF w = ""
           THEN /\ PrintT(ToJson([rec |-> l, exp |-> Expected(Tr[l])]))
                /\ l' = l + 1 /\ bad' = ""
           ELSE l' = l /\ bad' = w
Spec == Init /\ [][Step]_vars
Accepted == bad = ""
=============================================================================
