----------------------------- MODULE MC_VoroPP -----------------------------
(***************************************************************************)
(* Model of the voro++ pipeline (VoroPP.tla, growth check X02 a).          *)
(*                                                                         *)
(* Variables: c (the call: kind, ppp, radii, frames), s (the pipeline      *)
(* state of VoroPP.tla), cur / reads (the read_neighbors handles opened on *)
(* the finished .neighbor.dat / .facearea.dat: frames consumed, results).  *)
(* Actions:  WriteInput(n), VoroRun(n) - the ENVIRONMENT: any table of the *)
(* scope -, Split(n), Finish, Read(nmax).  One behaviour = one call of     *)
(* cal_voro / voronowalls followed by reading the files back frame by      *)
(* frame; the final state of every behaviour is printed (direction A).     *)
(*                                                                         *)
(*  Mode "cells"   one frame, N = 1..4; the environment chooses per cell   *)
(*                 among the WALL PATTERNS (cn = 1..4 faces, 0..3 of them  *)
(*                 walls, at every position; cells with only walls) and    *)
(*                 among the output orders of the cells                    *)
(*  Mode "frames"  1..3 frames (also with different N per frame), per      *)
(*                 frame different positions, species labels and bounds;   *)
(*                 per invocation any table of a small catalogue           *)
(* Quanta: positions / bounds / radii 1/8, areas / volumes 1/8 (radii       *)
(* <<4, 4>> = the documented default {1: 0.5, 2: 0.5}).                    *)
(***************************************************************************)
EXTENDS VoroPP, Json

CONSTANTS Tier, Mode, Gen, SHARD, NSHARDS

VARIABLES c, s, cur, reads
vars == <<c, s, cur, reads>>
Thorough == Tier = "thorough"

\* ------------------------------------------------------------ cells of the environment
\* wall patterns: <<cn, W>> with W the set of wall positions, at most three walls
WallPats == {p \in {<<cn, W>> : cn \in 1..4, W \in SUBSET (1..4)} :
               p[2] \subseteq 1..p[1] /\ Cardinality(p[2]) <= 3}
\* a reduced set: no wall; first; last; middle; two walls around a face; only walls; three walls and one face
FewPats == {<<3, {}>>, <<2, {1}>>, <<3, {3}>>, <<3, {2}>>, <<4, {1, 3}>>, <<2, {1, 2}>>, <<4, {1, 2, 4}>>, <<1, {}>>}
MinPats == {<<3, {}>>, <<3, {2}>>, <<2, {1, 2}>>, <<4, {2, 3, 4}>>}
HistCat == << <<0, 0, 0, 4>>, <<0, 0, 0, 2, 2, 1>>, <<0, 0, 0, 0, 12>>, <<0, 0, 0, 3, 6, 3, 0, 1>>,
              <<0, 0>>, <<0, 0, 0, 0, 2, 8, 4>>, <<0, 0, 0, 2, 2, 1, 0, 0, 0, 0, 0, 0, 0, 0, 5>> >>
MkCell(i, n, pat, salt) ==
  LET cn == pat[1]
      ar == [k \in 1..cn |-> 1 + ((3 * k + 5 * i + salt) % 13)]
  IN  [id |-> i,
       nbs |-> [k \in 1..cn |-> IF k \in pat[2] THEN 0 - (1 + ((k + i + salt) % 6)) ELSE 1 + ((i + k + salt) % n)],
       areas |-> ar, vol |-> 7 + 4 * i + salt, tot |-> SumSeq(ar) + (i % 2),     \* %F need not be the exact sum
       hist |-> HistCat[1 + ((i + salt + cn) % Len(HistCat))]]
PatKey(pat) == pat[1] + SumSeq(SortedSeq(pat[2]))

Perms(n) == {p \in [1..n -> 1..n] : {p[k] : k \in 1..n} = 1..n}
OrdersOf(n) ==
  IF n <= 2 \/ (n = 3 /\ Thorough) THEN Perms(n)
  ELSE {[k \in 1..n |-> k], [k \in 1..n |-> n + 1 - k], [k \in 1..n |-> 1 + (k % n)]}
PatsOf(kind, n) ==
  IF kind = "cal" THEN (IF n <= 2 THEN FewPats ELSE MinPats)
  ELSE IF n = 1 THEN WallPats
  ELSE IF n = 2 THEN (IF Thorough THEN WallPats ELSE FewPats)
  ELSE IF n = 3 THEN (IF Thorough THEN FewPats ELSE MinPats)
  ELSE MinPats
\* the tables the environment may answer with in Mode "cells"
CellTables(kind, n) ==
  {[p \in 1..n |-> MkCell(ord[p], n, pats[ord[p]], n)] : pats \in [1..n -> PatsOf(kind, n)], ord \in OrdersOf(n)}
\* ... and in Mode "frames": a small catalogue, the k-th table different from the others in every field
FrameTables(kind, n) ==
  LET pick(S, j) == SetToSeq(S)[1 + (j % Cardinality(S))]
  IN  {[p \in 1..n |-> LET i == IF t % 2 = 0 THEN p ELSE n + 1 - p
                       IN  MkCell(i, n, IF kind = "cal" THEN pick(MinPats, t + i) ELSE pick(FewPats, 3 * t + i), t)] :
         t \in 1..(IF Thorough THEN 4 ELSE 3)}
TabKey(tab) == SumSeq([p \in 1..Len(tab) |-> p * tab[p].id + tab[p].tot + Len(tab[p].nbs)])

\* ------------------------------------------------------------ the calls
PosOf(f, n)    == [i \in 1..n |-> <<1 + ((7 * i + 3 * f) % 16), (5 * i + f) % 12, 1 + ((11 * i + 2 * f) % 20)>>]
TypesOf(f, n)  == [i \in 1..n |-> 1 + ((i + f) % 2)]
BoundsOf(f)    == <<0 - f, 17 + f, 0, 12 + 2 * f, 0 - 3, 21 + 3 * f>>
Call(kind, ppp, radii, Ns) ==
  [kind |-> kind, ppp |-> ppp, radii |-> radii, PS |-> 8, AS |-> 8,
   types |-> [f \in 1..Len(Ns) |-> TypesOf(f, Ns[f])],
   pos |-> [f \in 1..Len(Ns) |-> PosOf(f, Ns[f])],
   bounds |-> [f \in 1..Len(Ns) |-> BoundsOf(f)]]
Flavours == { <<"cal", <<"-p">>, <<4, 7>> >>, <<"walls", << >>, <<4, 7>> >>, <<"walls", <<"-px">>, <<4, 4>> >>,
              <<"cal", <<"-px", "-py">>, <<6, 3>> >>, <<"walls", <<"-pz">>, <<3, 8>> >> }
CellCalls  == {Call(fl[1], fl[2], fl[3], <<n>>) : fl \in {<<"cal", <<"-p">>, <<4, 7>> >>, <<"walls", << >>, <<4, 7>> >>}, n \in 1..4}
FrameNs    == IF Thorough THEN {<<2>>, <<2, 2>>, <<3, 3>>, <<2, 3, 1>>, <<3, 3, 3>>, <<1, 2>>, <<2, 2, 2>>}
              ELSE {<<2, 2>>, <<2, 3, 1>>, <<3, 3, 3>>, <<1, 2>>}
FrameCalls == {Call(fl[1], fl[2], fl[3], Ns) : fl \in Flavours, Ns \in FrameNs}
Calls == IF Mode = "cells" THEN CellCalls ELSE FrameCalls
TablesFor(cc, n) == IF Mode = "cells" THEN CellTables(cc.kind, n) ELSE FrameTables(cc.kind, n)
NmaxSet == IF Mode = "cells" THEN {1, 3, 200} ELSE {2, 200}

\* ------------------------------------------------------------ state machine
Init == /\ c \in Calls /\ s = PipeInit(c) /\ cur = 0 /\ reads = << >>

WriteInputA(n) == /\ CanWrite(c, s) /\ n = s.n + 1 /\ s' = WriteInput(c, s) /\ UNCHANGED <<c, cur, reads>>
VoroRunA(n) ==              \* the environment
  /\ CanRun(c, s) /\ n = s.n + 1
  /\ \E tab \in TablesFor(c, NP(c, n)) :
       /\ (n = 1 => (TabKey(tab) + Len(c.ppp) + NFr(c)) % NSHARDS = SHARD)
       /\ s' = VoroRun(c, s, tab)
  /\ UNCHANGED <<c, cur, reads>>
SplitA(n) == /\ CanSplit(c, s) /\ n = s.n + 1 /\ s' = Split(c, s) /\ UNCHANGED <<c, cur, reads>>
FinishA == /\ CanFinish(c, s) /\ s' = Finish(c, s) /\ UNCHANGED <<c, cur, reads>>
\* one read_neighbors call on each of the two handles (neighbour file, face-area file)
ReadA(nmax) ==
  /\ s.phase = "done" /\ cur < NFr(c)
  /\ LET f == cur + 1 n == NP(c, f) off == OffList(c, f) IN
     /\ ReaderAccepts(s.nb, off, n) /\ ReaderAccepts(s.fa, off, n)
     /\ reads' = Append(reads, [f |-> f, n |-> n, nmax |-> nmax,
                                nb |-> ReadCall(s.nb, off, n, nmax), fa |-> ReadCall(s.fa, off, n, nmax),
                                tell |-> ReadNextOff(off, n)])
     /\ cur' = cur + 1
  /\ UNCHANGED <<c, s>>
Next == \/ \E n \in 1..NFr(c) : WriteInputA(n) \/ VoroRunA(n) \/ SplitA(n)
        \/ FinishA
        \/ \E nmax \in NmaxSet : ReadA(nmax)
Spec == Init /\ [][Next]_vars

\* ------------------------------------------------------------ clauses
InvEnvironmentInScope == \A k \in 1..Len(s.calls) : TableOK(s.calls[k].tab, NP(c, k))
InvInputIsFrame       == InputIsFrame(c, s)
InvCommandLine        == CommandLine(c, s)
InvFramesInOrderOnce  == FramesInOrderOnce(c, s)
InvHeaders            == Headers(c, s)
InvVerbatim           == Verbatim(c, s)
InvWallsRemoved       == WallsRemoved(c, s)
InvReadableBack       == s.phase \in {"write", "done"} => ReadableBack(c, s, NmaxSet)
InvTempFiles          == TempFiles(c, s)
InvHistComposes       == HistComposes(c, s)
InvDeterministic      == Deterministic(c, s)
\* the k-th read on a handle returns frame k, and the handle then stands at the next header
InvReadsInOrder ==
  /\ cur = Len(reads) /\ (cur > 0 => s.phase = "done")
  /\ \A k \in 1..Len(reads) : reads[k].f = k /\ reads[k].tell = OffList(c, k + 1)
\* non-vacuity of the scope (checked at the final states): walls occur, a cell of walls only occurs
Final == s.phase = "done" /\ cur = NFr(c)
\* the inputs are never modified (c is the call's argument) and a finished run stays finished
PropInputsUnchanged == [][c' = c]_vars
PropFilesStable == [][s.phase = "done" => s' = s]_vars

\* ------------------------------------------------------------ emission (direction A)
Case ==
  LET rows == HistRows(s.vi)
      cnt  == HistCount(rows)
  IN  [ m |-> "pipe", c |-> c,
        tabs |-> [k \in 1..Len(s.calls) |-> s.calls[k].tab],
        inv  |-> [k \in 1..Len(s.calls) |-> [argv |-> s.calls[k].argv, dump |-> s.calls[k].dump]],
        nb |-> s.nb, fa |-> s.fa, vi |-> s.vi, ov |-> s.ov, tmp |-> SetToSeq(s.tmp),
        reads |-> reads,
        hist |-> [total |-> Len(rows), top |-> HistTop, header |-> HistHeader,
                  groups |-> LET gs == HistGroups(cnt) IN
                             [k \in 1..Len(gs) |-> [count |-> gs[k].count, sigs |-> SetToSeq(gs[k].sigs),
                                                    frac |-> SetToSeq(FracSet(gs[k].count, Len(rows)))]]] ]
Emit == (Gen /\ Final) => PrintT(ToJson(Case))
=============================================================================
