------------------------------- MODULE AuxIO -------------------------------
(***************************************************************************)
(* Property C19: the dump-header writer, the auxiliary dump readers        *)
(* (molecule-centre reader, vector-column reader, read_additions), the     *)
(* HOOMD frame conversion and the LAMMPS log reader.                       *)
(*                                                                         *)
(* A text file is a sequence of LINES, a line a sequence of TOKENS.  A     *)
(* token is a word, an integer literal or a fixed-point decimal m/SCALE;   *)
(* all three are records of one shape so that TLC can compare any two.     *)
(* Every numeric observable is an integer in units of 1/SCALE.             *)
(*                                                                         *)
(*   writer   HeaderLines / DataHeaderLines : arguments -> lines           *)
(*   file     FileLines(frames)             : abstract frames -> lines     *)
(*   readers  operate on LINES and a cursor c (= lines consumed so far on  *)
(*            the open handle) - they never see the abstract frame, so     *)
(*            "read back what was written" is a theorem to be checked.     *)
(***************************************************************************)
EXTENDS Exact, TLC

CONSTANT SCALE

W(s)  == [k |-> "w", w |-> s,  v |-> 0]       \* word
NI(n) == [k |-> "i", w |-> "", v |-> n]       \* integer literal
F(m)  == [k |-> "f", w |-> "", v |-> m]       \* decimal m / SCALE
Val(t) == IF t.k = "i" THEN t.v * SCALE ELSE t.v    \* numeric value in units of 1/SCALE

Words(ss) == [i \in 1..Len(ss) |-> W(ss[i])]

\* ------------------------------------------------------------ the writers
CoordNames(style) ==
  IF style = "x" THEN <<"x", "y", "z">>
  ELSE IF style = "xs" THEN <<"xs", "ys", "zs">> ELSE <<"xu", "yu", "zu">>

\* write_dump_header(timestep, nparticle, boxbounds, addson) when style = "x"
\* (other styles: the same layout with the coordinate names of that style)
HeaderLinesStyle(ts, n, bounds, addson, style) ==
  LET nd == Len(bounds) IN
     << Words(<<"ITEM:", "TIMESTEP">>), <<NI(ts)>>,
        Words(<<"ITEM:", "NUMBER", "OF", "ATOMS">>), <<NI(n)>>,
        Words(<<"ITEM:", "BOX", "BOUNDS", "pp", "pp", "pp">>) >>
  \o [k \in 1..nd |-> <<F(bounds[k][1]), F(bounds[k][2])>>]
  \o (IF nd = 2 THEN << <<F(0 - (SCALE \div 2)), F(SCALE \div 2)>> >> ELSE << >>)   \* dummy z bounds
  \o << Words(<<"ITEM:", "ATOMS", "id", "type">>) \o Words(SubSeq(CoordNames(style), 1, nd)) \o Words(addson) >>

HeaderLines(ts, n, bounds, addson) == HeaderLinesStyle(ts, n, bounds, addson, "x")

\* write_data_header(nparticle, nparticle_type, boxbounds); << >> is a blank line
DataHeaderLines(n, ntypes, bounds) ==
  LET nd == Len(bounds)
      ax == <<"x", "y", "z">>
      lo == <<"xlo", "ylo", "zlo">>
      hi == <<"xhi", "yhi", "zhi">> IN
     << Words(<<"LAMMPS", "data", "file">>), << >>,
        <<NI(n), W("atoms")>>, <<NI(ntypes), W("atom"), W("types")>>, << >> >>
  \o [k \in 1..nd |-> <<F(bounds[k][1]), F(bounds[k][2]), W(lo[k]), W(hi[k])>>]
  \o (IF nd = 2 THEN << <<F(0 - (SCALE \div 2)), F(SCALE \div 2), W("zlo"), W("zhi")>> >> ELSE << >>)
  \o << << >>, Words(<<"Atoms", "#atomic">>), << >> >>

\* ------------------------------------------------------------ abstract dump frames
\* frame = [ts, bounds (seq of <<lo,hi>>), style, addson (seq of strings),
\*          atoms (seq, FILE order, of [id, type, c (nd coordinate tokens' values), e (seq of tokens)])]
AtomLine(a) == <<NI(a.id), NI(a.type)>> \o [k \in 1..Len(a.c) |-> F(a.c[k])] \o a.e
FrameLines(fr) ==
  HeaderLinesStyle(fr.ts, Len(fr.atoms), fr.bounds, fr.addson, fr.style)
  \o [i \in 1..Len(fr.atoms) |-> AtomLine(fr.atoms[i])]
RECURSIVE FileLines(_)
FileLines(frames) == IF frames = << >> THEN << >> ELSE FrameLines(Head(frames)) \o FileLines(Tail(frames))
NLines(fr) == 9 + Len(fr.atoms)
RECURSIVE Offset(_, _)          \* lines before frame j (1-based); Offset(frames, Len+1) = all lines
Offset(frames, j) == IF j <= 1 THEN 0 ELSE Offset(frames, j - 1) + NLines(frames[j - 1])

\* ------------------------------------------------------------ the readers (on lines)
\* one frame starting after c consumed lines; orthogonal box; 9 header lines always
\* (three bounds lines: in 2-D the third is skipped unread)
Parse(lines, c, nd) ==
  LET n    == lines[c + 4][1].v
      hdr  == lines[c + 9]
      row(i) == lines[c + 9 + i]
      at(id) == CHOOSE i \in 1..n : row(i)[1].v = id
  IN  [ ts     |-> lines[c + 2][1].v,
        n      |-> n,
        bounds |-> [k \in 1..nd |-> <<lines[c + 5 + k][1].v, lines[c + 5 + k][2].v>>],
        names  |-> {hdr[i].w : i \in 3..Len(hdr)},
        rows   |-> [id \in 1..n |-> row(at(id))],       \* per-id placement
        next   |-> c + 9 + n ]

AtEof(lines, c) == c >= Len(lines)
Lens(bounds) == [k \in 1..Len(bounds) |-> bounds[k][2] - bounds[k][1]]

\* coordinate token value -> position, by the style named in the ATOMS header
Wrap(p, lo, hi) == IF p < lo THEN p + (hi - lo) ELSE IF p > hi THEN p - (hi - lo) ELSE p
Coord(names, v, lo, hi) ==
  IF "x" \in names THEN Wrap(v, lo, hi)
  ELSE IF "xu" \in names THEN v
  ELSE lo + (v * (hi - lo)) \div SCALE               \* xs: lo + s L   (scopes keep s L integral)
CoordExact(names, v, lo, hi) == ("x" \in names \/ "xu" \in names) \/ (v * (hi - lo)) % SCALE = 0

EofResult(c) == [eof |-> 1, ts |-> 0, n |-> 0, types |-> << >>, pos |-> << >>, bounds |-> << >>, len |-> << >>, cur |-> c]

Snap(p, types, pos) == [eof |-> 0, ts |-> p.ts, n |-> Len(types), types |-> types, pos |-> pos,
                        bounds |-> p.bounds, len |-> Lens(p.bounds), cur |-> p.next]

PosOf(p, id, nd) == [k \in 1..nd |-> Coord(p.names, Val(p.rows[id][2 + k]), p.bounds[k][1], p.bounds[k][2])]

\* read_lammps (property C01; used here only as the reading half of writer -> reader)
ReadPlain(lines, c, nd) ==
  IF AtEof(lines, c) THEN EofResult(c)
  ELSE LET p == Parse(lines, c, nd) IN
       Snap(p, [id \in 1..p.n |-> p.rows[id][2].v], [id \in 1..p.n |-> PosOf(p, id, nd)])

\* read_lammps_centertype: atoms whose type is a key of the map, relabelled, in id order
ReadCentre(lines, c, nd, map) ==
  IF AtEof(lines, c) THEN EofResult(c)
  ELSE LET p   == Parse(lines, c, nd)
           ids == SortedSeq({id \in 1..p.n : p.rows[id][2].v \in DOMAIN map})
       IN  Snap(p, [i \in 1..Len(ids) |-> map[p.rows[ids[i]][2].v]],
                   [i \in 1..Len(ids) |-> PosOf(p, ids[i], nd)])

\* read_lammps_vector: columns (1-based) by id, stored in `positions`
ReadVector(lines, c, nd, cols) ==
  IF AtEof(lines, c) THEN EofResult(c)
  ELSE LET p == Parse(lines, c, nd) IN
       Snap(p, [id \in 1..p.n |-> p.rows[id][2].v],
               [id \in 1..p.n |-> [j \in 1..Len(cols) |-> Val(p.rows[id][cols[j]])]])

ReadStep(kind, lines, c, nd, par) ==
  IF kind = "plain" THEN ReadPlain(lines, c, nd)
  ELSE IF kind = "centre" THEN ReadCentre(lines, c, nd, par)
  ELSE ReadVector(lines, c, nd, par)

\* the wrappers: read until end of file
RECURSIVE ReadAllFrom(_, _, _, _, _)
ReadAllFrom(kind, lines, c, nd, par) ==
  IF AtEof(lines, c) THEN << >>
  ELSE LET r == ReadStep(kind, lines, c, nd, par) IN <<r>> \o ReadAllFrom(kind, lines, r.cur, nd, par)
ReadAll(kind, lines, nd, par) == ReadAllFrom(kind, lines, 0, nd, par)

\* read_additions(dumpfile, ncol): zero-based column, every frame, by id; the particle
\* number is taken from the first frame (all frames have the same number of atoms)
ReadAdditions(lines, ncol) ==
  LET np == lines[4][1].v
      ns == Len(lines) \div (np + 9)
      row(s, i) == lines[(s - 1) * (np + 9) + 9 + i]
      at(s, id) == CHOOSE i \in 1..np : row(s, i)[1].v = id
  IN  [s \in 1..ns |-> [id \in 1..np |-> Val(row(s, at(s, id))[ncol + 1])]]

\* type map given as a sequence of <<key, value>> pairs (trace / JSON form)
MapOf(pairs) == [k \in {pairs[i][1] : i \in DOMAIN pairs} |-> pairs[CHOOSE i \in DOMAIN pairs : pairs[i][1] = k][2]]
PairsOf(map) == LET ks == SortedSeq(DOMAIN map) IN [i \in 1..Len(ks) |-> <<ks[i], map[ks[i]]>>]

\* ------------------------------------------------------------ C19 clauses on abstract frames
\* value of column col (1-based) of atom a, in units of 1/SCALE
ColVal(a, col) ==
  IF col = 1 THEN a.id * SCALE ELSE IF col = 2 THEN a.type * SCALE
  ELSE IF col <= 2 + Len(a.c) THEN a.c[col - 2] ELSE Val(a.e[col - 2 - Len(a.c)])
AtomWithId(fr, id) == fr.atoms[CHOOSE i \in 1..Len(fr.atoms) : fr.atoms[i].id = id]

\* writer -> reader: timestep, particle count, bounds, and the cursor lands on the next frame
ReadAfterWriteHeader(frames, j, r) ==
  /\ r.eof = 0 /\ r.ts = frames[j].ts /\ r.bounds = frames[j].bounds
  /\ r.len = Lens(frames[j].bounds)
  /\ r.cur = Offset(frames, j + 1)
ParticleCountReadBack(frames, j, r) == r.n = Len(frames[j].atoms)

\* centre reader: exactly the atoms whose type is a key, relabelled by value, in id order
CentreSelection(fr, map, r) ==
  LET ids == SortedSeq({fr.atoms[i].id : i \in {i \in 1..Len(fr.atoms) : fr.atoms[i].type \in DOMAIN map}}) IN
  /\ r.n = Len(ids) /\ Len(r.types) = Len(ids) /\ Len(r.pos) = Len(ids)
  /\ \A i \in 1..Len(ids) : r.types[i] = map[AtomWithId(fr, ids[i]).type]
  /\ fr.style = "xu" => \A i \in 1..Len(ids) : r.pos[i] = AtomWithId(fr, ids[i]).c

\* column readers: requested columns by atom id
ColumnsById(fr, cols, r) ==
  /\ r.n = Len(fr.atoms)
  /\ \A id \in 1..r.n : /\ r.types[id] = AtomWithId(fr, id).type
                        /\ r.pos[id] = [j \in 1..Len(cols) |-> ColVal(AtomWithId(fr, id), cols[j])]
AdditionsById(frames, ncol, res) ==
  /\ Len(res) = Len(frames)
  /\ \A s \in 1..Len(frames) : res[s] = [id \in 1..Len(frames[s].atoms) |-> ColVal(AtomWithId(frames[s], id), ncol + 1)]

\* ------------------------------------------------------------ HOOMD frames (gsd / gsd + dcd)
\* frame = [step, dim, box (Lx Ly Lz xy xz yz), n, typeid (0-based), pos (n x 3)]
\* dcd   = << >> (absent) or [frame -> n x 3 positions]
GsdSnap(fr, nd, pos) ==
  [ ts |-> fr.step, n |-> fr.n, types |-> [i \in 1..Len(fr.typeid) |-> fr.typeid[i] + 1],
    pos |-> [i \in 1..Len(pos) |-> SubSeq(pos[i], 1, nd)], len |-> SubSeq(fr.box, 1, nd) ]
GsdRejected(frames, dcd, nd, withdcd) ==
  \/ frames[1].dim # nd
  \/ withdcd /\ (Len(dcd) # Len(frames) \/ frames[1].n # Len(dcd[1]))
NoneResult == [none |-> 1, snaps |-> << >>]
GsdResult(frames, dcd, nd, withdcd) ==
  IF GsdRejected(frames, dcd, nd, withdcd) THEN NoneResult
  ELSE [none |-> 0, snaps |-> [j \in 1..Len(frames) |->
          GsdSnap(frames[j], nd, IF withdcd THEN dcd[j] ELSE frames[j].pos)]]

\* ------------------------------------------------------------ LAMMPS log
\* a thermodynamic section: header line `Step ...`, data rows, terminator `Loop time of ...`
IsStart(line) == Len(line) >= 2 /\ line[1] = W("Step")
IsEnd(line)   == Len(line) >= 3 /\ line[1] = W("Loop") /\ line[2] = W("time") /\ line[3] = W("of")
Section(log, a, b) ==          \* header at line a, terminator at line b
  [ names |-> [j \in 1..Len(log[a]) |-> log[a][j].w],
    rows  |-> [r \in 1..(b - a - 1) |-> [j \in 1..Len(log[a + r]) |-> Val(log[a + r][j])]] ]
\* the scanner as a function: state (i lines scanned, open header or 0, sections so far)
RECURSIVE Scan(_, _, _, _)
Scan(log, i, open, secs) ==
  IF i >= Len(log) THEN [secs |-> secs, tail |-> IF open = 0 THEN 0 ELSE 1]
  ELSE LET ln == log[i + 1] IN
       IF IsStart(ln) THEN Scan(log, i + 1, i + 1, secs)
       ELSE IF IsEnd(ln) /\ open # 0 THEN Scan(log, i + 1, 0, Append(secs, Section(log, open, i + 1)))
       ELSE Scan(log, i + 1, open, secs)
LogResult(log) == Scan(log, 0, 0, << >>)
\* what the reader may return: every complete section in full, in order; an incomplete
\* tail may add one more table whose rows are not constrained
LogAccepts(log, obs) ==
  LET e == LogResult(log) IN
  /\ Len(obs) >= Len(e.secs) /\ Len(obs) <= Len(e.secs) + e.tail
  /\ \A i \in 1..Len(e.secs) : obs[i] = e.secs[i]
=============================================================================
