----------------------------- MODULE CoarseGrain -----------------------------
(***************************************************************************)
(* Property C16: utils.coarse_graining.{spatial_average, gaussian_blurring,*)
(* time_average}.                                                          *)
(*                                                                         *)
(*  (a) spatial average: per frame, mean over a particle and its listed    *)
(*      neighbours; the neighbour file is consumed frame by frame through  *)
(*      one handle (cursor); rows of a frame may come in any order.        *)
(*  (b) Gaussian blurring: full Cartesian grid of ng[k] equally spaced     *)
(*      points spanning the box bounds OF THE FRAME (every frame has its   *)
(*      own bounds and its own cell; the two are independent attributes:   *)
(*      the grid is a function of the bounds alone, the minimum image of   *)
(*      the cell alone - FrameGrid, CellChange, BoundsChange),             *)
(*      enumerated inside the frame loop by a loop whose step              *)
(*      Visit writes grid point pt into flat slot Flat(ng, pt); value of a *)
(*      slot = sum over particles within the cut-off (minimum image) of    *)
(*      G(d) * property, G(d) = exp(-d^2 / 2 sigma^2) / sqrt(2 pi sigma^2).*)
(*  (c) time average: window of w = floor(period / interval) consecutive   *)
(*      frames starting at n, mean over them, index of the central frame.  *)
(*                                                                         *)
(* All inputs are integers (scaled); rationals are Exact pairs <<n, d>>.   *)
(* Every discrete decision (which neighbours, which slot, which particles  *)
(* are inside the cut-off, w, centre) is taken here exactly; real values   *)
(* are stated as Real terms.  Helper names carry the prefix Cg so that     *)
(* later additions to the shared modules cannot clash.                     *)
(***************************************************************************)
EXTENDS Cell, Real

CgLcm(a, b) == (a * b) \div Gcd(a, b)
RECURSIVE CgLcmSeq(_)
CgLcmSeq(s) == IF Len(s) = 0 THEN 1 ELSE CgLcm(Head(s), CgLcmSeq(Tail(s)))
CgMax(S) == CHOOSE x \in S : \A y \in S : y <= x

(***************************************************************************)
(* (a) spatial average.                                                    *)
(* vals : particle -> sequence of integer components (the flattened        *)
(*        scalar / vector / tensor), nb : particle -> sequence of listed   *)
(*        neighbour ids (1-based, as written in the file, repetitions      *)
(*        allowed), nmax : the Nmax argument.  The reader (property C05)   *)
(*        delivers the first min(cn, Nmax) listed ids.                     *)
(***************************************************************************)
Listed(row, nmax) == SubSeq(row, 1, Min2(Len(row), nmax))

SpatialNum(vals, nb, nmax, i, c) ==
  LET ids == Listed(nb[i], nmax)
  IN  vals[i][c] + SumSeq([k \in 1..Len(ids) |-> vals[ids[k]][c]])
SpatialDen(nb, nmax, i) == 1 + Len(Listed(nb[i], nmax))

\* the result for one frame: particle -> component -> rational
SpatialAvgFrame(vals, nb, nmax) ==
  [i \in 1..Len(vals) |->
     [c \in 1..Len(vals[i]) |-> RNorm(SpatialNum(vals, nb, nmax, i, c), SpatialDen(nb, nmax, i))]]

\* independent formulation through multiplicities (used as a model invariant)
Mult(ids, j) == Cardinality({k \in 1..Len(ids) : ids[k] = j})
Weight(nb, nmax, i, j) == (IF i = j THEN 1 ELSE 0) + Mult(Listed(nb[i], nmax), j)
SpatialNumW(vals, nb, nmax, i, c) ==
  SumSeq([j \in 1..Len(vals) |-> Weight(nb, nmax, i, j) * vals[j][c]])
SpatialDenW(vals, nb, nmax, i) ==
  SumSeq([j \in 1..Len(vals) |-> Weight(nb, nmax, i, j)])

\* The neighbour file as the routine receives it: per frame a sequence of rows
\* <<id, n1, n2, ...>> (the id column, then the listed ids; the count column of the
\* file is the number of listed ids), one row per particle in ANY order.  The reader
\* (property C05) files every row under the id written in its first column.
CgIsPerm(order, n)  == Len(order) = n /\ {order[k] : k \in 1..n} = 1..n
CgRows(nb, order)   == [k \in 1..Len(nb) |-> <<order[k]>> \o nb[order[k]]]
CgOfRows(rows)      == [i \in 1..Len(rows) |->
                          LET k == CHOOSE k \in 1..Len(rows) : rows[k][1] = i IN SubSeq(rows[k], 2, Len(rows[k]))]
CgPermByKey(K(_), n) == LET srt == SortedSeq({K(i) * 1024 + i : i \in 1..n}) IN [k \in 1..n |-> srt[k] % 1024]

\* the handle: frame n of the property is averaged with the frame of the
\* neighbour file (rows) under the cursor, and the cursor moves on by one frame
SpatialStep(file, cursor, vals, nmax) == SpatialAvgFrame(vals, CgOfRows(file[cursor + 1]), nmax)

(***************************************************************************)
(* (b) the grid.  ng : numbers of points per axis (length 2 or 3);         *)
(* pt : zero-based index tuple; slots are numbered from 0.                 *)
(***************************************************************************)
NPoints(ng) == ProdSeq(ng)
Flat(ng, pt) ==
  IF Len(ng) = 2 THEN pt[1] * ng[2] + pt[2]
  ELSE (pt[1] * ng[2] + pt[2]) * ng[3] + pt[3]
Unflat(ng, s) ==
  IF Len(ng) = 2 THEN <<s \div ng[2], s % ng[2]>>
  ELSE <<s \div (ng[2] * ng[3]), (s \div ng[3]) % ng[2], s % ng[3]>>
GridPoints(ng) == {p \in [1..Len(ng) -> 0..(CgMax(Range(ng)) - 1)] : \A k \in 1..Len(ng) : p[k] < ng[k]}
LexLess(p, q) == \E k \in 1..Len(p) : (\A m \in 1..(k - 1) : p[m] = q[m]) /\ p[k] < q[k]

\* the loop nest "for i: for j: (for k:)" as an odometer, last axis fastest;
\* << >> after the last point
FirstPoint(ng) == [k \in 1..Len(ng) |-> 0]
NextPoint(ng, pt) ==
  LET d == Len(ng) IN
  IF pt[d] + 1 < ng[d] THEN [pt EXCEPT ![d] = @ + 1]
  ELSE IF pt[d - 1] + 1 < ng[d - 1] THEN [k \in 1..d |-> IF k = d THEN 0 ELSE IF k = d - 1 THEN pt[k] + 1 ELSE pt[k]]
  ELSE IF d = 3 /\ pt[1] + 1 < ng[1] THEN <<pt[1] + 1, 0, 0>>
  ELSE << >>

\* one loop step: the grid point pt is written into its flat slot
EmptySlots(ng) == [s \in 0..(NPoints(ng) - 1) |-> << >>]
VisitSlots(ng, slots, pt) == [slots EXCEPT ![Flat(ng, pt)] = pt]

\* properties of a slot assignment
Written(slots) == {s \in DOMAIN slots : slots[s] # << >>}
IsBijection(ng, slots) ==
  /\ Written(slots) = DOMAIN slots
  /\ \A s, t \in DOMAIN slots : s # t => slots[s] # slots[t]
  /\ {slots[s] : s \in DOMAIN slots} = GridPoints(ng)
IsXSlowest(slots) ==
  \A s, t \in Written(slots) : s < t => LexLess(slots[s], slots[t])

\* coordinate of point k of n equally spaced points spanning [lo, hi]
AxisPos(lo, hi, n, k) == IF n = 1 THEN <<lo, 1>> ELSE RNorm(lo * (n - 1) + k * (hi - lo), n - 1)
PointPos(ng, bounds, pt) == [k \in 1..Len(ng) |-> AxisPos(bounds[k][1], bounds[k][2], ng[k], pt[k])]

\* common scale M on which every grid coordinate is an integer
GridScale(ng) == CgLcmSeq([k \in 1..Len(ng) |-> Max2(ng[k] - 1, 1)])
ScaledPoint(ng, bounds, pt) ==
  LET M == GridScale(ng) IN
  [k \in 1..Len(ng) |->
     IF ng[k] = 1 THEN bounds[k][1] * M
     ELSE bounds[k][1] * M + pt[k] * (bounds[k][2] - bounds[k][1]) * (M \div (ng[k] - 1))]

\* The grid of a frame: slot s (from 0) |-> position on the scale M.  A frame of a trajectory has two INDEPENDENT
\* attributes: its box bounds (snapshot.boxbounds: a LAMMPS box has origin + bounding box of the cell, a gsd frame the
\* extent of its particles) and its cell (snapshot.hmatrix).  The grid of frame n is a function of the bounds of
\* frame n alone (not of its cell, not of any other frame); the minimum image is a function of the cell of frame n alone.
FrameGrid(ng, bounds) == [s \in 0..(NPoints(ng) - 1) |-> ScaledPoint(ng, bounds, Unflat(ng, s))]
\* two bounds give the same grid iff they agree on every axis (the upper bound of an axis with one point is not used)
SameGridBounds(ng, b1, b2) == \A k \in 1..Len(ng) : b1[k][1] = b2[k][1] /\ (ng[k] > 1 => b1[k][2] = b2[k][2])
\* how the two attributes change from one frame to the next
CellChange(H1, H2) ==
  IF H1 = H2 THEN "same"
  ELSE IF \A k \in 1..Len(H1) : H1[k][k] = H2[k][k] THEN "tilt"            \* same edge lengths, other tilt factors
  ELSE IF \A k, m \in 1..Len(H1) : k # m => H1[k][m] = H2[k][m] THEN "lengths"
  ELSE "both"
BoundsChange(b1, b2) ==
  IF b1 = b2 THEN "same"
  ELSE IF \A k \in 1..Len(b1) : b1[k][2] - b1[k][1] = b2[k][2] - b2[k][1] THEN "shifted"   \* origin moved, same lengths
  ELSE "resized"
BoundsShift(b, t) == [k \in 1..Len(b) |-> <<b[k][1] + t[k], b[k][2] + t[k]>>]

\* admissible minimum images: Cell!MinImage written as an explicit product of
\* the per-axis coefficient sets Cell!CoefSets (same set, cheaper to enumerate)
CgImages(H, v, ppp) ==
  LET cs == CoefSets(H, v, ppp) IN
  IF Len(v) = 2 THEN {VSub(v, VecMat(<<a, b>>, H)) : a \in cs[1], b \in cs[2]}
  ELSE {VSub(v, VecMat(<<a, b, c>>, H)) : a \in cs[1], b \in cs[2], c \in cs[3]}

\* squared minimum-image distances (unit 1/M^2) between grid point pt and
\* particle position p: a singleton except at half-cell ties of a tilted cell
GridDist2Set(ng, bounds, H, ppp, pt, p) ==
  LET M  == GridScale(ng)
      Hs == [i \in 1..Len(H) |-> VScale(M, H[i])]
  IN  {Norm2(w) : w \in CgImages(Hs, VSub(ScaledPoint(ng, bounds, pt), VScale(M, p)), ppp)}

\* classification of a particle with distance set S for the cut-off cut = <<cn, cd>>:
\*  "in"   strictly inside, one distance;   "out"  strictly outside;
\*  "edge" exactly on the cut-off (the statement does not say which way);
\*  "amb"  the minimum image itself is ambiguous and the alternatives differ
ClassOf(S, M, cut) ==
  LET c2 == cut[1] * cut[1] * M * M
      q2 == cut[2] * cut[2]
  IN  IF \A x \in S : x * q2 > c2 THEN "out"
      ELSE IF Cardinality(S) > 1 THEN "amb"
      ELSE IF \A x \in S : x * q2 < c2 THEN "in"
      ELSE "edge"
CutClass(ng, bounds, H, ppp, pt, p, cut) ==
  ClassOf(GridDist2Set(ng, bounds, H, ppp, pt, p), GridScale(ng), cut)

\* per particle: <<class, d^2 as a rational>> (d^2 of one admissible image)
Classify(ng, bounds, H, ppp, pt, pos, cut) ==
  LET M == GridScale(ng) IN
  [j \in 1..Len(pos) |->
     LET S == GridDist2Set(ng, bounds, H, ppp, pt, pos[j])
     IN  <<ClassOf(S, M, cut), RNorm(CHOOSE y \in S : TRUE, M * M)>>]

\* G(d) for d^2 = d2 (rational), sigma = sig (rational)
Sig2T(sig) == Q(sig[1] * sig[1], sig[2] * sig[2])
GaussT(sig, d2) ==
  Div(Exp(Neg(Div(QR(d2), Mul2(I(2), Sig2T(sig))))), Sqrt(Mul3(I(2), Pi, Sig2T(sig))))

\* value of a slot: sum over the selected particles (ascending ids) of
\* G(d_j) * p_j; the property of particle j is the free variable j of the term
\* (scalar, vector or tensor alike: the sum is linear in the property)
SelectedIn(cl, classes) == SortedSeq({j \in 1..Len(cl) : cl[j][1] \in classes})
BlurTermOf(cl, sig, js) == Add([k \in 1..Len(js) |-> Mul2(GaussT(sig, cl[js[k]][2]), Var(js[k]))])
AmbiguousIn(cl) == \E j \in 1..Len(cl) : cl[j][1] = "amb"

(***************************************************************************)
(* (c) the time window.  dts : timestep difference of consecutive frames   *)
(* (integer > 0), dt and period rationals > 0.  Frames are numbered from 0 *)
(* as in the returned indices; prop is a 1-based sequence of frames.       *)
(***************************************************************************)
Interval(dts, dt)        == RNorm(dts * dt[1], dt[2])
WindowLen(dts, dt, per)  == LET q == RDiv(per, Interval(dts, dt)) IN FloorDiv(q[1], q[2])
WindowFrames(n, w)       == n..(n + w - 1)
\* the central frame; for even w there is none and both middle frames are admissible
CentreSet(n, w) == IF w % 2 = 1 THEN {n + (w - 1) \div 2} ELSE {n + w \div 2 - 1, n + w \div 2}
WindowSum(prop, n, w, i, c) == SumSeq([f \in 1..w |-> prop[n + f][i][c]])
WindowMean(prop, n, w, i, c) == RNorm(WindowSum(prop, n, w, i, c), w)
\* Undefined entries.  A per-particle quantity may be undefined in a frame (the order parameter of a particle
\* without neighbours is 0/0): undef = set of <<frame (from 0), particle>>.  The mean over a window is defined
\* iff every frame of the window is defined for that particle - an undefined frame does not leak into the
\* windows that do not contain it.
WindowDefined(undef, n, w, i) == \A f \in WindowFrames(n, w) : <<f, i>> \notin undef
\* the statement fixes the windows, not how many of them are reported: every
\* complete window (T - w + 1 of them) or all but the last (the code) are accepted
RowsSet(T, w) == {T - w, T - w + 1}
=============================================================================
