---------------------------- MODULE MC_SphHarm ----------------------------
(***************************************************************************)
(* Model of property C08.  One state per degree l.  The invariants are the *)
(* internal consistency of the canonical table (they guard the             *)
(* specification); in emission mode the table of degree l (Mode "table")   *)
(* or the Wigner 3-j terms of degree l (Mode "w3j", used by C09) are       *)
(* printed as JSON for the harness.                                        *)
(***************************************************************************)
EXTENDS SphHarm, TLC, Json

CONSTANTS Tier,      \* "quick" | "thorough"
          Mode,      \* "check" | "table" | "w3j"
          SHARD, NSHARDS

VARIABLES l
vars == <<l>>

LMax     == 20                                   \* table derived for 0 <= m <= l <= LMax
LExact   == IF Tier = "quick" THEN 4 ELSE 5       \* exact rational Unsold identity (l = 6 overflows 32-bit rationals)
LW3j     == 12                                   \* 3-j symbols (l l l; m1 m2 m3) for l <= 12 (primes <= 37)
LW3jOrth == IF Tier = "quick" THEN 6 ELSE 12     \* orthogonality modulo p checked up to here

Degrees == IF Mode = "w3j" THEN 1..LW3j ELSE 0..LMax

Init == l \in Degrees /\ l % NSHARDS = SHARD
Next == UNCHANGED vars
Spec == Init /\ [][Next]_vars

InvPrimitive  == Primitive(l)
InvParity     == Parity(l)
InvSectorial  == Sectorial(l)
InvNegM       == NegMSymmetric(l)
InvOrder      == OrderOK(l) /\ Dispatch(l) = l
InvUnsoldMod  == UnsoldMod(l, ShP1) /\ (Tier = "thorough" => UnsoldMod(l, ShP2))
InvBonnetMod  == l < LMax => (BonnetMod(l, ShP1) /\ (Tier = "thorough" => BonnetMod(l, ShP2)))
InvLegAtOne   == LegendreAtOneMod(l, ShP1) /\ LegendreAtOneMod(l, ShP2)
                 /\ (l <= 12 => LegAt(l, <<1, 1>>) = <<1, 1>>)
                 /\ (l <= 12 => LegAt(l, <<0 - 1, 1>>) = <<SSgn(l), 1>>)
InvUnsoldExact == l <= LExact => UnsoldExact(l)
InvW3jIndex   == l <= LW3j => Cardinality(W3jIndex(l)) = 3 * l * l + 3 * l + 1
InvW3jOrth    == (l >= 1 /\ l <= LW3jOrth) => (W3jOrthogonal(l, ShP1) /\ W3jOrthogonal(l, ShP2))

\* ---- emission
Entry(m) ==
  LET a == ShAbs(m) IN
  [ m      |-> m,
    s      |-> TabSgn(m),
    B      |-> ShFQ(1, BF(l, a)),
    Q      |-> QTerms(l, a),
    Qint   |-> IF l <= 10 THEN [k \in 1..(KMax(l, a) + 1) |-> <<QPow(l, a, k - 1), QSgn(k - 1) * FacVal(QCoefF(l, a, k - 1))>>]
               ELSE << >>,
    ytheta |-> YTheta(l, m),
    yphi   |-> YPhi(m) ]
TableCase ==
  [ kind |-> "table", l |-> l, dispatch |-> Dispatch(l), order |-> MOrder(l),
    entries |-> [k \in 1..(2 * l + 1) |-> Entry(MOrder(l)[k])],
    unsold |-> Div(I(2 * l + 1), Mul2(I(4), Pi)),        \* sum_m |Y_lm|^2
    legendre |-> LegTerm(l, Var("x")) ]
W3jCase ==
  LET idx == W3jIndex(l)
      \* the order in which the triples are listed is irrelevant (a sum); emit sorted by (m1, m2)
      seq == [k \in 1..((2 * l + 1) * (2 * l + 1)) |->
                LET m1 == ((k - 1) \div (2 * l + 1)) - l
                    m2 == ((k - 1) % (2 * l + 1)) - l
                IN  <<m1, m2, 0 - m1 - m2>>]
      sel == SelectSeq(seq, LAMBDA t : ShAbs(t[3]) <= l)
  IN  [ kind |-> "w3j", l |-> l, n |-> Cardinality(idx),
        terms |-> [k \in 1..Len(sel) |-> <<sel[k], W3jTerm(l, sel[k][1], sel[k][2], sel[k][3])>>] ]
Emit == IF Mode = "table" THEN PrintT(ToJson(TableCase))
        ELSE IF Mode = "w3j" THEN PrintT(ToJson(W3jCase))
        ELSE TRUE
=============================================================================
