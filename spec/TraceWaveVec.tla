---------------------------- MODULE TraceWaveVec ----------------------------
(***************************************************************************)
(* Trace validation of the default wave-vector set for LARGE half-widths   *)
(* (C04, direction B).  MC_DensityModes enumerates DefaultVectors(d, h,    *)
(* opt) for h <= 6 and replays them; whether a vector belongs to the set   *)
(* is a decision on integers (is n.n a perfect square?) that a floating-   *)
(* point implementation may get wrong only for large components, so the    *)
(* outputs the real choosewavevector(d, numofq, opt) returns for numofq in *)
(* the hundreds are recorded and decided here:                             *)
(*   [d, numofq, opt |-> "F"|"T"|"x"|"y"|"z", vecs |-> returned rows]      *)
(* A record is consumed iff the rows are exactly the set                   *)
(*   { n in [-h, h)^d : n # 0, |n| integer, OptOK(n, opt) },  h = numofq/2 *)
(* - membership row by row, and completeness by counting the set, which    *)
(* TLC enumerates in exact integer arithmetic.                             *)
(***************************************************************************)
EXTENDS DensityModes, Json, IOUtils

Tr == ndJsonDeserialize(IOEnv.TRACE_FILE)

VARIABLES l, bad
tvars == <<l, bad>>

Squares(h)  == {k * k : k \in 0..(2 * h)}          \* n.n <= d h^2 <= (2h)^2 for d <= 3
InRange(v, h) == \A k \in 1..Len(v) : v[k] >= 0 - h /\ v[k] < h
Member(v, h, opt, S) == InRange(v, h) /\ ~IsZero(v) /\ Norm2(v) \in S /\ OptOK(v, opt)
\* the set itself; for the one-axis options only the h - 1 multiples of the axis qualify
TheSet(d, h, opt) ==
  LET S == Squares(h) IN
  IF opt \in {"F", "T"}
  THEN {v \in [1..d -> (IF opt = "T" THEN 0 ELSE 0 - h)..(h - 1)] : Member(v, h, opt, S)}
  ELSE {v \in [1..d -> 0..(h - 1)] : Cardinality({k \in 1..d : v[k] # 0}) <= 1 /\ Member(v, h, opt, S)}

Why(rec) ==
  LET d == rec.d
      h == rec.numofq \div 2
      S == Squares(h)
      V == rec.vecs
      R == {V[i] : i \in DOMAIN V}
  IN  IF \E i \in DOMAIN V : Len(V[i]) # d THEN "Shape"
      ELSE IF \E i \in DOMAIN V : IsZero(V[i]) THEN "ZeroVector"
      ELSE IF \E i \in DOMAIN V : ~InRange(V[i], h) THEN "HalfOpenRange"
      ELSE IF \E i \in DOMAIN V : Norm2(V[i]) \notin S THEN "NonIntegerNorm"
      ELSE IF \E i \in DOMAIN V : ~OptOK(V[i], rec.opt) THEN "OnlyPositiveOption"
      ELSE IF Cardinality(R) # Len(V) THEN "VectorTwice"
      ELSE IF Cardinality(TheSet(d, h, rec.opt)) # Len(V) THEN "VectorMissing"
      ELSE ""

Init == l = 1 /\ bad = ""
Step == /\ l <= Len(Tr) /\ bad = ""
        /\ LET w == Why(Tr[l]) IN
           IF w = "" THEN l' = l + 1 /\ bad' = "" ELSE l' = l /\ bad' = w
Spec == Init /\ [][Step]_tvars
Accepted == bad = ""
=============================================================================
