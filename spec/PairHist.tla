------------------------------ MODULE PairHist ------------------------------
(***************************************************************************)
(* Pair histograms and the pair correlation function g(r)  (property C03;  *)
(* the weighted variant used by C13 is in CondPair.tla).                   *)
(*                                                                         *)
(* A configuration record c has                                            *)
(*   H      cell, integer matrix, rows = cell vectors (scaled by c.S)      *)
(*   ppp    periodicity mask                                               *)
(*   S      scale: real length = integer / S                               *)
(*   types  sequence of species ids (1..K, every id present)               *)
(*   frames sequence of frames, a frame = sequence of integer positions    *)
(*   Hs     (optional) one cell per frame: a sheared cell whose tilts       *)
(*          change from frame to frame at constant edge lengths (same       *)
(*          diagonal as H, hence same volume and same number of bins)       *)
(*   tys    (optional) species labels per frame: labels move between        *)
(*          particles at constant composition (identity-swap trajectories)  *)
(*   wn     bin width in scaled units (integer):  width = wn / S           *)
(*   sharp  1: every floating-point operation on the way to the bin index  *)
(*             is exact (dyadic scope) - a distance exactly on an inner    *)
(*             bin edge belongs to the upper bin [k w, (k+1) w);           *)
(*          0: such a distance may be counted in either adjacent bin       *)
(*                                                                         *)
(* Definition (docs/gr.md):  g_ab(r_k) = V/(N_a N_b) * <n_ab(k)> / shell_k *)
(* with n_ab(k) the number of ORDERED pairs i # j, type_i = a, type_j = b, *)
(* whose minimum-image distance lies in bin k = [k w, (k+1) w), <.> the    *)
(* frame average, shell_k = c_d pi ((k+1)^d - k^d) w^d, c_2 = 1, c_3 = 4/3,*)
(* r_k = (k + 1/2) w, and int(L_min / (2 w)) bins.                         *)
(***************************************************************************)
EXTENDS Cell, Real, TLC

NPart(c)   == Len(c.types)
NDim(c)    == Len(c.ppp)
NFrames(c) == Len(c.frames)
Species(c) == Range(c.types)
NSpecies(c) == Cardinality(Species(c))
CountOf(c, a) == Cardinality({i \in 1..NPart(c) : c.types[i] = a})
\* cell and species labels of frame f
FrameH(c, f)  == IF "Hs" \in DOMAIN c THEN c.Hs[f] ELSE c.H
TypesAt(c, f) == IF "tys" \in DOMAIN c THEN c.tys[f] ELSE c.types
\* well-formedness of the optional per-frame data: same edge lengths, same composition
PerFrameOK(c) ==
  /\ "Hs" \in DOMAIN c => /\ Len(c.Hs) = NFrames(c)
                           /\ \A f \in 1..NFrames(c) : IsLowerTri(c.Hs[f]) /\ \A k \in 1..NDim(c) : c.Hs[f][k][k] = c.H[k][k]
  /\ "tys" \in DOMAIN c => /\ Len(c.tys) = NFrames(c)
                            /\ \A f \in 1..NFrames(c) : \A a \in Species(c) :
                                  Cardinality({i \in 1..NPart(c) : c.tys[f][i] = a}) = CountOf(c, a)

LMin(c)  == SetMin({c.H[k][k] : k \in 1..NDim(c)})
NBins(c) == LMin(c) \div (2 * c.wn)
\* the quotient L_min/(2 w) is an exact integer: int() of the float quotient is only
\* safe when the floating-point division is exact (sharp scopes)
NBinsOnInteger(c) == LMin(c) % (2 * c.wn) = 0

\* A cell whose diagonal entries are powers of two (integer tilts, lower triangular) has an
\* exactly representable inverse; with dyadic coordinates every operation up to the bin
\* index is then exact in binary floating point, and edges can be asserted sharply.
RECURSIVE IsPow2(_)
IsPow2(n) == IF n = 1 THEN TRUE ELSE IF n < 1 \/ n % 2 = 1 THEN FALSE ELSE IsPow2(n \div 2)
DyadicCell(H) == IsLowerTri(H) /\ \A k \in 1..Len(H) : IsPow2(H[k][k])

(***************************************************************************)
(* Minimum-image squared distances with tie sets.  For a diagonal cell a   *)
(* half-cell tie does not change the length.                               *)
(***************************************************************************)
Nearest1(n, d) == LET f == n \div d IN IF 2 * (n - f * d) <= d THEN f ELSE f + 1
Image1(H, v, ppp) ==
  LET fn == FracNum(H, v)
      n  == [k \in 1..Len(v) |-> IF ppp[k] = 1 THEN Nearest1(fn[k], FracDen(H)) ELSE 0]
  IN  VSub(v, VecMat(n, H))
Dist2Set(H, v, ppp) ==
  IF (~IsDiagonal(H)) /\ HasTie(H, v, ppp) THEN MinDist2Set(H, v, ppp)
  ELSE {Norm2(Image1(H, v, ppp))}

(***************************************************************************)
(* Bin of a squared distance: the set of admissible outcomes, -1 = outside *)
(* the histogram.  Bins are 0-based.                                       *)
(***************************************************************************)
BinSetOf(d2, wn, nb, sharp) ==
  LET k    == ISqrt2(d2) \div wn
      edge == (k * wn) * (k * wn) = d2
  IN  IF k > nb THEN {0 - 1}
      ELSE IF k = nb THEN (IF edge /\ nb > 0 THEN {nb - 1, 0 - 1} ELSE {0 - 1})
      ELSE IF edge /\ k > 0 /\ sharp # 1 THEN {k - 1, k}
      ELSE {k}

PairBins(c, f, i, j) ==
  LET v == VSub(c.frames[f][j], c.frames[f][i])
  IN  UNION {BinSetOf(d2, c.wn, NBins(c), c.sharp) : d2 \in Dist2Set(FrameH(c, f), v, c.ppp)}

(***************************************************************************)
(* Columns.  A column is <<0,0>> (total) or <<a,b>> with a <= b.           *)
(***************************************************************************)
Total == <<0, 0>>
PartialCols(K) == IF K <= 5 /\ K >= 2 THEN {<<a, b>> : a \in 1..K, b \in 1..K} \ {<<a, b>> \in (1..K) \X (1..K) : a > b}
                  ELSE {}
\* the documented order: total, diagonal terms, then cross terms (a < b) lexicographically
ColSeq(K) ==
  <<Total>> \o
  (IF K <= 5 /\ K >= 2
   THEN [a \in 1..K |-> <<a, a>>] \o
        SelectSeq([n \in 1..(K * K) |-> <<((n - 1) \div K) + 1, ((n - 1) % K) + 1>>], LAMBDA p : p[1] < p[2])
   ELSE << >>)
ColName(col) == IF col = Total THEN "gr" ELSE "gr" \o ToString(col[1]) \o ToString(col[2])
ColumnOfPair(a, b) == IF a <= b THEN <<a, b>> ELSE <<b, a>>

\* The library classifies an unordered pair by the sum and the absolute difference of
\* the two type ids.  Claims(col, a, b): a pair of species (a, b) is counted in col.
Claims(col, a, b) ==
  IF col = Total THEN TRUE
  ELSE a + b = col[1] + col[2] /\ Abs(a - b) = col[2] - col[1]

\* ordered-pair multiplicity of one unordered pair in a column
Mult(col, a, b) == IF col = Total THEN 2 ELSE IF a = b THEN 2 ELSE 1

(***************************************************************************)
(* Counting: base[col][k] = ordered pairs certainly in bin k,              *)
(*           tie[col][k]  = ordered pairs that may be in bin k (tie sets)  *)
(***************************************************************************)
PairSeq(c) ==
  LET n == NPart(c)
      all == [m \in 1..(NFrames(c) * n * n) |->
                <<((m - 1) \div (n * n)) + 1, (((m - 1) \div n) % n) + 1, ((m - 1) % n) + 1>>]
  IN  SelectSeq(all, LAMBDA t : t[2] < t[3])

ZeroHist(cols, nb) == [q \in 1..Len(cols) |-> [k \in 1..nb |-> 0]]

RECURSIVE Accumulate(_, _, _, _, _, _)
Accumulate(c, cols, ps, m, stop, acc) ==
  \* (acc.nt < 0 is never true: reading a field forces TLC to evaluate the lazily passed
  \*  accumulator at every step, which keeps the evaluation stack shallow)
  IF m > stop \/ acc.nt < 0 THEN acc
  ELSE
    LET t  == ps[m]
        a  == TypesAt(c, t[1])[t[2]]
        b  == TypesAt(c, t[1])[t[3]]
        bs == PairBins(c, t[1], t[2], t[3])
        sure == Cardinality(bs) = 1
        upd(h, q, k, x) == [h EXCEPT ![q][k + 1] = @ + x]
        AddTo(h, ks) ==   \* add multiplicity to every column that claims the pair, for every bin in ks
          LET RECURSIVE Cols(_, _)
              Cols(hh, q) == IF q > Len(cols) THEN hh
                             ELSE IF Claims(cols[q], a, b)
                                  THEN LET RECURSIVE Ks(_, _)
                                           Ks(h2, rest) == IF rest = {} THEN h2
                                                           ELSE LET k == CHOOSE x \in rest : TRUE
                                                                IN  Ks(upd(h2, q, k, Mult(cols[q], a, b)), rest \ {k})
                                       IN  Cols(Ks(hh, ks), q + 1)
                                  ELSE Cols(hh, q + 1)
          IN  Cols(h, 1)
        inb == bs \ {0 - 1}
    IN  Accumulate(c, cols, ps, m + 1, stop,
                   IF sure THEN [base |-> AddTo(acc.base, inb), tie |-> acc.tie, nt |-> acc.nt]
                   ELSE [base |-> acc.base, tie |-> AddTo(acc.tie, inb), nt |-> acc.nt + 1])

Hist(c) ==
  LET cols == ColSeq(NSpecies(c))
      z    == ZeroHist(cols, NBins(c))
      ps   == PairSeq(c)
      \* chunks of 48 pairs keep the evaluation stack shallow (TLC does not eliminate tail calls)
      RECURSIVE Chunks(_, _)
      Chunks(start, acc) == IF start > Len(ps) \/ acc.nt < 0 THEN acc
                            ELSE Chunks(start + 48, Accumulate(c, cols, ps, start, Min2(start + 47, Len(ps)), acc))
  IN  Chunks(1, [base |-> z, tie |-> z, nt |-> 0])

(***************************************************************************)
(* Scale: translation-invariant configurations.  One frame, an orthogonal  *)
(* fully periodic cell filled by the full lattice n_1 x .. x n_d (spacing  *)
(* a), coloured "one" (a single species) or "checker" (species 1 + parity  *)
(* of the site indices, every n_k even): a lattice translation that maps   *)
(* one a-site to another maps the whole coloured lattice onto itself, so   *)
(* all a-particles see the same environment and the ordered count of a     *)
(* column is N_a times the count seen from ONE a-particle - linear instead *)
(* of quadratic in N.  MC_PairHist!LatticeLemma (evaluated by TLC at the   *)
(* start of every run) proves HistLat = Hist on small lattices; the trace  *)
(* mode uses HistAuto, so lattices of a thousand particles and more are    *)
(* decided (accumulators of narrow type, size-dependent code paths).       *)
(***************************************************************************)
LatIndex(n, m) ==      \* 0-based site indices of the m-th site in row-major order
  IF Len(n) = 2 THEN <<(m - 1) \div n[2], (m - 1) % n[2]>>
  ELSE <<(m - 1) \div (n[2] * n[3]), ((m - 1) \div n[3]) % n[2], (m - 1) % n[3]>>
LatColour(colour, ix) == IF colour = "one" THEN 1 ELSE 1 + (SumSeq(ix) % 2)
IsTypedLattice(c) ==
  /\ "lat" \in DOMAIN c /\ NFrames(c) = 1 /\ "Hs" \notin DOMAIN c /\ "tys" \notin DOMAIN c
  /\ LET d == NDim(c) n == c.lat.n a == c.lat.a IN
     /\ Len(n) = d /\ c.lat.colour \in {"one", "checker"}
     /\ \A k \in 1..d : c.ppp[k] = 1 /\ (c.lat.colour = "checker" => n[k] % 2 = 0) /\
                          \A j \in 1..d : c.H[k][j] = (IF j = k THEN n[k] * a ELSE 0)
     /\ NPart(c) = ProdSeq(n)
     \* every site once, with the colour of its indices (positions must be exact multiples of a inside the cell)
     /\ \A i \in 1..NPart(c) : \A k \in 1..d : c.frames[1][i][k] % a = 0 /\ c.frames[1][i][k] \div a \in 0..(n[k] - 1)
     /\ Cardinality({c.frames[1][i] : i \in 1..NPart(c)}) = NPart(c)
     /\ \A i \in 1..NPart(c) : c.types[i] = LatColour(c.lat.colour, [k \in 1..d |-> c.frames[1][i][k] \div a])
\* counts seen from particle r: cnt[b][k] ordered pairs (r, j), type_j = b, certainly in bin k; tie likewise; nt ambiguous pairs
FromOne(c, r) ==
  LET nb == NBins(c)
      K  == NSpecies(c)
      bins == TLCEval([j \in 1..NPart(c) |-> IF j = r THEN {0 - 1} ELSE PairBins(c, 1, r, j)])
      sure(j) == Cardinality(bins[j]) = 1
  IN  [ cnt |-> [b \in 1..K |-> [k \in 1..nb |->
                   Cardinality({j \in 1..NPart(c) : j # r /\ c.types[j] = b /\ sure(j) /\ (k - 1) \in bins[j]})]],
        tie |-> [b \in 1..K |-> [k \in 1..nb |->
                   Cardinality({j \in 1..NPart(c) : j # r /\ c.types[j] = b /\ ~sure(j) /\ (k - 1) \in bins[j]})]],
        nt  |-> Cardinality({j \in 1..NPart(c) : j # r /\ ~sure(j)}) ]
HistLat(c) ==
  LET cols == ColSeq(NSpecies(c))
      nb   == NBins(c)
      K    == NSpecies(c)
      rep  == [a \in 1..K |-> CHOOSE i \in 1..NPart(c) : c.types[i] = a /\ \A j \in 1..NPart(c) : c.types[j] = a => i <= j]
      one  == TLCEval([a \in 1..K |-> FromOne(c, rep[a])])
      Ord(f, a, b, k) == CountOf(c, a) * f[a][b][k]                 \* ordered pairs a -> b in bin k
      Col(f, q, k) ==
        IF cols[q] = Total THEN SumSeq([m \in 1..(K * K) |-> Ord(f, ((m - 1) \div K) + 1, ((m - 1) % K) + 1, k)])
        ELSE Ord(f, cols[q][1], cols[q][2], k)                      \* a = b: ordered; a < b: unordered cross pairs = ordered a -> b
      cntf == [a \in 1..K |-> one[a].cnt]
      tief == [a \in 1..K |-> one[a].tie]
  IN  [ base |-> [q \in 1..Len(cols) |-> [k \in 1..nb |-> Col(cntf, q, k)]],
        tie  |-> [q \in 1..Len(cols) |-> [k \in 1..nb |-> Col(tief, q, k)]],
        nt   |-> SumSeq([a \in 1..K |-> CountOf(c, a) * one[a].nt]) \div 2 ]
HistAuto(c) == IF IsTypedLattice(c) THEN HistLat(c) ELSE Hist(c)

(***************************************************************************)
(* Real-valued parts, as terms.                                            *)
(***************************************************************************)
CdTerm(d)     == IF d = 3 THEN Q(4, 3) ELSE Q(1, 1)
VolumeTerm(c) == Q(Volume(c.H), IPow(c.S, NDim(c)))
NormTerm(c, col) ==
  LET na == IF col = Total THEN NPart(c) ELSE CountOf(c, col[1])
      nb == IF col = Total THEN NPart(c) ELSE CountOf(c, col[2])
  IN  Div(VolumeTerm(c), I(na * nb * NFrames(c)))
ShellTerm(c, k) ==      \* k 0-based
  LET d == NDim(c) IN
  Mul(<<CdTerm(d), Pi, I(IPow(k + 1, d) - IPow(k, d)), Q(IPow(c.wn, d), IPow(c.S, d))>>)
GTerm(c, col, k, n) == Div(Mul2(NormTerm(c, col), I(n)), ShellTerm(c, k))
RCentre(c, k)  == Q((2 * k + 1) * c.wn, 2 * c.S)

(***************************************************************************)
(* Properties of C03 on the model.                                         *)
(***************************************************************************)
\* every species pair is claimed by exactly one partial column, the documented one
EveryPairInExactlyOnePartial(K) ==
  \A a, b \in 1..K :
    LET cl == {col \in PartialCols(K) : Claims(col, a, b)}
    IN  K >= 2 /\ K <= 5 => cl = {ColumnOfPair(a, b)}

OnlyTotalAboveFiveSpecies(K) == (K > 5 \/ K = 1) => ColSeq(K) = <<Total>>

\* N^2 g = sum_ab N_a N_b g_ab in every bin, i.e. for ordered counts:
\* n_total = sum_a n_aa + 2 sum_{a<b} n_ab   (on configurations without tie pairs)
TotalIsCompositionWeightedSum(c, h) ==
  LET cols == ColSeq(NSpecies(c)) IN
  (h.nt = 0 /\ Len(cols) > 1) =>
    \A k \in 1..NBins(c) :
      h.base[1][k] = SumSeq([q \in 1..(Len(cols) - 1) |->
                               (IF cols[q + 1][1] = cols[q + 1][2] THEN 1 ELSE 2) * h.base[q + 1][k]])

\* ordered counts of like pairs and of the total are even (i->j and j->i)
CountsSymmetric(c, h) ==
  LET cols == ColSeq(NSpecies(c)) IN
  \A q \in 1..Len(cols) : \A k \in 1..NBins(c) :
    (cols[q] = Total \/ cols[q][1] = cols[q][2]) => h.base[q][k] % 2 = 0

(***************************************************************************)
(* The case handed to the conformance driver.                              *)
(***************************************************************************)
Case(c) ==
  LET h    == HistAuto(c)
      cols == ColSeq(NSpecies(c))
      nb   == NBins(c)
  IN  [ m      |-> "PairHist",
        H      |-> c.H, ppp |-> c.ppp, S |-> c.S, types |-> c.types, frames |-> c.frames,
        wn     |-> c.wn, sharp |-> c.sharp,
        Hs     |-> [f \in 1..NFrames(c) |-> FrameH(c, f)],
        tys    |-> [f \in 1..NFrames(c) |-> TypesAt(c, f)],
        \* timestep labels of the frames: `frames` is a SEQUENCE - every frame counts once in the average,
        \* whatever its label (labels may repeat: independent samples all dumped as step 0, reset_timestep)
        ts     |-> IF "ts" \in DOMAIN c THEN c.ts ELSE [f \in 1..NFrames(c) |-> f - 1],
        nbins  |-> nb,
        nbins_on_integer |-> NBinsOnInteger(c),
        dyadic_scale |-> IsPow2(c.S),
        cols   |-> [q \in 1..Len(cols) |-> ColName(cols[q])],
        base   |-> h.base,
        tie    |-> h.tie,
        ntie   |-> h.nt,
        norm   |-> [q \in 1..Len(cols) |-> NormTerm(c, cols[q])],
        shell  |-> [k \in 1..nb |-> ShellTerm(c, k - 1)],
        r      |-> [k \in 1..nb |-> RCentre(c, k - 1)] ]
=============================================================================
