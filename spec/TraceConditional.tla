-------------------------- MODULE TraceConditional --------------------------
(***************************************************************************)
(* Trace validation for C13 (direction B).  Every record is one call of    *)
(* conditional_gr or conditional_sq recorded from the real code, inputs as *)
(* scaled integers:                                                        *)
(*  op = "gr": H, ppp, S, types, pos, wn, sharp, kind, AS, A and           *)
(*     obs = [rows    number of rows of the returned frame,                *)
(*            ncols   number of columns, hasnorm 1 iff a gA_norm column,   *)
(*            r2      the r column times 2 S, as integers,                 *)
(*            r_ok    1 iff that product was integral to 1e-9]             *)
(*  op = "sq": L, S, M, types, pos, sel (always an explicit list: the      *)
(*     vectors the driver passed), kind, AS, A and                         *)
(*     obs = [rows, ncols, groups (rows of the |q|-averaged frame),        *)
(*            nq      the q0.. columns times L/(2 pi S), as integer vectors*)
(*            nq_ok   1 iff integral to 1e-9,                              *)
(*            fft     number of FFT columns]                               *)
(* Multi-call sessions: records that carry ses (session = one shared        *)
(* snapshot object), key (identity of the call: routine and arguments),    *)
(* dig (digest class of everything the call returned) and sd (digest class *)
(* of the shared snapshot and argument arrays after the call, 0 = as       *)
(* before the session) are also checked against the history kept in memo:  *)
(* no call changes its inputs, the same call returns the same result.      *)
(* The spec decides these discrete observables (Why names the failing      *)
(* clause) and prints, per accepted record, the expected real-valued       *)
(* columns as terms (the same case operators as direction A).              *)
(***************************************************************************)
EXTENDS Conditional, Json, IOUtils

Tr == ndJsonDeserialize(IOEnv.TRACE_FILE)

VARIABLES l, bad, memo      \* memo: set of <<session, call key, result digest>> seen so far
vars == <<l, bad, memo>>

WhyG(rec) ==
  LET nb == GBins(rec) IN
  IF rec.obs.rows # nb THEN "Rows"
  ELSE IF rec.obs.ncols # Len(GCols(rec)) THEN "Columns"
  ELSE IF rec.obs.hasnorm # (IF HasNorm(rec) THEN 1 ELSE 0) THEN "Columns:gA_norm"
  ELSE IF rec.obs.r_ok # 1 THEN "BinCentre"
  ELSE IF \E k \in 1..nb : rec.obs.r2[k] # (2 * k - 1) * rec.wn THEN "BinCentre"
  ELSE ""

WhyS(rec) ==
  LET vecs == QVecs(rec)
      gs   == DM!Groups(DMC(rec), vecs)
  IN  IF rec.obs.rows # Len(vecs) THEN "Rows"
      ELSE IF rec.obs.ncols # Len(SCols(rec)) THEN "Columns"
      ELSE IF rec.obs.fft # (IF rec.kind = "vector" THEN Len(rec.L) ELSE 1) THEN "Columns:FFT"
      ELSE IF rec.obs.nq_ok # 1 THEN "WaveVectors"
      ELSE IF \E i \in 1..Len(vecs) : rec.obs.nq[i] # vecs[i] THEN "WaveVectors"
      ELSE IF rec.obs.groups # Len(gs) THEN "GroupingByNorm"
      ELSE ""

InSession(rec) == "ses" \in DOMAIN rec
WhyH(rec) ==
  IF ~InSession(rec) THEN ""
  ELSE IF rec.sd # 0 THEN "InputChanged"
  ELSE IF \E p \in memo : p[1] = rec.ses /\ p[2] = rec.key /\ p[3] # rec.dig THEN "RepeatedCallDiffers"
  ELSE ""
Why(rec) == LET w == IF rec.op = "gr" THEN WhyG(rec) ELSE WhyS(rec) IN IF w # "" THEN w ELSE WhyH(rec)
Expected(rec) == (IF rec.op = "gr" THEN GCase(rec, WHistAuto(rec)) ELSE SCase(rec)) @@ [rec |-> l]

Init == l = 1 /\ bad = "" /\ memo = {}
Step == /\ l <= Len(Tr) /\ bad = ""
        /\ LET w == Why(Tr[l]) IN
           IF w = "" THEN /\ PrintT(ToJson(Expected(Tr[l])))
                          /\ l' = l + 1 /\ bad' = ""
                          /\ memo' = IF InSession(Tr[l]) THEN memo \cup {<<Tr[l].ses, Tr[l].key, Tr[l].dig>>} ELSE memo
           ELSE /\ bad' = w /\ UNCHANGED <<l, memo>>
Next == Step
Spec == Init /\ [][Next]_vars

Accepted == bad = ""
\* model-level, on the recorded inputs: the weights are symmetric and the reference column is PairHist's total
TraceModel == (l <= Len(Tr) /\ bad = "") =>
                 /\ WeightSymmetric(Tr[l])
                 /\ (Tr[l].op = "gr" /\ NPart(Tr[l]) <= 12) => CountIsPairHistTotal(Tr[l], WHist(Tr[l]))
=============================================================================
