------------------------------- MODULE Boo2D -------------------------------
(***************************************************************************)
(* Property C10: static.boo.boo_2d.                                        *)
(*                                                                         *)
(*   psi_l(i) = (1/N_i) sum_k exp(i l theta_k)          (unweighted)       *)
(*   psi_l(i) = sum_k  w_k / (sum_m |w_m|)  exp(i l theta_k)   (weighted)  *)
(*                                                                         *)
(* theta_k = angle of the minimum-image bond from particle i to its k-th   *)
(* listed neighbour.  Positions are integer pairs <<a, b>> in a lattice    *)
(* basis (1, tau): the point is a + b*tau with tau^2 = t*tau - 1,          *)
(*   t = 0 : tau = i            (square basis = Cartesian integers)        *)
(*   t = 1 : tau = exp(i pi/3)  (triangular basis; the cell is triclinic)  *)
(* so that exp(i l theta) = z^l / |z|^l with z = a + b*tau and             *)
(* |z|^2 = a^2 + t*a*b + b^2 an integer: exact for even l, and for odd l   *)
(* when |z|^2 is a perfect square (axis-parallel / Pythagorean / unit      *)
(* triangular bonds).  The minimum image is decided by Cell!CoefSets on    *)
(* the lattice coordinates (fractional coordinates do not depend on the    *)
(* basis).  Real values are stated as terms; where exact values exist the  *)
(* clauses |psi| <= 1, = 1 on the perfect lattice, rotation covariance are *)
(* decided by TLC itself.  Helper names carry the prefix B2.               *)
(***************************************************************************)
EXTENDS Cell, Real

RECURSIVE B2Pow(_, _)
B2Pow(b, e) == IF e = 0 THEN 1 ELSE b * B2Pow(b, e - 1)
B2SumAbs(w) == SumSeq([k \in 1..Len(w) |-> Abs(w[k])])

\* ---- arithmetic in Z[tau] -------------------------------------------------
LMul(t, x, y) == <<x[1] * y[1] - x[2] * y[2], x[1] * y[2] + x[2] * y[1] + t * x[2] * y[2]>>
LNorm(t, z)   == z[1] * z[1] + t * z[1] * z[2] + z[2] * z[2]          \* |z|^2
RECURSIVE LPow(_, _, _)
LPow(t, z, n) == IF n = 0 THEN <<1, 0>> ELSE LMul(t, z, LPow(t, z, n - 1))

\* exp(i l theta) of bond z as <<x, y, den>> = (x + y tau)/den, when it is exact
HasExactPhase(t, z, l) == l % 2 = 0 \/ IsSquare(LNorm(t, z))
ExactPhase(t, z, l) ==
  LET p == LPow(t, z, l) IN
  <<p[1], p[2], IF l % 2 = 0 THEN B2Pow(LNorm(t, z), l \div 2) ELSE B2Pow(ISqrt(LNorm(t, z)), l)>>

\* ---- terms ----------------------------------------------------------------
TauT(t)    == IF t = 0 THEN Zeta(1, 4) ELSE Zeta(1, 6)
ZT(t, z)   == IF t = 0 THEN Cplx(I(z[1]), I(z[2])) ELSE Add2(I(z[1]), Mul2(I(z[2]), TauT(t)))
PhaseT(t, z, l) == PowI(Div(ZT(t, z), Sqrt(I(LNorm(t, z)))), l)
\* Cartesian basis vectors of the lattice basis (rows), as terms
BasisT(t) == IF t = 0 THEN << <<I(1), I(0)>>, <<I(0), I(1)>> >>
             ELSE << <<I(1), I(0)>>, <<Q(1, 2), Div(Sqrt(I(3)), I(2))>> >>

\* psi for one particle: bonds = sequence of lattice vectors, w = << >> (unweighted)
\* or a sequence of integer weights of the same length
PsiT(t, bonds, w, l) ==
  IF w = << >>
  THEN Div(Add([k \in 1..Len(bonds) |-> PhaseT(t, bonds[k], l)]), I(Len(bonds)))
  ELSE Div(Add([k \in 1..Len(bonds) |-> Mul2(I(w[k]), PhaseT(t, bonds[k], l))]), I(B2SumAbs(w)))

\* exact psi = (X + Y tau) / D
PsiExactOK(t, bonds, l) == \A k \in 1..Len(bonds) : HasExactPhase(t, bonds[k], l)
PsiExact(t, bonds, w, l) ==
  LET n  == Len(bonds)
      ww == IF w = << >> THEN [k \in 1..n |-> 1] ELSE w
      ph == [k \in 1..n |-> ExactPhase(t, bonds[k], l)]
      D  == ProdSeq([k \in 1..n |-> ph[k][3]])
  IN  << SumSeq([k \in 1..n |-> ww[k] * ph[k][1] * (D \div ph[k][3])]),
         SumSeq([k \in 1..n |-> ww[k] * ph[k][2] * (D \div ph[k][3])]),
         B2SumAbs(ww) * D >>
\* bits needed so that all intermediate products stay below 2^31
B2Bits(n) == CHOOSE k \in 0..31 : B2Pow(2, k) >= n /\ (k = 0 \/ B2Pow(2, k - 1) < n)
NormBits(t, z, l) == ((l + 1) \div 2) * B2Bits(LNorm(t, z))
PsiExactSmall(t, bonds, w, l) ==
  (IF w = << >> THEN B2Bits(Len(bonds)) ELSE B2Bits(B2SumAbs(w)))
    + SumSeq([k \in 1..Len(bonds) |-> NormBits(t, bonds[k], l)]) <= 14
Mod2LeqOne(t, e) == LNorm(t, <<e[1], e[2]>>) <= e[3] * e[3]
Mod2IsOne(t, e)  == LNorm(t, <<e[1], e[2]>>) = e[3] * e[3]
ExactEq(e, f)    == e[1] * f[3] = f[1] * e[3] /\ e[2] * f[3] = f[2] * e[3]

\* ---- configurations ---------------------------------------------------------
\* cf = [t, H, ppp, pos, nb, wt, nmax]: H integer 2x2 (rows = cell vectors in
\* lattice coordinates), pos[i] lattice coordinates, nb[i] listed ids (1-based),
\* wt[i] integer weights (same shape as nb) or wt = << >>, nmax the Nmax argument
B2Listed(row, nmax) == SubSeq(row, 1, Min2(Len(row), nmax))

B2Images(H, v, ppp) ==       \* Cell!MinImage as an explicit product of Cell!CoefSets
  LET cs == CoefSets(H, v, ppp) IN {VSub(v, VecMat(<<a, b>>, H)) : a \in cs[1], b \in cs[2]}

\* per listed neighbour: the set of admissible minimum-image bonds (one element off ties)
BondSets(cf, i) ==
  LET ids == B2Listed(cf.nb[i], cf.nmax) IN
  [k \in 1..Len(ids) |-> B2Images(cf.H, VSub(cf.pos[ids[k]], cf.pos[i]), cf.ppp)]
WeightsOf(cf, i) == IF cf.wt = << >> THEN << >> ELSE B2Listed(cf.wt[i], cf.nmax)
HasBondTie(cf, i) == \E k \in DOMAIN BondSets(cf, i) : Cardinality(BondSets(cf, i)[k]) > 1
\* all ways of picking one admissible image per bond
BondChoices(cf, i) ==
  LET bs == BondSets(cf, i)
      n  == Len(bs)
      U  == UNION {bs[k] : k \in 1..n}
  IN  {s \in [1..n -> U] : \A k \in 1..n : s[k] \in bs[k]}
Bonds1(cf, i) == LET bs == BondSets(cf, i) IN [k \in 1..Len(bs) |-> CHOOSE b \in bs[k] : TRUE]

\* admissible values of psi_l(i): one term per choice (a single term off ties)
PsiAlts(cf, i, l) ==
  LET ch == BondChoices(cf, i) IN
  IF Cardinality(ch) = 1 THEN <<PsiT(cf.t, Bonds1(cf, i), WeightsOf(cf, i), l)>>
  ELSE LET S == {PsiT(cf.t, c, WeightsOf(cf, i), l) : c \in ch}
           RECURSIVE AsSeq(_)
           AsSeq(X) == IF X = {} THEN << >> ELSE LET x == CHOOSE y \in X : TRUE IN <<x>> \o AsSeq(X \ {x})
       IN  AsSeq(S)

\* well-formed input of the scope: non-empty lists, distinct points, no zero weight sums
Defined(cf, i) ==
  /\ Len(B2Listed(cf.nb[i], cf.nmax)) > 0
  /\ \A k \in DOMAIN BondSets(cf, i) : <<0, 0>> \notin BondSets(cf, i)[k]      \* no bond of length zero
  /\ cf.wt # << >> => (Len(cf.wt[i]) = Len(cf.nb[i]) /\ B2SumAbs(WeightsOf(cf, i)) > 0)

\* ---- rotation by the rational angle of rho = <<c, s>> (Cartesian basis only):
\* z |-> rho z, i.e. rotation by arg(rho) and dilation by |rho|
RotCfg(rho, cf) ==
  [cf EXCEPT !.pos = [i \in 1..Len(cf.pos) |-> LMul(0, rho, cf.pos[i])],
             !.H   = [r \in 1..2 |-> LMul(0, rho, cf.H[r])]]
RhoPowT(rho, l) == PowI(Div(Cplx(I(rho[1]), I(rho[2])), Sqrt(I(LNorm(0, rho)))), l)

\* ---- perfect lattices, fully occupied periodic cells --------------------------
Site(x, y, Lx) == 1 + x + Lx * y
SiteXY(s, Lx) == <<(s - 1) % Lx, (s - 1) \div Lx>>
LatticeCfg(t, Lx, Ly, offs, keep) ==
  \* sites (x, y) with keep[x, y]; neighbours = the listed offsets that lead to kept sites
  LET all   == [s \in 1..(Lx * Ly) |-> SiteXY(s, Lx)]
      kept  == SortedSeq({s \in 1..(Lx * Ly) : keep[all[s]]})
      idOf  == [s \in 1..(Lx * Ly) |-> CHOOSE k \in 0..Len(kept) : (k = 0 /\ ~keep[all[s]]) \/ (k > 0 /\ kept[k] = s)]
      wrap(p) == <<p[1] % Lx, p[2] % Ly>>
      nbOf(s) == LET cand == [k \in 1..Len(offs) |-> Site(wrap(VAdd(all[s], offs[k]))[1], wrap(VAdd(all[s], offs[k]))[2], Lx)]
                     sel  == {k \in 1..Len(offs) : idOf[cand[k]] > 0}
                     ks   == SortedSeq(sel)
                 IN  [m \in 1..Len(ks) |-> idOf[cand[ks[m]]]]
  IN  [t |-> t, H |-> << <<Lx, 0>>, <<0, Ly>> >>, ppp |-> <<1, 1>>,
       pos |-> [k \in 1..Len(kept) |-> all[kept[k]]],
       nb  |-> [k \in 1..Len(kept) |-> nbOf(kept[k])],
       wt  |-> << >>, nmax |-> 10]
SquareOffs == << <<1, 0>>, <<0, 1>>, <<0 - 1, 0>>, <<0, 0 - 1>> >>
TriOffs    == << <<1, 0>>, <<0, 1>>, <<0 - 1, 1>>, <<0 - 1, 0>>, <<0, 0 - 1>>, <<1, 0 - 1>> >>
SquareCfg(Lx, Ly) == LatticeCfg(0, Lx, Ly, SquareOffs, [p \in (0..(Lx - 1)) \X (0..(Ly - 1)) |-> TRUE])
TriCfg(Lx, Ly)    == LatticeCfg(1, Lx, Ly, TriOffs, [p \in (0..(Lx - 1)) \X (0..(Ly - 1)) |-> TRUE])
\* honeycomb = triangular lattice without the sites with (x - y) = 0 mod 3 (Lx, Ly multiples of 3)
HoneyCfg(Lx, Ly)  == LatticeCfg(1, Lx, Ly, TriOffs, [p \in (0..(Lx - 1)) \X (0..(Ly - 1)) |-> (p[1] - p[2]) % 3 # 0])

(***************************************************************************)
(* compositions (boo_2d.time_average / spatial_corr / time_corr) as terms  *)
(* over the code's own psi: Var(<<"phi", f, i>>) is psi of frame f (from   *)
(* 0) and particle i (from 1) as computed by the code, Var(<<"cgr", f>>)   *)
(* the table returned by the public conditional_gr for frame f with        *)
(* condition psi[f], Var(<<"tc">>) the table returned by the public        *)
(* time_correlation with condition psi.  The window rule is C16's.         *)
(***************************************************************************)
B2Arg(a) == <<"arg", a>>       \* phase angle (numpy.angle) of a complex term
B2Interval(dts, dt)       == RNorm(dts * dt[1], dt[2])
B2WindowLen(dts, dt, per) == LET q == RDiv(per, B2Interval(dts, dt)) IN FloorDiv(q[1], q[2])
B2CentreSet(n, w) == IF w % 2 = 1 THEN {n + (w - 1) \div 2} ELSE {n + w \div 2 - 1, n + w \div 2}
B2RowsSet(T, w)   == {T - w, T - w + 1}
Phi(f, i) == Var(<<"phi", f, i>>)
AvgComplexT(n, w, i) == Div(Add([g \in 1..w |-> Phi(n + g - 1, i)]), I(w))
AvgModPhaseT(n, w, i) ==
  Mul2(Div(Add([g \in 1..w |-> AbsT(Phi(n + g - 1, i))]), I(w)),
       Exp(Cplx(I(0), Div(Add([g \in 1..w |-> B2Arg(Phi(n + g - 1, i))]), I(w)))))
SpatialCorrT(F) == Div(Add([f \in 1..F |-> Var(<<"cgr", f - 1>>)]), I(F))
TimeCorrT == Var(<<"tc">>)
=============================================================================
