----------------------------- MODULE TraceCell -----------------------------
(***************************************************************************)
(* Trace validation for C02: every record is one call of remove_pbc        *)
(* recorded from the real code,                                            *)
(*   [H |-> cell (scaled ints), ppp |-> mask, r |-> displacement,          *)
(*    n |-> lattice coefficients the code subtracted (r - w) H^-1,         *)
(*    lat |-> 1 iff r - w was a lattice vector to 1e-9 (harness check)]    *)
(* A record is consumed iff the observed coefficients are admissible under *)
(* Cell!MinImage; otherwise `bad` names the failing clause.                *)
(***************************************************************************)
EXTENDS Cell, TLC, Json, IOUtils

Tr == ndJsonDeserialize(IOEnv.TRACE_FILE)

VARIABLES l, bad
vars == <<l, bad>>

Why(rec) ==
  LET d  == Len(rec.r)
      cs == CoefSets(rec.H, rec.r, rec.ppp)
  IN  IF rec.lat # 1 THEN "OnlyLatticeTranslations"
      ELSE IF \E k \in 1..d : rec.ppp[k] = 0 /\ rec.n[k] # 0 THEN "NonPeriodicUntouched"
      ELSE IF \E k \in 1..d : rec.n[k] \notin cs[k] THEN "HalfCell"
      ELSE ""

Init == l = 1 /\ bad = ""
Step == /\ l <= Len(Tr) /\ bad = ""
        /\ LET w == Why(Tr[l]) IN
           IF w = "" THEN l' = l + 1 /\ bad' = "" ELSE l' = l /\ bad' = w
Spec == Init /\ [][Step]_vars
Accepted == bad = ""
=============================================================================
