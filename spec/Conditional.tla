---------------------------- MODULE Conditional ----------------------------
(***************************************************************************)
(* Conditional (weighted) pair correlation and structure factor of ONE     *)
(* configuration  (property C13; static/gr.py: conditional_gr,             *)
(* static/sq.py: conditional_sq).                                          *)
(*                                                                         *)
(* The pair geometry (minimum image, bin of a pair, tie sets, shell and    *)
(* volume terms) is the one of PairHist.tla, the phase classes, wave       *)
(* vectors and groups of equal |q| are the ones of DensityModes.tla; this  *)
(* module adds the per-particle quantity A and the weights.                *)
(*                                                                         *)
(* Values.  Every leaf of A is a Gaussian integer <<re, im>> in units of   *)
(* 1/AS (AS = value scale).  kind / shape of c.A[i]:                       *)
(*   "bool"     leaf <<1,0>> (selected) or <<0,0>>                         *)
(*   "float"    leaf with im = 0                                           *)
(*   "complex"  leaf                                                       *)
(*   "vector"   sequence of leaves (real or complex components)            *)
(*   "tensor"   sequence of rows of leaves (square)                        *)
(*                                                                         *)
(* Definition (docs/gr.md, property C13).  With the pair weight            *)
(*   w_ij = Re(A_i conj A_j)                 (scalars)                     *)
(*        = Re sum_k A_i[k] conj A_j[k]      (vectors: dot product)        *)
(*        = Re tr(A_i conj A_j)              (tensors: trace of the product*)
(*                                             sum_ab A_i[a][b] A_j[b][a]) *)
(*   g_A(r_k) = V / Nn^2 * sum_{i # j, bin(ij) = k} w_ij / shell_k         *)
(* where Nn is the number of selected particles for a boolean A and the    *)
(* particle number otherwise; the reference g(r) of the same call is the   *)
(* unweighted total.  For a real scalar the normalised variant is          *)
(*   (g_A - <A>^2) / (<A^2> - <A>^2).                                      *)
(* Definition (docs/sq.md).  rho_A(q) = sum_i A_i exp(-i q.r_i),           *)
(*   FFT = rho_A / sqrt(Nn),  S_A(q) = |rho_A|^2 / Nn  (vector A: summed   *)
(* over the components), then averaged over the vectors of equal |q|.      *)
(***************************************************************************)
EXTENDS Cell, Real, TLC

PH == INSTANCE PairHist
DM == INSTANCE DensityModes

(***************************************************************************)
(* Gaussian-integer leaves.                                                *)
(***************************************************************************)
GZero         == <<0, 0>>
GRe(a, b)     == a[1] * b[1] + a[2] * b[2]      \* Re(a conj b)
GIm(a, b)     == a[2] * b[1] - a[1] * b[2]      \* Im(a conj b)
GNoConj(a, b) == a[1] * b[1] - a[2] * b[2]      \* Re(a b): what a dropped conjugate would give
GAdd(a, b)    == <<a[1] + b[1], a[2] + b[2]>>

NPart(c)    == Len(c.types)
Rank(c)     == IF c.kind = "vector" THEN 1 ELSE IF c.kind = "tensor" THEN 2 ELSE 0
Selected(c) == {i \in 1..NPart(c) : c.A[i] # GZero}              \* meaningful for kind "bool"
NNorm(c)    == IF c.kind = "bool" THEN Cardinality(Selected(c)) ELSE NPart(c)

\* index pairs of a square matrix of order n, as a sequence
Cells2Of(n) == [m \in 1..(n * n) |-> <<((m - 1) \div n) + 1, ((m - 1) % n) + 1>>]

\* the pair weight w_ij, in units of 1/AS^2
Wt(rank, A, i, j) ==
  IF rank = 0 THEN GRe(A[i], A[j])
  ELSE IF rank = 1 THEN SumSeq([k \in 1..Len(A[i]) |-> GRe(A[i][k], A[j][k])])
  ELSE LET ix == Cells2Of(Len(A[i])) IN
       SumSeq([m \in 1..Len(ix) |-> GRe(A[i][ix[m][1]][ix[m][2]], A[j][ix[m][2]][ix[m][1]])])
\* the same with the conjugate dropped / with the tensor contraction transposed (Frobenius
\* product): used only to report in which cases these differences are observable
WtNoConj(rank, A, i, j) ==
  IF rank = 0 THEN GNoConj(A[i], A[j])
  ELSE IF rank = 1 THEN SumSeq([k \in 1..Len(A[i]) |-> GNoConj(A[i][k], A[j][k])])
  ELSE LET ix == Cells2Of(Len(A[i])) IN
       SumSeq([m \in 1..Len(ix) |-> GNoConj(A[i][ix[m][1]][ix[m][2]], A[j][ix[m][2]][ix[m][1]])])
WtFrob(rank, A, i, j) ==
  IF rank < 2 THEN Wt(rank, A, i, j)
  ELSE LET ix == Cells2Of(Len(A[i])) IN
       SumSeq([m \in 1..Len(ix) |-> GRe(A[i][ix[m][1]][ix[m][2]], A[j][ix[m][1]][ix[m][2]])])

\* a field as a sequence of scalar fields (its components; a scalar is its own component)
CompFields(c) ==
  IF c.kind = "vector" THEN [k \in 1..Len(c.A[1]) |-> [i \in 1..NPart(c) |-> c.A[i][k]]]
  ELSE IF c.kind = "tensor"
       THEN LET ix == Cells2Of(Len(c.A[1])) IN [m \in 1..Len(ix) |-> [i \in 1..NPart(c) |-> c.A[i][ix[m][1]][ix[m][2]]]]
       ELSE <<c.A>>

(***************************************************************************)
(* g(r): configuration record                                              *)
(*   H, ppp, S, types, pos (one frame), wn, sharp    as in PairHist        *)
(*   kind, AS, A                                      the quantity          *)
(***************************************************************************)
PHC(c) == [H |-> c.H, ppp |-> c.ppp, S |-> c.S, types |-> c.types, frames |-> <<c.pos>>,
           wn |-> c.wn, sharp |-> c.sharp]
GBins(c) == PH!NBins(PHC(c))

\* every unordered pair with its admissible bins (decided by PairHist), evaluated once
PairTable(c) ==
  LET p  == PHC(c)
      ps == PH!PairSeq(p)
  IN  TLCEval([m \in 1..Len(ps) |-> [i |-> ps[m][2], j |-> ps[m][3], bins |-> PH!PairBins(p, 1, ps[m][2], ps[m][3])]])

\* w[k]   weighted sum over the unordered pairs certainly in bin k      (k 1-based)
\* cnt[k] number of those pairs;  tie[k] number of pairs that MAY be in bin k;  nt ambiguous pairs
\* cj / tr: number of sure in-range pairs whose weight changes when the conjugate is dropped /
\*          when the tensor contraction is transposed
RECURSIVE WAcc(_, _, _, _, _, _)
WAcc(pt, rank, A, m, stop, acc) ==
  IF m > stop \/ acc.nt < 0 THEN acc      \* (reading acc.nt forces the lazily passed accumulator)
  ELSE
    LET e    == pt[m]
        inb  == e.bins \ {0 - 1}
        sure == Cardinality(e.bins) = 1
        w    == Wt(rank, A, e.i, e.j)
    IN  WAcc(pt, rank, A, m + 1, stop,
             IF sure
             THEN (IF inb = {} THEN acc
                   ELSE LET k == (CHOOSE x \in inb : TRUE) + 1 IN
                        [acc EXCEPT !.w[k] = @ + w, !.cnt[k] = @ + 1,
                                    !.cj = @ + (IF WtNoConj(rank, A, e.i, e.j) # w THEN 1 ELSE 0),
                                    !.tr = @ + (IF WtFrob(rank, A, e.i, e.j) # w THEN 1 ELSE 0)])
             ELSE [acc EXCEPT !.tie = [k \in 1..Len(acc.tie) |-> IF (k - 1) \in inb THEN acc.tie[k] + 1 ELSE acc.tie[k]],
                              !.nt = @ + 1])

WHistOf(pt, nb, rank, A) ==
  LET z == [k \in 1..nb |-> 0]
      RECURSIVE Chunks(_, _)
      Chunks(start, acc) == IF start > Len(pt) \/ acc.nt < 0 THEN acc
                            ELSE Chunks(start + 40, WAcc(pt, rank, A, start, Min2(start + 39, Len(pt)), acc))
  IN  Chunks(1, [w |-> z, cnt |-> z, tie |-> z, nt |-> 0, cj |-> 0, tr |-> 0])

WHist(c) == WHistOf(PairTable(c), GBins(c), Rank(c), c.A)

(***************************************************************************)
(* Scale: a translation-invariant configuration.  When the particles fill  *)
(* a full Bravais lattice n_1 x .. x n_d (spacing a) of an orthogonal,     *)
(* fully periodic cell and all are selected (kind "bool", all True), every *)
(* particle sees the same environment, so the ordered-pair count of a bin  *)
(* is N times the count seen from ONE particle: linear instead of          *)
(* quadratic in N.  LatticeLemma (MC_Conditional, checked by TLC on small  *)
(* lattices) states that this shortcut equals the pair loop; the trace     *)
(* specification uses it for lattices of a thousand particles and more,    *)
(* where one particle has hundreds of neighbours in one coarse bin.        *)
(***************************************************************************)
LatSites(n, a) ==
  IF Len(n) = 2 THEN {<<a * i, a * j>> : i \in 0..(n[1] - 1), j \in 0..(n[2] - 1)}
  ELSE {<<a * i, a * j, a * k>> : i \in 0..(n[1] - 1), j \in 0..(n[2] - 1), k \in 0..(n[3] - 1)}
IsFullLattice(c) ==
  /\ "lat" \in DOMAIN c
  /\ LET d == Len(c.H) IN
     /\ Len(c.lat.n) = d
     /\ \A k \in 1..d : c.ppp[k] = 1 /\ c.lat.n[k] % 2 = 1 /\
                          \A j \in 1..d : c.H[k][j] = (IF j = k THEN c.lat.n[k] * c.lat.a ELSE 0)
     /\ NPart(c) = ProdSeq(c.lat.n)
     /\ {c.pos[i] : i \in 1..NPart(c)} = LatSites(c.lat.n, c.lat.a)
     /\ c.kind = "bool" /\ \A i \in 1..NPart(c) : c.A[i] = <<1, 0>>
WHistLat(c) ==
  LET p   == PHC(c)
      N   == NPart(c)
      pt1 == TLCEval([m \in 1..(N - 1) |-> [i |-> 1, j |-> m + 1, bins |-> PH!PairBins(p, 1, 1, m + 1)]])
      h1  == WHistOf(pt1, GBins(c), 0, c.A)
  IN  [ w   |-> [k \in 1..GBins(c) |-> (N * h1.w[k]) \div 2],
        cnt |-> [k \in 1..GBins(c) |-> (N * h1.cnt[k]) \div 2],
        tie |-> [k \in 1..GBins(c) |-> (N * h1.tie[k]) \div 2],
        nt  |-> (N * h1.nt) \div 2, cj |-> 0, tr |-> 0 ]
WHistAuto(c) == IF IsFullLattice(c) THEN WHistLat(c) ELSE WHist(c)

\* the definition sums over ORDERED pairs i # j: twice the unordered sum iff the weight is symmetric
OrderedW(h, k) == 2 * h.w[k]
OrderedN(h, k) == 2 * h.cnt[k]

\* ---- terms
\* V / (Nn Nn F) with F = 1 frame: the same shape as PairHist!NormTerm
NormA(c)  == Div(PH!VolumeTerm(PHC(c)), I(NNorm(c) * NNorm(c) * 1))
NormG(c)  == PH!NormTerm(PHC(c), PH!Total)
WQ(c, n)  == Q(n, c.AS * c.AS)
\* g = norm * n / shell, stated once with free variables; the data are emitted per bin
GFormula  == Div(Mul2(Var("norm"), Var("n")), Var("shell"))
GATerm(c, h, k) == Div(Mul2(NormA(c), WQ(c, OrderedW(h, k))), PH!ShellTerm(PHC(c), k - 1))     \* k 1-based

\* moments of a real scalar field
SumA(c)   == SumSeq([i \in 1..NPart(c) |-> c.A[i][1]])
SumA2(c)  == SumSeq([i \in 1..NPart(c) |-> c.A[i][1] * c.A[i][1]])
MeanSq(c) == Q(SumA(c) * SumA(c), NPart(c) * NPart(c) * c.AS * c.AS)      \* <A>^2
SqMean(c) == Q(SumA2(c), NPart(c) * c.AS * c.AS)                          \* <A^2>
VarNum(c) == NPart(c) * SumA2(c) - SumA(c) * SumA(c)                      \* N^2 AS^2 (<A^2> - <A>^2)
HasNorm(c)     == c.kind = "float"
NormDefined(c) == HasNorm(c) /\ VarNum(c) # 0
\* the documented normalised variant as a function of g_A
GNormFormula(c) == Div(Sub(Var("gA"), MeanSq(c)), Sub(SqMean(c), MeanSq(c)))

GCols(c) == IF HasNorm(c) THEN <<"r", "gr", "gA", "gA_norm">> ELSE <<"r", "gr", "gA">>

(***************************************************************************)
(* Reductions (clauses of C13) on the g(r) model.                          *)
(***************************************************************************)
IsIndicatorOf(c, a) == c.kind = "bool" /\ \A i \in 1..NPart(c) : (c.A[i] # GZero) <=> (c.types[i] = a)
IndicatedSpecies(c) == {a \in PH!Species(PHC(c)) : IsIndicatorOf(c, a)}
IsOnes(c) == /\ c.kind \in {"bool", "float", "complex"}
             /\ \A i \in 1..NPart(c) : c.A[i] = <<(IF c.kind = "bool" THEN 1 ELSE c.AS), 0>>

ColIndex(cols, col) == CHOOSE q \in 1..Len(cols) : cols[q] = col

\* a boolean selection of species a: the weighted ordered counts are PairHist's counts of column
\* (a,a), the ambiguous pairs are the same, and the normalisation is PairHist's V/(N_a N_a F)
BoolOfSpeciesIsPartialG(c, h) ==
  \A a \in IndicatedSpecies(c) :
    LET p    == PHC(c)
        K    == PH!NSpecies(p)
        cols == PH!ColSeq(K)
        col  == IF K = 1 THEN PH!Total ELSE <<a, a>>
        ph   == PH!Hist(p)
    IN  (K <= 5) =>
          LET q == ColIndex(cols, col) IN
          /\ \A k \in 1..GBins(c) : OrderedW(h, k) = ph.base[q][k]
          /\ NormA(c) = PH!NormTerm(p, col)
          /\ \A k \in 1..GBins(c) : (h.nt = 0 /\ c.AS = 1) => GATerm(c, h, k) = PH!GTerm(p, col, k - 1, ph.base[q][k])

\* the reference column, and A = 1: PairHist's total
CountIsPairHistTotal(c, h) ==
  LET p  == [PHC(c) EXCEPT !.types = [i \in 1..NPart(c) |-> 1]]
      ph == PH!Hist(p)
  IN  /\ \A k \in 1..GBins(c) : OrderedN(h, k) = ph.base[1][k] /\ 2 * h.tie[k] = ph.tie[1][k]
      /\ h.nt = ph.nt
OnesIsTotalG(c, h) ==
  IsOnes(c) => /\ \A k \in 1..GBins(c) : OrderedW(h, k) = c.AS * c.AS * OrderedN(h, k)
               /\ NNorm(c) = NPart(c)
               /\ NormA(c) = NormG(c)

\* a boolean selection only sees the selected particles: total g(r) of the sub-configuration
SubConfig(c) ==
  LET sel == SortedSeq(Selected(c)) IN
  [PHC(c) EXCEPT !.types = [i \in 1..Len(sel) |-> 1], !.frames = << [i \in 1..Len(sel) |-> c.pos[sel[i]]] >>]
BoolIsSubsystemTotalG(c, h) ==
  (c.kind = "bool" /\ NNorm(c) >= 2) =>
     LET ph == PH!Hist(SubConfig(c)) IN
     /\ \A k \in 1..GBins(c) : OrderedW(h, k) = ph.base[1][k]
     /\ NormA(c) = PH!NormTerm(SubConfig(c), PH!Total)

\* vector / tensor / complex fields: the weighted histogram is the sum over the components
\* (for tensors: over the component pairs (a,b),(b,a), which the symmetric ones reduce to components)
VectorIsSumOfComponentsG(c, h, pt) ==
  c.kind = "vector" =>
    LET fs == CompFields(c)
        hs == TLCEval([k \in 1..Len(fs) |-> WHistOf(pt, GBins(c), 0, fs[k])])
    IN  \A b \in 1..GBins(c) : h.w[b] = SumSeq([k \in 1..Len(fs) |-> hs[k].w[b]])
IsSymmetricTensor(c) ==
  c.kind = "tensor" /\ \A i \in 1..NPart(c) : \A a, b \in 1..Len(c.A[i]) : c.A[i][a][b] = c.A[i][b][a]
SymmetricTensorIsSumOfComponentsG(c, h, pt) ==
  IsSymmetricTensor(c) =>
    LET fs == CompFields(c)
        hs == TLCEval([k \in 1..Len(fs) |-> WHistOf(pt, GBins(c), 0, fs[k])])
    IN  \A b \in 1..GBins(c) : h.w[b] = SumSeq([k \in 1..Len(fs) |-> hs[k].w[b]])
\* a complex scalar x + iy weighs like the real 2-vector (x, y)
ComplexIsVectorOfPartsG(c, h, pt) ==
  c.kind = "complex" =>
    LET v == [i \in 1..NPart(c) |-> << <<c.A[i][1], 0>>, <<c.A[i][2], 0>> >>]
        hv == TLCEval(WHistOf(pt, GBins(c), 1, v))
    IN  \A b \in 1..GBins(c) : h.w[b] = hv.w[b]

\* w_ij = w_ji for every kind: the ordered sum of the definition is twice the unordered one
WeightSymmetric(c) ==
  \A i, j \in 1..NPart(c) : Wt(Rank(c), c.A, i, j) = Wt(Rank(c), c.A, j, i)
\* Re(a conj b) = Re(conj a b): which factor carries the conjugate is not observable
ConjugateSideUnobservable(c) ==
  LET conjA == TLCEval([i \in 1..NPart(c) |->
                  IF Rank(c) = 0 THEN <<c.A[i][1], 0 - c.A[i][2]>>
                  ELSE IF Rank(c) = 1 THEN [k \in 1..Len(c.A[i]) |-> <<c.A[i][k][1], 0 - c.A[i][k][2]>>]
                  ELSE [a \in 1..Len(c.A[i]) |-> [b \in 1..Len(c.A[i]) |-> <<c.A[i][a][b][1], 0 - c.A[i][a][b][2]>>]]])
  IN  \A i, j \in 1..NPart(c) : Wt(Rank(c), c.A, i, j) = Wt(Rank(c), conjA, i, j)

\* the normalised variant: defined iff the field is not constant; the variance is non-negative;
\* scaling A by s scales g_A, <A>^2 and <A^2> by s^2, so the variant is scale invariant
ScaledBy(c, s) == [c EXCEPT !.A = [i \in 1..NPart(c) |-> <<s * c.A[i][1], s * c.A[i][2]>>]]
NormalisedVariantG(c, h, pt) ==
  HasNorm(c) =>
    /\ VarNum(c) >= 0
    /\ (VarNum(c) = 0) <=> (\A i \in 1..NPart(c) : c.A[i] = c.A[1])
    /\ \A s \in {0 - 1, 2, 3} :
         LET c2 == ScaledBy(c, s)
             h2 == TLCEval(WHistOf(pt, GBins(c), 0, c2.A))
         IN  /\ \A b \in 1..GBins(c) : h2.w[b] = s * s * h.w[b]
             /\ SumA(c2) * SumA(c2) = s * s * SumA(c) * SumA(c)
             /\ SumA2(c2) = s * s * SumA2(c)
             /\ VarNum(c2) = s * s * VarNum(c)
    \* a 0/1-valued real field is the indicator: same weighted counts as the boolean selection
    /\ (c.AS = 1 /\ \A i \in 1..NPart(c) : c.A[i][1] \in {0, 1}) =>
         LET cb == [c EXCEPT !.kind = "bool"] IN
         /\ SumA(c) = NNorm(cb) /\ SumA2(c) = NNorm(cb)

(***************************************************************************)
(* The case handed to the conformance driver (g(r)).                       *)
(***************************************************************************)
GRelations(c, h) ==
  LET K == PH!NSpecies(PHC(c))
      sp == IndicatedSpecies(c)
  IN  (IF sp # {} /\ K <= 5
       THEN LET a == CHOOSE x \in sp : TRUE IN
            << [name |-> "BoolOfSpeciesIsPartial", col |-> PH!ColName(IF K = 1 THEN PH!Total ELSE <<a, a>>), a |-> a] >>
       ELSE << >>)
      \o (IF IsOnes(c) THEN << [name |-> "OnesIsTotal", col |-> "gr"] >> ELSE << >>)
      \o (IF c.kind = "vector" \/ IsSymmetricTensor(c)
          THEN << [name |-> "VectorIsSumOfComponents", ncomp |-> Len(CompFields(c))] >> ELSE << >>)
      \o (IF c.kind = "complex" THEN << [name |-> "ComplexIsVectorOfParts"] >> ELSE << >>)
      \o (IF NormDefined(c) THEN << [name |-> "NormalisedVariant", formula |-> GNormFormula(c)] >> ELSE << >>)
      \o (IF c.kind = "bool" THEN << [name |-> "BoolIsScaledIndicator",
                                       ratio |-> Q(NPart(c) * NPart(c), NNorm(c) * NNorm(c))] >> ELSE << >>)

GCase(c, h) ==
  LET p  == PHC(c)
      nb == GBins(c)
  IN  [ m |-> "CondGr",
        H |-> c.H, ppp |-> c.ppp, S |-> c.S, types |-> c.types, pos |-> c.pos, wn |-> c.wn, sharp |-> c.sharp,
        kind |-> c.kind, AS |-> c.AS, A |-> c.A,
        nbins |-> nb,
        nbins_on_integer |-> PH!NBinsOnInteger(p),
        dyadic_scale |-> PH!IsPow2(c.S),
        cols  |-> GCols(c),
        nnorm |-> NNorm(c),
        r     |-> [k \in 1..nb |-> PH!RCentre(p, k - 1)],
        shell |-> [k \in 1..nb |-> PH!ShellTerm(p, k - 1)],
        formula |-> GFormula,
        normG |-> NormG(c),
        normA |-> NormA(c),
        nG    |-> [k \in 1..nb |-> I(OrderedN(h, k))],
        nA    |-> [k \in 1..nb |-> WQ(c, OrderedW(h, k))],
        tie   |-> h.tie,
        ntie  |-> h.nt,
        norm_defined |-> NormDefined(c),
        norm_formula |-> IF HasNorm(c) THEN GNormFormula(c) ELSE I(0),
        conj_observable  |-> h.cj,
        trans_observable |-> h.tr,
        rel   |-> GRelations(c, h) ]

(***************************************************************************)
(* S(q): configuration record                                              *)
(*   L, S, M, types, pos (grid coordinates m_i), sel   as in DensityModes  *)
(*   kind ("bool" | "float" | "complex" | "vector"), AS, A                 *)
(***************************************************************************)
DMC(c) == [L |-> c.L, S |-> c.S, M |-> c.M, types |-> c.types, frames |-> <<c.pos>>, sel |-> c.sel]
QVecs(c) == DM!Vectors(DMC(c))
ClassesOf(c, v) == [i \in 1..NPart(c) |-> DM!PhaseClass(DMC(c), v, c.pos[i])]

RECURSIVE GSumOver(_, _)
GSumOver(F, Sx) == IF Sx = {} THEN GZero
                   ELSE LET i == CHOOSE x \in Sx : TRUE IN GAdd(F[i], GSumOver(F, Sx \ {i}))
\* class sums of the scalar field F: sparse list of <<class, <<re, im>>>> with non-zero sum, by class
ClassSums(c, cls, F) ==
  LET ks == SortedSeq({cls[i] : i \in 1..NPart(c)})
      all == [n \in 1..Len(ks) |-> <<ks[n], GSumOver(F, {i \in 1..NPart(c) : cls[i] = ks[n]})>>]
  IN  TLCEval(SelectSeq(all, LAMBDA e : e[2] # GZero))
\* dense form: index k+1 holds the sum of class k
Dense(M, cs) == TLCEval([k \in 1..M |-> LET hit == {n \in 1..Len(cs) : cs[n][1] = k - 1} IN
                                        IF hit = {} THEN GZero ELSE cs[CHOOSE n \in hit : TRUE][2]])

\* rho_F(q) = sum_k C[k] zeta^k  as a term
RhoTerm(c, cs) == Add([n \in 1..Len(cs) |-> Mul2(Cplx(Q(cs[n][2][1], c.AS), Q(cs[n][2][2], c.AS)), Zeta(cs[n][1], c.M))])
SFields(c) == IF c.kind = "vector" THEN CompFields(c) ELSE <<c.A>>
\* FFT = rho / sqrt(Nn) (per component), S = sum over the components of |rho|^2 / Nn
FFTFormula(c) == Div(Var("rho"), Sqrt(I(NNorm(c))))
SqFormula(c)  == Div(Add([k \in 1..Len(SFields(c)) |-> Abs2(Var("rho" \o ToString(k)))]), I(NNorm(c)))
SCols(c) ==
  LET d == Len(c.L) IN
  [k \in 1..d |-> "q" \o ToString(k - 1)] \o <<"q", "Sq">> \o
  (IF c.kind = "vector" THEN [k \in 1..d |-> "FFT" \o ToString(k - 1)] ELSE <<"FFT">>)
\* q_k = 2 pi n_k S / L_k
QCompTerm(c, v, k) == Div(Mul(<<I(2), Pi, I(v[k] * c.S)>>), I(c.L[k]))

\* integer circular correlation of (vector-valued) class sums: |rho|^2 AS^2 = sum_dl W[dl] zeta^dl
WCorr(M, dense0) ==    \* dense0: sequence (components) of dense class-sum vectors
  LET dense == TLCEval(dense0) IN
  TLCEval([dl \in 1..M |->
     << SumSeq([n \in 1..(M * Len(dense)) |-> LET k == ((n - 1) % M) + 1  f == ((n - 1) \div M) + 1 IN
                 GRe(dense[f][k], dense[f][((k - 1 - (dl - 1)) % M) + 1])]),
        SumSeq([n \in 1..(M * Len(dense)) |-> LET k == ((n - 1) % M) + 1  f == ((n - 1) \div M) + 1 IN
                 GIm(dense[f][k], dense[f][((k - 1 - (dl - 1)) % M) + 1])]) >>])
DenseFields(c, v) == LET cls == TLCEval(ClassesOf(c, v))  fs == SFields(c) IN
                     TLCEval([f \in 1..Len(fs) |-> Dense(c.M, ClassSums(c, cls, fs[f]))])

BoolOfSpeciesIsPartialS(c, v) ==
  \A a \in {x \in DM!Species(DMC(c)) : IsIndicatorOf(c, x)} :
    LET w  == WCorr(c.M, DenseFields(c, v))
        wd == TLCEval(DM!W(DMC(c), v, a, a))
    IN  /\ \A dl \in 1..c.M : w[dl] = <<wd[dl], 0>>
        /\ NNorm(c) * NNorm(c) = DM!CountOf(DMC(c), a) * DM!CountOf(DMC(c), a)
OnesIsTotalS(c, v) ==
  IsOnes(c) =>
    LET w  == WCorr(c.M, DenseFields(c, v))
        wd == TLCEval(DM!W(DMC(c), v, 0, 0))
        s  == IF c.kind = "bool" THEN 1 ELSE c.AS * c.AS
    IN  /\ \A dl \in 1..c.M : w[dl] = <<s * wd[dl], 0>>
        /\ NNorm(c) = NPart(c)
VectorIsSumOfComponentsS(c, v) ==
  c.kind = "vector" =>
    LET dn == DenseFields(c, v)
        w  == WCorr(c.M, dn)
        ws == TLCEval([f \in 1..Len(dn) |-> WCorr(c.M, <<dn[f]>>)])
    IN  \A dl \in 1..c.M : /\ w[dl][1] = SumSeq([f \in 1..Len(dn) |-> ws[f][dl][1]])
                           /\ w[dl][2] = SumSeq([f \in 1..Len(dn) |-> ws[f][dl][2]])
\* |rho|^2 is real and non-negative: W[-dl] = conj W[dl]; for M = 4 (zeta = i) it is an integer
SqRealNonNegative(c, v) ==
  LET w == WCorr(c.M, DenseFields(c, v)) IN
  /\ \A dl \in 1..c.M : LET md == ((c.M - (dl - 1)) % c.M) + 1 IN w[md] = <<w[dl][1], 0 - w[dl][2]>>
  /\ c.M = 4 => w[1][1] - w[2][2] - w[3][1] + w[4][2] >= 0
\* the zero mode of the class sums: rho at "no phase" is the plain sum of A (mass of the class sums)
ClassSumsPartition(c, v) ==
  LET cls == ClassesOf(c, v)  fs == SFields(c) IN
  \A f \in 1..Len(fs) :
    LET cs == ClassSums(c, cls, fs[f]) IN
    GSumOver([n \in 1..Len(cs) |-> cs[n][2]], 1..Len(cs)) = GSumOver(fs[f], 1..NPart(c))

SRelations(c) ==
  LET K  == DM!NSpecies(DMC(c))
      sp == {x \in DM!Species(DMC(c)) : IsIndicatorOf(c, x)}
  IN  (IF sp # {} /\ K <= 5
       THEN LET a == CHOOSE x \in sp : TRUE IN
            << [name |-> "BoolOfSpeciesIsPartial", col |-> DM!ColName(IF K = 1 THEN DM!Total ELSE <<a, a>>), a |-> a] >>
       ELSE << >>)
      \o (IF IsOnes(c) THEN << [name |-> "OnesIsTotal", col |-> "Sq"] >> ELSE << >>)
      \o (IF c.kind = "vector" THEN << [name |-> "VectorIsSumOfComponents", ncomp |-> Len(SFields(c))] >> ELSE << >>)

SCase(c) ==
  LET vecs == QVecs(c)
      gs   == DM!Groups(DMC(c), vecs)
      fs   == SFields(c)
  IN  [ m |-> "CondSq",
        L |-> c.L, S |-> c.S, M |-> c.M, types |-> c.types, pos |-> c.pos, sel |-> c.sel,
        kind |-> c.kind, AS |-> c.AS, A |-> c.A,
        decided |-> (c.sel.kind = "list" \/ DM!NumOfQDecided(DMC(c), c.sel.qn, c.sel.qd)),
        cols  |-> SCols(c),
        nnorm |-> NNorm(c),
        vecs  |-> vecs,
        qcomp |-> [i \in 1..Len(vecs) |-> [k \in 1..Len(c.L) |-> QCompTerm(c, vecs[i], k)]],
        q     |-> [i \in 1..Len(vecs) |-> DM!QTerm(DMC(c), vecs[i])],
        rho   |-> [i \in 1..Len(vecs) |-> LET cls == ClassesOf(c, vecs[i]) IN
                                          [f \in 1..Len(fs) |-> RhoTerm(c, ClassSums(c, cls, fs[f]))]],
        fft_formula |-> FFTFormula(c),
        sq_formula  |-> SqFormula(c),
        \* the |q|-average: mean of the per-vector values ("sq<i>" = value of vector i) over the group
        groups |-> [g \in 1..Len(gs) |->
                      LET ms == SortedSeq(gs[g].members) IN
                      [q |-> DM!QTerm(DMC(c), vecs[ms[1]]),
                       members |-> ms,
                       mean |-> Div(Add([n \in 1..Len(ms) |-> Var("sq" \o ToString(ms[n]))]), I(Len(ms)))]],
        rel   |-> SRelations(c) ]
=============================================================================
