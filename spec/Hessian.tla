------------------------------ MODULE Hessian ------------------------------
(***************************************************************************)
(* The mass-weighted Hessian of a pair energy (property C11).              *)
(*                                                                         *)
(*   U = sum_{i<j, d_ij <= rc(t_i,t_j)} phi_{t_i t_j}(|d_ij|),             *)
(*   d_ij = minimum image of R_i - R_j under the periodicity mask,         *)
(*   phi  = documented pair energy (module PairPot), force-shifted at the  *)
(*          cut-off when shifting is on:  phi' -> s' - s'(rc), phi'' = s'' *)
(*                                                                         *)
(*   pair block  K_ij = s'' dd^T/r^2 + (s' - s'_c)(I - dd^T/r^2)/r         *)
(*   d2U/dR_i dR_j = -K_ij (i # j),   d2U/dR_i dR_i = sum_j K_ij           *)
(*   Hessian = M^-1/2 (d2U) M^-1/2                                         *)
(*                                                                         *)
(* Everything discrete is exact: positions, cells and cut-offs are scaled  *)
(* integers / rationals, the interacting pair set is decided by exact      *)
(* comparison of squared lengths, masses are squares of rationals so that  *)
(* the weights 1/m_i and 1/sqrt(m_i m_j) are rationals.  The assembly is a *)
(* state machine (one AddPair action per interacting pair) over *formal*   *)
(* block symbols: acc[i][j][k] is the rational coefficient of the block of *)
(* pair k in block (i,j) of the matrix.  Real values appear only as terms. *)
(***************************************************************************)
EXTENDS PairPot, Cell

(***************************************************************************)
(* A configuration c is a record                                           *)
(*   dim, S (length unit 1/S), H (cell, rows = cell vectors), ppp (mask),  *)
(*   pos (sequence of integer vectors), typ (sequence of species 1..K),    *)
(*   mroot (per species: rational square root of the mass),                *)
(*   model, shift, eps, sigma, rc (K x K rationals, symmetric), n, A, alpha*)
(*                                                                         *)
(* The species table belongs to the MODEL: mroot and the parameter         *)
(* matrices have K = Len(c.mroot) entries / K x K entries, indexed by the  *)
(* species LABEL 1..K.  A configuration need not contain every species of  *)
(* the table (Present(c) is any non-empty subset of 1..K).  The mass map   *)
(* is a function species -> mass; an enumeration order of its domain (the  *)
(* insertion order of a Python dict) is part of a rendering, not of the    *)
(* map: every order denotes the same configuration.                        *)
(***************************************************************************)
NPart(c) == Len(c.pos)
NSpecies(c) == Len(c.mroot)
Present(c)  == {c.typ[i] : i \in 1..NPart(c)}
SpeciesOK(c) == Present(c) # {} /\ Present(c) \subseteq 1..NSpecies(c)
IsEnumeration(ord, K) == Len(ord) = K /\ {ord[k] : k \in 1..K} = 1..K
\* all unordered pairs i < j in lexicographic order
PairSeq(N) ==
  LET RECURSIVE From(_, _)
      From(i, j) == IF i >= N THEN << >>
                    ELSE IF j > N THEN From(i + 1, i + 2)
                    ELSE <<<<i, j>>>> \o From(i, j + 1)
  IN  From(1, 2)

RawDisp(c, i, j) == VSub(c.pos[i], c.pos[j])                       \* R_i - R_j
PairTie(c, i, j) == HasTie(c.H, RawDisp(c, i, j), c.ppp)
Disp(c, i, j)    == MinImage1(c.H, RawDisp(c, i, j), c.ppp)        \* unique off ties

\* n2 / S^2  ?  (p/q)^2   decided exactly: -1 below, 0 equal, 1 above the cut-off
CmpCut(n2, S, rc) ==
  LET g  == Gcd(rc[2], S)
      q  == rc[2] \div g
      s  == S \div g
      l  == n2 * q * q
      rr == rc[1] * rc[1] * s * s
  IN  IF l < rr THEN 0 - 1 ELSE IF l = rr THEN 0 ELSE 1

\* the geometry table of a configuration: one record per pair i < j
GeoOf(c) ==
  LET ps == PairSeq(NPart(c)) IN
  [k \in 1..Len(ps) |->
     LET i   == ps[k][1]
         j   == ps[k][2]
         tie == PairTie(c, i, j)
         d   == Disp(c, i, j)
         cmp == CmpCut(Norm2(d), c.S, c.rc[c.typ[i]][c.typ[j]])
     IN  [i |-> i, j |-> j, d |-> d, n2 |-> Norm2(d), tie |-> tie,
          inter |-> cmp <= 0,        \* "distance <= r_c": the cut-off is inclusive
          edge  |-> cmp = 0]]
Interacting(g) == {k \in 1..Len(g) : g[k].inter}
AnyTie(g)      == \E k \in 1..Len(g) : g[k].tie
\* coincident particles: r = 0, the energy is singular
AnyZero(g)     == \E k \in 1..Len(g) : g[k].n2 = 0

(***************************************************************************)
(* Scale: a translation-invariant configuration.  On a full lattice        *)
(* n_1 x .. x n_d (spacing a, every n_k odd: no half-cell tie) of ONE      *)
(* species in an orthogonal, fully periodic cell the pair (i, j) has the    *)
(* geometry of the pair (1, j') whose index difference is the same          *)
(* (LatticeTranslation, checked by TLC on small lattices in MC_Hessian), so *)
(* the whole matrix is determined by the row of particle 1: block (i, j) =  *)
(* -K(delta_ij)/m, block (i, i) = sum_delta K(delta)/m.  GeoOne is linear   *)
(* in N; the trace specification prints the table delta -> block terms and *)
(* the harness places the blocks by index arithmetic.                       *)
(***************************************************************************)
LatIdx(rec, i)      == [k \in 1..rec.dim |-> rec.pos[i][k] \div rec.lat.a]
LatDelta(rec, i, j) == [k \in 1..rec.dim |-> (LatIdx(rec, j)[k] - LatIdx(rec, i)[k]) % rec.lat.n[k]]
LatSitesH(n, a) ==
  IF Len(n) = 2 THEN {<<a * i, a * j>> : i \in 0..(n[1] - 1), j \in 0..(n[2] - 1)}
  ELSE {<<a * i, a * j, a * k>> : i \in 0..(n[1] - 1), j \in 0..(n[2] - 1), k \in 0..(n[3] - 1)}
IsHessLattice(rec) ==
  /\ "lat" \in DOMAIN rec /\ Len(rec.lat.n) = rec.dim /\ Len(rec.mroot) = 1
  /\ \A k \in 1..rec.dim : rec.ppp[k] = 1 /\ rec.lat.n[k] % 2 = 1 /\
                              \A j \in 1..rec.dim : rec.H[k][j] = (IF j = k THEN rec.lat.n[k] * rec.lat.a ELSE 0)
  /\ \A i \in 1..Len(rec.typ) : rec.typ[i] = 1
  /\ Len(rec.pos) = ProdSeq(rec.lat.n) /\ {rec.pos[i] : i \in 1..Len(rec.pos)} = LatSitesH(rec.lat.n, rec.lat.a)
\* the geometry of the pairs (1, j), j = 2..N, as GeoOf gives it for them
GeoOne(c) ==
  [k \in 1..(NPart(c) - 1) |->
     LET j   == k + 1
         d   == Disp(c, 1, j)
         cmp == CmpCut(Norm2(d), c.S, c.rc[c.typ[1]][c.typ[j]])
     IN  [i |-> 1, j |-> j, d |-> d, n2 |-> Norm2(d), tie |-> PairTie(c, 1, j), inter |-> cmp <= 0, edge |-> cmp = 0]]
\* translation invariance: every pair has the geometry of the pair (1, j') with the same index difference
LatticeTranslation(rec, c) ==
  \A i, j \in 1..NPart(c) : i # j =>
     LET jp == CHOOSE x \in 1..NPart(c) : LatDelta(rec, 1, x) = LatDelta(rec, i, j) IN
     /\ Disp(c, i, j) = Disp(c, 1, jp)
     /\ CmpCut(Norm2(Disp(c, i, j)), c.S, c.rc[1][1]) = CmpCut(Norm2(Disp(c, 1, jp)), c.S, c.rc[1][1])
     /\ ~PairTie(c, i, j)

(***************************************************************************)
(* Assembly state machine over formal block symbols                        *)
(***************************************************************************)
Mu(c, i)   == c.mroot[c.typ[i]]
ROne       == <<1, 1>>
AccZero(N, NP) == [i \in 1..N |-> [j \in 1..N |-> [k \in 1..NP |-> RZero]]]

\* the effect of adding pair k = (i, j): both diagonal blocks accumulate K/m, the two
\* off-diagonal blocks are -K/sqrt(m_i m_j)
AddPairTo(acc, c, g, k) ==
  LET i   == g[k].i
      j   == g[k].j
      wi  == RDiv(ROne, RMul(Mu(c, i), Mu(c, i)))
      wj  == RDiv(ROne, RMul(Mu(c, j), Mu(c, j)))
      wij == RDiv(ROne, RMul(Mu(c, i), Mu(c, j)))
  IN  [acc EXCEPT ![i][i][k] = RAdd(@, wi), ![j][j][k] = RAdd(@, wj),
                  ![i][j][k] = RSub(@, wij), ![j][i][k] = RSub(@, wij)]

\* ---- clauses on the formal matrix ----
SymmetricAcc(acc, N) == \A i, j \in 1..N : acc[i][j] = acc[j][i]

\* sum_j H_ij sqrt(m_j) = 0 : the coefficient of every block symbol vanishes
TranslationNullAcc(acc, c, N, NP) ==
  \A i \in 1..N : \A k \in 1..NP :
    RSumSeq([j \in 1..N |-> RMul(acc[i][j][k], Mu(c, j))]) = RZero

\* un-weighting recovers d2U: +1 on the two diagonal blocks of a pair that was added, -1 on its
\* two off-diagonal blocks, 0 everywhere else
Unweighted(acc, c, i, j, k) == RMul(acc[i][j][k], RMul(Mu(c, i), Mu(c, j)))
EachPairOnceAcc(acc, c, g, done, N, NP) ==
  \A k \in 1..NP : \A i, j \in 1..N :
    LET u    == Unweighted(acc, c, i, j, k)
        mine == k \in done /\ {i, j} \subseteq {g[k].i, g[k].j}
    IN  IF ~mine THEN u = RZero
        ELSE IF i = j THEN u = ROne ELSE u = <<0 - 1, 1>>

(***************************************************************************)
(* Real terms                                                              *)
(***************************************************************************)
KName(k, a, b) == "K" \o ToString(k) \o "_" \o ToString(Min2(a, b)) \o ToString(Max2(a, b))
HName(p, q)    == "h_" \o ToString(p) \o "_" \o ToString(q)
VName(p)       == "v_" \o ToString(p)
Flat(dim, i, a) == (i - 1) * dim + a

Delta(a, b) == IF a = b THEN 1 ELSE 0
\* block entry (a, b) of pair record pr; the leaves s1, s1c, s2, r are bound by the definitions
BlockEntryT(pr, a, b) ==
  LET dd == pr.d[a] * pr.d[b] IN
  Add2(Mul2(Var("s2v"), Q(dd, pr.n2)),
       Mul3(Sub(Var("s1v"), Var("s1cv")), Q(Delta(a, b) * pr.n2 - dd, pr.n2), Div(I(1), Var("r"))))

\* definitions, evaluated in order by the harness: <<name, term, mode>>; mode "fun" binds the
\* term itself (evaluated at each use under the bindings current then), "val" binds its value
UpperIdx(dim) == IF dim = 2 THEN << <<1, 1>>, <<1, 2>>, <<2, 2>> >>
                 ELSE << <<1, 1>>, <<1, 2>>, <<1, 3>>, <<2, 2>>, <<2, 3>>, <<3, 3>> >>
PairDefs(c, g, k) ==
  LET pr == g[k]
      ti == c.typ[pr.i]
      tj == c.typ[pr.j]
      ix == UpperIdx(c.dim)
  IN  << <<"r", Sqrt(Q(pr.n2, c.S * c.S)), "val">>,
         <<"eps", QR(c.eps[ti][tj]), "val">>,
         <<"sigma", QR(c.sigma[ti][tj]), "val">>,
         <<"rc", QR(c.rc[ti][tj]), "val">>,
         <<"s1v", Var("S1"), "val">>, <<"s1cv", Var("S1c"), "val">>, <<"s2v", Var("S2"), "val">> >>
      \o [t \in 1..Len(ix) |-> <<KName(k, ix[t][1], ix[t][2]), BlockEntryT(pr, ix[t][1], ix[t][2]), "val">>]
RECURSIVE ConcatAll(_)
ConcatAll(ss) == IF ss = << >> THEN << >> ELSE Head(ss) \o ConcatAll(Tail(ss))
Defs(c, g, pot) ==
  LET ks == SortedSeq(Interacting(g)) IN
  << <<"n", QR(c.n), "val">>, <<"A", QR(c.A), "val">>, <<"alpha", QR(c.alpha), "val">>,
     <<"S1", pot.s1t, "fun">>, <<"S1c", pot.s1ct[c.shift], "fun">>, <<"S2", pot.s2t, "fun">> >>
  \o ConcatAll([t \in 1..Len(ks) |-> PairDefs(c, g, ks[t])])

\* entry ((i,a),(j,b)) of the matrix: linear combination of block-entry leaves
EntryT(acc, NP, i, a, j, b) ==
  LET ks == SortedSeq({k \in 1..NP : acc[i][j][k][1] # 0}) IN
  Add([t \in 1..Len(ks) |-> Mul2(QR(acc[i][j][ks[t]]), Var(KName(ks[t], a, b)))])
MatrixT(acc, N, NP, dim) ==
  [p \in 1..(N * dim) |-> [q \in 1..(N * dim) |->
     EntryT(acc, NP, ((p - 1) \div dim) + 1, ((p - 1) % dim) + 1, ((q - 1) \div dim) + 1, ((q - 1) % dim) + 1)]]

(***************************************************************************)
(* Relations between the outputs (leaves h_p_q = saved matrix, v_p = one   *)
(* saved eigenvector, lam = its eigenvalue), as terms that depend on the   *)
(* shape (N, dim) only                                                     *)
(***************************************************************************)
\* participation ratio (sum_i |v_i|^2)^2 / (N sum_i |v_i|^4)
Sq(t) == Mul2(t, t)
Norm2T(dim, i) == Add([a \in 1..dim |-> Sq(Var(VName(Flat(dim, i, a))))])
PRTerm(N, dim) == Div(Sq(Add([i \in 1..N |-> Norm2T(dim, i)])),
                      Mul2(I(N), Add([i \in 1..N |-> Sq(Norm2T(dim, i))])))
VNormT(N, dim) == Add([p \in 1..(N * dim) |-> Sq(Var(VName(p)))])
\* Rayleigh quotient numerator v^T H v and the rows of H v - lam v
RayleighT(N, dim) ==
  Add([p \in 1..(N * dim) |-> Mul2(Var(VName(p)), Add([q \in 1..(N * dim) |-> Mul2(Var(HName(p, q)), Var(VName(q)))]))])
ResidualT(N, dim) ==
  [p \in 1..(N * dim) |-> Sub(Add([q \in 1..(N * dim) |-> Mul2(Var(HName(p, q)), Var(VName(q)))]),
                              Mul2(Var("lam"), Var(VName(p))))]
\* rows of H applied to the mass-weighted uniform translation along axis a:  sum_j H_(p),(j,a) sqrt(m_j)
TransT(c, N, dim) ==
  [a \in 1..dim |-> [p \in 1..(N * dim) |->
     Add([j \in 1..N |-> Mul2(Var(HName(p, Flat(dim, j, a))), QR(Mu(c, j)))])]]
ShapeT(N, dim) == [N |-> N, dim |-> dim, pr |-> PRTerm(N, dim), vnorm |-> VNormT(N, dim),
                   rayleigh |-> RayleighT(N, dim), residual |-> ResidualT(N, dim)]
=============================================================================
