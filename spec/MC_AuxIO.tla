----------------------------- MODULE MC_AuxIO -----------------------------
(***************************************************************************)
(* Models of property C19.  Part selects the state machine:                *)
(*  "dump"   a dump file (1..3 frames written by the header writer + atom  *)
(*           lines) is read frame by frame on one handle by the plain,     *)
(*           molecule-centre or vector-column reader (variables cur, hist: *)
(*           cursor and results so far), or in one call by read_additions. *)
(*           One behaviour per (file, reader, parameter): all 64 type maps *)
(*           over types 1..3, all column lists over the 3 extra columns.   *)
(*  "hoomd"  a sequence of 1..3 duck-typed HOOMD frames (optionally a DCD  *)
(*           position array) is converted frame by frame.                  *)
(*  "log"    a LAMMPS log is scanned line by line; complete sections are   *)
(*           collected.                                                    *)
(* The C19 clauses are INVARIANTs of every state; with Gen = TRUE every    *)
(* finished behaviour is printed for replay into the real routines.        *)
(***************************************************************************)
EXTENDS AuxIO, Json

CONSTANTS Tier, Part, Gen, SHARD, NSHARDS

VARIABLES inp,    \* the input (file / frames / log) with its abstract description
          kind,   \* which routine
          par,    \* its parameter (type map, column list, column number, ndim)
          cur,    \* cursor: lines consumed / frames converted / lines scanned
          aux,    \* log: line number of the open section header (0 = none)
          hist,   \* results so far
          done
vars == <<inp, kind, par, cur, aux, hist, done>>

Thorough == Tier = "thorough"

\* ===================================================================== dump
TSs     == <<0, 5, 1200000>>
Addsons == << << >>, <<"order">>, <<"vx", "vy", "q6">> >>
Styles  == <<"x", "xs", "xu">>
Boxes(nd) ==
  IF nd = 2
  THEN << << <<0, 4000>>, <<0, 6000>> >>,
          << <<0 - 2000, 2000>>, <<0 - 1000, 7000>> >>,
          << <<0 - 1600, 2400>>, <<504, 8504>> >> >>
  ELSE << << <<0, 4000>>, <<0, 6000>>, <<0, 8000>> >>,
          << <<0 - 2000, 2000>>, <<0 - 1000, 7000>>, <<0 - 4000, 4000>> >>,
          << <<0 - 1600, 2400>>, <<504, 8504>>, <<0 - 3200, 800>> >> >>

\* (file order of ids, type of each id)
Variants ==
  IF Thorough
  THEN << [perm |-> <<1>>, types |-> <<2>>], [perm |-> <<1, 2, 3>>, types |-> <<1, 2, 3>>],
          [perm |-> <<3, 1, 2>>, types |-> <<2, 2, 1>>], [perm |-> <<2, 3, 1>>, types |-> <<3, 1, 3>>],
          [perm |-> <<2, 1>>, types |-> <<3, 3>>], [perm |-> <<4, 2, 1, 3>>, types |-> <<1, 3, 2, 1>>],
          [perm |-> <<3, 2, 1>>, types |-> <<1, 1, 2>>] >>
  ELSE << [perm |-> <<1>>, types |-> <<2>>], [perm |-> <<1, 2, 3>>, types |-> <<1, 2, 3>>],
          [perm |-> <<3, 1, 2>>, types |-> <<2, 2, 1>>], [perm |-> <<2, 3, 1>>, types |-> <<3, 1, 3>>],
          [perm |-> <<2, 1>>, types |-> <<3, 3>>] >>
NV == Len(Variants)
K  == 3 * NV             \* frames in the catalogue of one dimension

CoordTok(style, id, k, sd, lo, hi) ==
  LET L    == hi - lo
      base == lo + ((id * 1375 + k * 611 + sd * 97) % L)
      e    == (id + k + sd) % 4
  IN  IF style = "x" THEN (IF e = 0 THEN base - L ELSE IF e = 1 THEN base + L ELSE base)
      ELSE IF style = "xu" THEN base + (e - 1) * 2 * L
      ELSE ((id * 3 + k * 5 + sd) % 8) * (SCALE \div 8)

CatFrame(nd, j) ==       \* j in 1..K
  LET si  == ((j - 1) \div NV) + 1
      vi  == ((j - 1) % NV) + 1
      va  == Variants[vi]
      box == Boxes(nd)[((si + 2 * vi) % 3) + 1]
      st  == Styles[si]
  IN  [ ts |-> TSs[((si + vi) % 3) + 1], bounds |-> box, style |-> st, addson |-> Addsons[(vi % 3) + 1],
        atoms |-> [i \in 1..Len(va.perm) |->
           LET id == va.perm[i] IN
           [ id |-> id, type |-> va.types[id],
             c  |-> [k \in 1..nd |-> CoordTok(st, id, k, j, box[k][1], box[k][2])],
             e  |-> << NI(id * 10 + j), F(id * 1000 + 250 * j - 1500), F(0 - (id * 125) - j) >> ]] ]

Strides == IF Thorough THEN {1, 4, 7} ELSE {1}
FDs == { [nd |-> nd, start |-> s, len |-> l, stride |-> st] :
           nd \in {2, 3}, s \in 1..K, l \in 1..3, st \in Strides }
FramesOf(fd) == [i \in 1..fd.len |-> CatFrame(fd.nd, ((fd.start - 1 + (i - 1) * fd.stride) % K) + 1)]

Maps == UNION {[D -> 1..3] : D \in SUBSET (1..3)}          \* all 64 type maps over types 1..3
ExtraCols(nd) == (nd + 3)..(nd + 5)
AllCols(nd)   == 1..(nd + 5)
ColLists(nd) ==
  UNION {[1..l -> ExtraCols(nd)] : l \in 1..3}              \* all lists over the 3 extra columns
  \cup [1..1 -> AllCols(nd)]
  \cup (IF Thorough THEN [1..2 -> AllCols(nd)] ELSE {<<1, 2>>, <<3, nd + 5>>, <<nd + 3, 4>>})

SameN(frames) == \A i \in 1..Len(frames) : Len(frames[i].atoms) = Len(frames[1].atoms)
NoXs(frames)  == \A i \in 1..Len(frames) : frames[i].style # "xs"

DumpKinds == {"file", "plain", "centre", "vector", "additions"}
DumpPars(k, fd, frames) ==
  IF k = "centre" THEN Maps
  ELSE IF k = "vector" THEN ColLists(fd.nd)
  ELSE IF k = "additions" THEN (IF SameN(frames) THEN 0..(fd.nd + 4) ELSE {})
  ELSE IF k = "plain" THEN (IF NoXs(frames) THEN {0} ELSE {})
  ELSE {0}

DumpInit ==
  \E fd \in FDs :
    /\ (fd.start + 3 * fd.len + 7 * fd.stride + fd.nd) % NSHARDS = SHARD
    /\ (fd.len = 1 => fd.stride = 1)
    /\ LET fr == FramesOf(fd) IN
       /\ inp = [fd |-> fd, frames |-> fr, lines |-> FileLines(fr)]
       /\ kind \in DumpKinds
       /\ par \in DumpPars(kind, fd, fr)
    /\ cur = 0 /\ aux = 0 /\ hist = << >> /\ done = (kind = "file")

DumpNext ==
  /\ ~done
  /\ IF kind = "additions"
     THEN /\ hist' = <<ReadAdditions(inp.lines, par)>>
          /\ done' = TRUE /\ UNCHANGED cur
     ELSE LET r == ReadStep(kind, inp.lines, cur, inp.fd.nd, par) IN
          /\ hist' = Append(hist, r)
          /\ cur' = r.cur
          /\ done' = (r.eof = 1)
  /\ UNCHANGED <<inp, kind, par, aux>>

Stepwise == kind \in {"plain", "centre", "vector"}
NF == Len(inp.frames)

\* timestep, bounds, box lengths read back; the cursor sits on the next frame
InvReadAfterWriteHeader ==
  (Part = "dump" /\ Stepwise) =>
     \A j \in 1..Len(hist) : j <= NF =>
        /\ ReadAfterWriteHeader(inp.frames, j, hist[j])
        /\ kind # "centre" => ParticleCountReadBack(inp.frames, j, hist[j])
\* frames in order, end of file exactly after the last one
InvFramesInOrder ==
  (Part = "dump" /\ Stepwise) =>
     /\ Len(hist) <= NF + 1
     /\ \A j \in 1..Len(hist) : (hist[j].eof = 1) <=> (j = NF + 1)
     /\ done <=> Len(hist) = NF + 1
     /\ cur = Offset(inp.frames, Min2(Len(hist), NF) + 1)
     /\ done => hist[NF + 1] = EofResult(Len(inp.lines))
InvCentreSelection ==
  (Part = "dump" /\ kind = "centre") =>
     \A j \in 1..Len(hist) : j <= NF => CentreSelection(inp.frames[j], par, hist[j])
InvColumnsById ==
  /\ (Part = "dump" /\ kind = "vector") =>
        \A j \in 1..Len(hist) : j <= NF => ColumnsById(inp.frames[j], par, hist[j])
  /\ (Part = "dump" /\ kind = "additions" /\ done) => AdditionsById(inp.frames, par, hist[1])
\* positions of style x end inside the box; xs positions are exact in the scope
InvPositions ==
  (Part = "dump" /\ kind \in {"plain", "centre"}) =>
     \A j \in 1..Len(hist) : j <= NF =>
        LET fr == inp.frames[j] IN
        /\ \A i \in 1..Len(fr.atoms) : \A k \in 1..Len(fr.bounds) :
              CoordExact({CoordNames(fr.style)[1]}, fr.atoms[i].c[k], fr.bounds[k][1], fr.bounds[k][2])
        /\ fr.style # "xu" =>
             \A i \in 1..Len(hist[j].pos) : \A k \in 1..Len(fr.bounds) :
                 hist[j].pos[i][k] >= fr.bounds[k][1] /\ hist[j].pos[i][k] <= fr.bounds[k][2]
\* the wrapper (read until end of file) returns exactly the stepwise results
InvWrapperEqualsSteps ==
  (Part = "dump" /\ Stepwise /\ done) =>
     ReadAll(kind, inp.lines, inp.fd.nd, par) = SubSeq(hist, 1, NF)

\* compact JSON form of token lines: ["w", word] | ["i", n] | ["f", m]
JTok(t) == IF t.k = "w" THEN <<"w", t.w>> ELSE <<t.k, t.v>>
JLines(ls) == [i \in 1..Len(ls) |-> [j \in 1..Len(ls[i]) |-> JTok(ls[i][j])]]

ParJson == IF kind = "centre" THEN PairsOf(par) ELSE par
FrameMeta(fr) == [ts |-> fr.ts, n |-> Len(fr.atoms), bounds |-> fr.bounds, style |-> fr.style, addson |-> fr.addson]
DumpCase ==
  IF kind = "file"
  THEN [t |-> "file", fd |-> inp.fd, meta |-> [j \in 1..NF |-> FrameMeta(inp.frames[j])], lines |-> JLines(inp.lines)]
  ELSE [t |-> "run", fd |-> inp.fd, kind |-> kind, par |-> ParJson, steps |-> hist]

\* ===================================================================== hoomd
HSteps == <<0, 1000, 50000>>
HBox(d) == IF d = 2 THEN <<4000, 6000, 1000, 0, 0, 0>> ELSE <<4000, 6000, 8000, 0, 0, 0>>
HTypeids == << <<0>>, <<0, 1, 0>>, <<2, 0, 1>>, <<1, 1, 1>>, <<0, 2>> >>
\* positions are multiples of 125/SCALE = 1/8: exact in single precision
HPos(d, v, i, k, shift) ==
  LET L == HBox(d)[k] IN
  IF d = 2 /\ k = 3 THEN 0
  ELSE ((((v * 53 + i * 29 + k * 17) * 125) % L) - (L \div 2)) + (shift * L)
HFrame(d, v) ==          \* v in 1..5
  LET tid == HTypeids[v] IN
  [ step |-> HSteps[(v % 3) + 1] + v, dim |-> d, box |-> HBox(d), n |-> Len(tid), typeid |-> tid,
    pos |-> [i \in 1..Len(tid) |-> [k \in 1..3 |-> HPos(d, v, i, k, 0)]] ]
HCat == IF Thorough THEN 1..5 ELSE 1..4
HSeqs == UNION {[1..l -> HCat] : l \in 1..3}
\* DCD variants: 0 consistent, 1 one frame short, 2 one frame more, 3 one particle more
HDcd(d, vs, variant) ==
  LET nfr == IF variant = 1 THEN Len(vs) - 1 ELSE IF variant = 2 THEN Len(vs) + 1 ELSE Len(vs)
      np  == Len(HTypeids[vs[1]]) + (IF variant = 3 THEN 1 ELSE 0)
  IN  [j \in 1..nfr |-> [i \in 1..np |-> [k \in 1..3 |-> HPos(d, vs[((j - 1) % Len(vs)) + 1] + j, i, k, j)]]]
HSameN(vs) == \A i \in 1..Len(vs) : Len(HTypeids[vs[i]]) = Len(HTypeids[vs[1]])

HoomdInit ==
  \E d \in {2, 3}, vs \in HSeqs, nd \in {2, 3} :
    /\ (d + 2 * nd + SumSeq(vs) + Len(vs)) % NSHARDS = SHARD
    /\ \/ /\ kind = "gsd"
          /\ inp = [frames |-> [j \in 1..Len(vs) |-> HFrame(d, vs[j])], dcd |-> << >>, withdcd |-> FALSE]
       \/ /\ kind = "gsd_dcd" /\ HSameN(vs)
          /\ \E variant \in 0..3 : (variant = 1 => Len(vs) > 1) /\
               inp = [frames |-> [j \in 1..Len(vs) |-> HFrame(d, vs[j])], dcd |-> HDcd(d, vs, variant), withdcd |-> TRUE]
    /\ par = nd
    /\ cur = 0 /\ aux = 0 /\ hist = << >> /\ done = FALSE

\* aux = 1 : the call was rejected (result None)
HoomdNext ==
  /\ ~done
  /\ IF GsdRejected(inp.frames, inp.dcd, par, inp.withdcd)
     THEN /\ aux' = 1 /\ done' = TRUE /\ UNCHANGED <<cur, hist>>
     ELSE /\ hist' = Append(hist, GsdSnap(inp.frames[cur + 1], par,
                               IF inp.withdcd THEN inp.dcd[cur + 1] ELSE inp.frames[cur + 1].pos))
          /\ cur' = cur + 1
          /\ done' = (cur + 1 = Len(inp.frames))
          /\ UNCHANGED aux
  /\ UNCHANGED <<inp, kind, par>>

InvFramesConverted ==
  Part = "hoomd" =>
     /\ \A j \in 1..Len(hist) :
          LET fr == inp.frames[j] s == hist[j] IN
          /\ s.ts = fr.step /\ s.n = fr.n
          /\ \A i \in 1..fr.n : s.types[i] = fr.typeid[i] + 1 /\ s.types[i] >= 1
          /\ Len(s.len) = par /\ \A k \in 1..par : s.len[k] = fr.box[k]
          /\ \A i \in 1..Len(s.pos) : Len(s.pos[i]) = par /\
                \A k \in 1..par : s.pos[i][k] = (IF inp.withdcd THEN inp.dcd[j][i][k] ELSE fr.pos[i][k])
     /\ done => (IF aux = 1 THEN NoneResult ELSE [none |-> 0, snaps |-> hist])
                   = GsdResult(inp.frames, inp.dcd, par, inp.withdcd)
     /\ (done /\ aux = 0) => Len(hist) = Len(inp.frames)
HoomdCase == [t |-> kind, nd |-> par, frames |-> inp.frames, dcd |-> inp.dcd,
              exp |-> GsdResult(inp.frames, inp.dcd, par, inp.withdcd)]

\* ===================================================================== log
ColSets == << <<"Step", "Temp">>, <<"Step", "Temp", "E_pair", "Press">>,
              <<"Step", "Press">>, <<"Step", "KinEng", "E_pair", "Volume">> >>
\* column set of section s: d.alt = 0 one thermo_style for the whole log; 1 the style changes between runs to a set of
\* another width (2 <-> 4 columns); 2 to a set of the same width with other quantities (headers differ, widths agree)
ColOf(d, s) == IF d.alt = 0 \/ s % 2 = 1 THEN ColSets[d.cv]
               ELSE IF d.alt = 1 THEN ColSets[3 - d.cv] ELSE ColSets[d.cv + 2]
\* value in row r of section s, column j (column 1 is the integer step)
LogVal(s, r, j) == IF j = 1 THEN NI((s - 1) * 1000 + (r - 1) * 100)
                   ELSE IF j = 3 THEN F(0 - (6250 + 17 * s + r))
                   ELSE IF j = 4 THEN NI(s + r) ELSE F(1440 + 100 * s + 3 * r + j)
Pre(v) == IF v = 1
          THEN << Words(<<"LAMMPS", "(29", "Aug", "2024)">>), Words(<<"units", "lj">>), <<NI(4000), W("atoms")>> >>
          ELSE << Words(<<"LAMMPS", "(2", "Aug", "2023)">>), << >>,
                  <<NI(1), W("by"), NI(1), W("by"), NI(1), W("MPI"), W("processor"), W("grid")>> >>
RunIntro(v) == IF v = 1 THEN << Words(<<"run", "100">>),
                                 Words(<<"Per", "MPI", "rank", "memory", "allocation", "(min/avg/max)", "=">>) \o <<F(3125), W("Mbytes")>> >>
               ELSE << Words(<<"run", "2000">>) >>
LoopLine == Words(<<"Loop", "time", "of">>) \o <<F(1250), W("on"), NI(1), W("procs"), W("for"), NI(100), W("steps")>>
RunOutro(v) == IF v = 1 THEN << << >>, Words(<<"Performance:">>) \o <<F(345600125), W("tau/day")>>, << >> >>
               ELSE << << >>, <<W("Nlocal:"), NI(4000), W("ave"), NI(4000), W("max")>>,
                       <<W("Histogram:"), NI(1), NI(0), NI(0)>>, << >> >>
SecLines(s, nrows, cols) ==
  <<Words(cols)>> \o [r \in 1..nrows |-> [j \in 1..Len(cols) |-> LogVal(s, r, j)]]
AbsSec(s, nrows, cols) ==
  [names |-> cols, rows |-> [r \in 1..nrows |-> [j \in 1..Len(cols) |-> Val(LogVal(s, r, j))]]]
RowsOf(d, s) == ((d.rp + s) % 3) + 1
RECURSIVE Body(_, _)
Body(d, s) == IF s > d.nsec THEN << >>
              ELSE RunIntro(d.v) \o SecLines(s, RowsOf(d, s), ColOf(d, s)) \o <<LoopLine>> \o RunOutro(d.v) \o Body(d, s + 1)
\* tail: -1 complete log; 0..3 an unterminated section with that many rows;
\*       4 cut inside the set-up of the next run (last line starts with a number)
TailLines(d) ==
  IF d.tail = 0 - 1 THEN << Words(<<"Total", "wall", "time:", "0:00:01">>) >>
  ELSE IF d.tail = 4 THEN << Words(<<"read_data", "next.data">>), <<NI(4000), W("atoms")>> >>
  ELSE RunIntro(d.v) \o SecLines(d.nsec + 1, d.tail, ColOf(d, d.nsec + 1))
LogLines(d) == Pre(d.v) \o Body(d, 1) \o TailLines(d)
LogDescs == { [nsec |-> ns, rp |-> rp, tail |-> tl, cv |-> cv, v |-> v, alt |-> alt] :
                ns \in 0..3, rp \in 0..2, tl \in (0 - 1)..4, cv \in 1..2, v \in 1..2, alt \in 0..2 }

LogInit ==
  \E d \in LogDescs :
    /\ (d.nsec + 4 * d.rp + 12 * (d.tail + 1) + d.cv + d.v + 5 * d.alt) % NSHARDS = SHARD
    /\ inp = [d |-> d, lines |-> LogLines(d), secs |-> [s \in 1..d.nsec |-> AbsSec(s, RowsOf(d, s), ColOf(d, s))]]
    /\ kind = "log" /\ par = 0 /\ cur = 0 /\ aux = 0 /\ hist = << >> /\ done = FALSE

\* the scanner: one line per step
LogNext ==
  /\ ~done
  /\ IF cur >= Len(inp.lines) THEN done' = TRUE /\ UNCHANGED <<cur, aux, hist>>
     ELSE LET ln == inp.lines[cur + 1] IN
          /\ cur' = cur + 1 /\ done' = FALSE
          /\ IF IsStart(ln) THEN aux' = cur + 1 /\ UNCHANGED hist
             ELSE IF IsEnd(ln) /\ aux # 0 THEN aux' = 0 /\ hist' = Append(hist, Section(inp.lines, aux, cur + 1))
             ELSE UNCHANGED <<aux, hist>>
  /\ UNCHANGED <<inp, kind, par>>

InvAllCompleteSectionsReturned ==
  (Part = "log" /\ done) =>
     /\ hist = inp.secs                                   \* every section that was written, in full
     /\ LogResult(inp.lines) = [secs |-> hist, tail |-> IF aux = 0 THEN 0 ELSE 1]
     /\ (aux # 0) <=> (inp.d.tail \in 0..3)
     /\ LogAccepts(inp.lines, hist)
     /\ (inp.d.nsec > 0) => ~LogAccepts(inp.lines, Tail(hist))
InvSectionsInOrder ==
  Part = "log" => /\ Len(hist) <= inp.d.nsec
                  /\ \A i \in 1..Len(hist) : hist[i] = inp.secs[i]
LogCase == [t |-> "log", d |-> inp.d, lines |-> JLines(inp.lines), exp |-> LogResult(inp.lines)]

\* ===================================================================== spec
Init == IF Part = "dump" THEN DumpInit ELSE IF Part = "hoomd" THEN HoomdInit ELSE LogInit
Next == IF Part = "dump" THEN DumpNext ELSE IF Part = "hoomd" THEN HoomdNext ELSE LogNext
Spec == Init /\ [][Next]_vars

Case == IF Part = "dump" THEN DumpCase ELSE IF Part = "hoomd" THEN HoomdCase ELSE LogCase
Emit == (Gen /\ done) => PrintT(ToJson(Case))
=============================================================================
