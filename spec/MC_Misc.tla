------------------------------ MODULE MC_Misc ------------------------------
(***************************************************************************)
(* Model of the routines specified in Misc.tla (growth check X01).  One    *)
(* state per input of one routine; clauses are INVARIANTs; Emit prints the *)
(* state with its expectation (direction A).                               *)
(*   Mode "all" or one kind:                                               *)
(*        "tab"    nidealfac / areafac / alpha2factor / kronecker          *)
(*        "moi"    moment_of_inertia on integer point sets                 *)
(*        "gauss"  grid_gaussian          "leg"  Legendre_polynomials      *)
(*        "wig"    Wignerindex(l)         "filon" Filon_COS                *)
(*        "pack"   packing_capability_2d  "fit"  fits (abscissa grid)      *)
(***************************************************************************)
EXTENDS Misc, Json, SequencesExt

CONSTANTS Tier, Mode, SHARD, NSHARDS

VARIABLES x
vars == <<x>>
Thorough == Tier = "thorough"

\* ------------------------------------------------------------------ moi
MoiCoords == IF Thorough THEN {0 - 2, 0 - 1, 0, 3} ELSE {0 - 1, 0, 2}
MoiPts == [1..3 -> MoiCoords]
MoiFixed ==       \* a few larger bodies: a tetrahedron, a rod along z, a planar square, 5 points
  { << <<1, 1, 1>>, <<1, 0 - 1, 0 - 1>>, <<0 - 1, 1, 0 - 1>>, <<0 - 1, 0 - 1, 1>> >>,
    << <<0, 0, 0 - 2>>, <<0, 0, 0 - 1>>, <<0, 0, 0>>, <<0, 0, 1>>, <<0, 0, 2>> >>,
    << <<1, 1, 0>>, <<0 - 1, 1, 0>>, <<0 - 1, 0 - 1, 0>>, <<1, 0 - 1, 0>> >>,
    << <<3, 1, 2>>, <<0 - 2, 5, 1>>, <<4, 4, 0 - 3>>, <<0, 0 - 1, 2>>, <<1, 1, 1>> >> }
MoiBodies ==
  {<<p>> : p \in MoiPts} \cup {<<p, q>> : p \in MoiPts, q \in MoiPts} \cup MoiFixed
  \cup (IF Thorough THEN {<<p, q, r>> : p \in MoiPts, q \in MoiPts, r \in {<<0, 3, 0 - 1>>, <<0 - 2, 0 - 2, 3>>, <<3, 0, 0>>}} ELSE {})
MoiScope == {[k |-> "moi", P |-> b, mass |-> m] : b \in MoiBodies, m \in {1, 3}}
MoiKey(s) == SumSeq(s.P[1]) + 5 * SumSeq(s.P[Len(s.P)]) + Len(s.P) + 64

\* ------------------------------------------------------------------ gauss / leg / wig / tab / fit
GaussScope == {[k |-> "gauss", d |-> d, dd |-> 4, sg |-> sg] : d \in {0 - 6, 0, 1, 3, 5, 12}, sg \in {<<1, 2>>, <<1, 1>>, <<2, 1>>, <<5, 2>>}}
LegScope == {[k |-> "leg", xq |-> RNorm(k, 4), nd |-> nd] : k \in (0 - 6)..6, nd \in 1..4}
WigScope == {[k |-> "wig", l |-> l] : l \in 1..(IF Thorough THEN 6 ELSE 4)}
TabScope == {[k |-> "tab", d |-> d] : d \in 0..5}
FitScope ==
  {s \in {[k |-> "fit", lo |-> lo, hi |-> hi, ra |-> r[1], rb |-> r[2], style |-> st, p |-> p, q |-> q] :
             lo \in {<<1, 2>>}, hi \in {<<9, 2>>, <<40, 1>>},
             r \in {<< <<0, 1>>, <<0, 1>> >>, << <<1, 1>>, <<8, 1>> >>, << <<1, 4>>, <<100, 1>> >>,
                    << <<0, 1>>, <<8, 1>> >>,           \* lower limit 0 with an upper limit: the given range
                    << <<2, 1>>, <<0, 1>> >>},          \* rangeb = 0 means "not given": the range of the data
             st \in {"linear", "log"}, p \in {<<3, 2>>}, q \in {<<0 - 1, 4>>, <<2, 1>>}} :
     ~(s.style = "log" /\ s.ra[1] = 0 /\ s.rb[1] # 0)}      \* a geometric grid cannot start at 0

\* ------------------------------------------------------------------ filon
FilCS == 100
FilPattern(name, n0) ==
  [i \in 1..n0 |->
     CASE name = "one"  -> FilCS
       [] name = "lin"  -> FilCS - 7 * (i - 1)
       [] name = "alt"  -> IF i % 2 = 1 THEN 60 ELSE 0 - 35
       [] name = "dec"  -> <<100, 71, 48, 30, 17, 8, 3, 1, 0, 0 - 1, 0>>[i]
       [] name = "quad" -> (i - 1) * (i - 1) - 20]
\* times in 1/10000: kind "even"; "lastlong" (last step 0.01 longer: raises); "lastslight" (last step 0.0004
\* longer: rounds to the same step, no raise, value outside the domain); "middle" (one inner step longer)
FilTimes(step, kind, n0) ==
  LET n == FilKept(n0) IN
  [i \in 1..n0 |->
     (i - 1) * step
     + (IF kind = "lastlong" /\ i >= n THEN 100 ELSE 0)
     + (IF kind = "lastslight" /\ i >= n THEN 4 ELSE 0)
     + (IF kind = "middle" /\ i >= 3 THEN 300 ELSE 0)]
FilSteps == IF Thorough THEN {1000, 20, 2500, 10, 15, 12, 25, 3330} ELSE {1000, 20, 2500, 15, 12}
FilAs == IF Thorough THEN {<<0, 1>>, <<1, 2>>, <<3, 1>>, <<157, 50>>} ELSE {<<0, 1>>, <<1, 2>>, <<3, 1>>}
FilLens == IF Thorough THEN 3..11 ELSE {3, 4, 5, 8, 9}
FilScope ==
  {[k |-> "filon", n0 |-> n0, step |-> st, kind |-> kd, pat |-> pt, aq |-> aq] :
     n0 \in FilLens, st \in FilSteps, kd \in {"even", "lastlong", "lastslight", "middle"},
     pt \in {"one", "lin", "alt", "dec", "quad"}, aq \in FilAs}
FilKey(s) == s.n0 + s.step + s.aq[1] + Len(s.pat) + Len(s.kind)

\* ------------------------------------------------------------------ pack
Tri2(a, t, b) == << <<a, 0>>, <<t, b>> >>
PkX1 == << <<1, 1>>, <<4, 2>>, <<2, 5>>, <<6, 6>>, <<7, 2>> >>
PkX2 == << <<0, 7>>, <<3, 1>>, <<2, 4>>, <<7, 6>>, <<6, 0 - 1>> >>      \* bonds across the boundary, one particle outside the box
PkF1 == << <<2, 3, 5>>, <<1, 3, 5, 4>>, <<1, 4>>, <<3, 5, 2>>, <<2, 4, 1>> >>          \* 3 does not list 2: (2,3) is not mutual
PkF2 == << <<3, 2>>, <<1, 5>>, <<4, 1, 2>>, <<3>>, <<2, 4, 1, 3>> >>
PkF3 == << <<2, 3, 4, 5>>, <<1, 3, 4, 5>>, <<1, 2, 4, 5>>, <<1, 2, 3, 5>>, <<1, 2, 3, 4>> >>   \* everybody lists everybody
PkSig2 == << <<10, 11>>, <<11, 13>> >>
PkSig1 == << <<7>> >>
PkGeneral ==
  {[k |-> "pack", H |-> h, ppp |-> m, pos |-> ps, types |-> ty[1], sig |-> ty[2], file |-> fl, nmax |-> PkNmax] :
     h \in {Tri2(8, 0, 8), Tri2(8, 2, 6)}, m \in [1..2 -> {0, 1}],
     ps \in {<<PkX1, PkX2>>, <<PkX2, PkX1>>, <<PkX1>>},
     ty \in {<< <<1, 1, 2, 1, 2>>, PkSig2 >>, << <<1, 1, 1, 1, 1>>, PkSig1 >>, << <<2, 1, 2, 2, 1>>, PkSig2 >>},
     fl \in {<<PkF1, PkF2>>, <<PkF2, PkF1>>, <<PkF3, PkF1>>, <<PkF1, PkF1, PkF2>>}}
\* three mutually touching discs with sigma_12 = 3, sigma_13 = 4, sigma_23 = 5: every angle equals its reference
PkTouching ==
  {[k |-> "pack", H |-> Tri2(12, 0, 12), ppp |-> m, pos |-> << << <<1, 1>>, <<4, 1>>, <<1, 5>> >> >>, types |-> <<1, 2, 3>>,
    sig |-> << <<2, 3, 4>>, <<3, 2, 5>>, <<4, 5, 2>> >>,
    file |-> << << <<2, 3>>, <<1, 3>>, <<2, 1>> >> >>, nmax |-> PkNmax] : m \in {<<1, 1>>, <<0, 0>>}}
PkScope == {c \in PkGeneral : Len(c.file) >= Len(c.pos)} \cup PkTouching
PkKey(c) == c.H[2][1] + c.ppp[1] + 2 * c.ppp[2] + Len(c.pos) + Len(c.file) + c.types[1]

\* ------------------------------------------------------------------ state space
KindScope(kd) == CASE kd = "tab"   -> TabScope
                   [] kd = "moi"   -> MoiScope
                   [] kd = "gauss" -> GaussScope
                   [] kd = "leg"   -> LegScope
                   [] kd = "wig"   -> WigScope
                   [] kd = "filon" -> FilScope
                   [] kd = "pack"  -> PkScope
                   [] kd = "fit"   -> FitScope
AllKinds == {"tab", "moi", "gauss", "leg", "wig", "filon", "pack", "fit"}
Kinds == IF Mode = "all" THEN AllKinds ELSE {Mode}
Key(s) == CASE s.k = "moi" -> MoiKey(s)
            [] s.k = "filon" -> FilKey(s)
            [] s.k = "pack" -> PkKey(s)
            [] s.k = "wig" -> s.l
            [] s.k = "tab" -> s.d
            [] s.k = "gauss" -> s.d + 6 + s.sg[1]
            [] s.k = "leg" -> s.nd + s.xq[1] + 6
            [] s.k = "fit" -> s.hi[1] + s.rb[1] + s.q[1] + 1 + Len(s.style)

Init == \E kd \in Kinds : x \in KindScope(kd) /\ Key(x) % NSHARDS = SHARD
Next == UNCHANGED vars
Spec == Init /\ [][Next]_vars

\* ---- clauses
InvTables == x.k = "tab" => MiTablesConsistent(x.d)
InvMoiSymmetric == x.k = "moi" => MiMoiSymmetric(x.P, x.mass)
InvMoiTrace     == x.k = "moi" => MiMoiTrace(x.P, x.mass)
InvMoiAxisPerm  == x.k = "moi" => MiMoiAxisPermutation(x.P, x.mass)
InvMoiDiagonal  == x.k = "moi" => MiMoiDiagonal(x.P, x.mass)
InvMoiPointOrder == x.k = "moi" => MiMoiPointOrder(x.P, x.mass)
InvLegIsP2      == x.k = "leg" => /\ (x.nd = 3 => MiLegPoly(x.xq, 3) = LegAt(2, x.xq))
                                   /\ (x.xq \in {<<1, 1>>, <<0 - 1, 1>>} => MiLegPoly(x.xq, x.nd) = RNorm(x.nd - 1, 2))
InvWigIndex     == x.k = "wig" => WigIndexSetOK(x.l)
InvWigSymmetric == x.k = "wig" => WigSymmetricMod(x.l, ShP1)
InvWigOrthogonal == x.k = "wig" => W3jOrthogonal(x.l, ShP1) /\ W3jOrthogonal(x.l, ShP2)
FilN  == FilKept(x.n0)
FilTT == FilTimes(x.step, x.kind, x.n0)
FilCC == FilPattern(x.pat, x.n0)
InvFilZeroIsSimpson == x.k = "filon" => FilZeroIsSimpson(FilCC, FilN)
InvFilSimpsonExact  == x.k = "filon" => FilSimpsonExact(FilN)
InvFilEvenNeverRaises == x.k = "filon" => (FilEven(FilTT, FilN) => ~FilRaises(FilTT, FilN))
InvFilKindsRaise == x.k = "filon" => ((x.kind \in {"lastlong", "lastslight"} \/ (x.kind = "middle" /\ FilN = 3)) <=> FilRaises(FilTT, FilN))
InvFilKeptOdd   == x.k = "filon" => (FilN % 2 = 1 /\ FilN \in {x.n0, x.n0 - 1})
PkFrames == 1..Len(x.pos)
InvPkPairsOnce == x.k = "pack" => \A f \in PkFrames : \A o \in 1..Len(x.types) : PkPairsOnce(x, f, o)
InvPkMutualSymmetric == x.k = "pack" => \A f \in PkFrames : PkMutualSymmetric(x, f)
InvPkTouching  == x.k = "pack" => \A f \in PkFrames : \A o \in 1..Len(x.types) : PkTouchingHasReferenceAngle(x, f, f, o)
InvPkTouchingNonVacuous ==
  (x.k = "pack" /\ Len(x.types) = 3) =>
     \A o \in 1..3 : LET pr == PkContrib(x, 1, o)[1] IN
        Norm2(PkBond(x, 1, o, pr[1])) = x.sig[x.types[o]][x.types[pr[1]]] * x.sig[x.types[o]][x.types[pr[1]]]

\* ---- emission (direction A)
TabVal(v) == IF v = MiRaise THEN [raises |-> "ValueError"] ELSE [val |-> v]
TabCase == [ m |-> "tab", d |-> x.d, nidealfac |-> TabVal(MiNideal(x.d)), areafac |-> TabVal(MiArea(x.d)),
             alpha2factor |-> TabVal(MiAlpha2(x.d)), kron |-> [j \in 1..6 |-> MiKronecker(x.d, j - 1)] ]
MoiCase == [ m |-> "moi", P |-> x.P, mass |-> x.mass, flat |-> MiMoiFlat(x.P, x.mass), matrix |-> MiMoiMatrix(x.P, x.mass) ]
GaussCase == [ m |-> "gauss", d |-> x.d, dd |-> x.dd, sg |-> x.sg, val |-> MiGaussTerm(Q(x.d, x.dd), QR(x.sg)) ]
LegCase == [ m |-> "leg", xq |-> x.xq, nd |-> x.nd, val |-> MiLegPoly(x.xq, x.nd) ]
WigCase == LET w == WigSeq(x.l) IN
  [ m |-> "wig", l |-> x.l, rows |-> w, vals |-> [k \in 1..Len(w) |-> WigValueTerm(x.l, w[k])] ]
FilCase ==
  LET n == FilN
      dom == FilEven(FilTT, n)           \* the value is asserted for evenly spaced times
  IN  [ m |-> "filon", C |-> FilCC, CS |-> FilCS, tt |-> FilTT, TS |-> FilTS, aq |-> x.aq, n0 |-> x.n0,
        kind |-> x.kind, pat |-> x.pat, kept |-> n, even |-> dom, domain |-> dom,
        raises |-> FilRaises(FilTT, n), harmless |-> FilRoundingHarmless(FilTT, n),
        omega |-> IF dom THEN [j \in 1..n |-> FilOmega(x.aq, FilTT, n, j - 1)] ELSE << >>,
        zero |-> IF dom THEN FilValue(FilCC, FilCS, FilTT, n, I(0), TRUE) ELSE NaNT,
        gen  |-> IF dom THEN FilValue(FilCC, FilCS, FilTT, n, Var("w"), FALSE) ELSE NaNT,
        const |-> IF dom /\ x.pat = "one" THEN FilConstClosed(<<1, 1>>, FilTT, n, Var("w")) ELSE NaNT,
        zerorat |-> FilZeroRat(FilCC, n),
        \* the same w = 0 value through Simpson's rule (exact rational decided by TLC): (2 dt / pi) * zerorat / CS
        zeroclosed |-> IF dom THEN Div(Mul(<<I(2), FilDt(FilTT), QR(FilZeroRat(FilCC, n))>>), Mul2(I(FilCS), Pi)) ELSE NaNT ]
PkCase ==
  [ m |-> "pack", c |-> x,
    exp |-> [f \in 1..Len(x.pos) |-> [o \in 1..Len(x.types) |->
               [ cn |-> PkCn(x, f, o), npairs |-> Len(PkContrib(x, f, o)), fragile |-> PkFragile(x, f, f, o),
                 theta |-> PkTheta(x, f, f, o) ]]] ]
FitCase ==
  LET rg == FitRange(x.lo, x.hi, x.ra, x.rb)
      ks == <<0, 1, 2, 4999, 5000, 9998, 9999>>
  IN  [ m |-> "fit", lo |-> x.lo, hi |-> x.hi, ra |-> x.ra, rb |-> x.rb, style |-> x.style, p |-> x.p, q |-> x.q,
        npts |-> FitNPts, range |-> rg, ks |-> ks,
        xfit |-> [i \in 1..Len(ks) |-> FitPoint(rg[1], rg[2], x.style, ks[i])] ]
Emit == PrintT(ToJson(CASE x.k = "tab" -> TabCase [] x.k = "moi" -> MoiCase [] x.k = "gauss" -> GaussCase
                        [] x.k = "leg" -> LegCase [] x.k = "wig" -> WigCase [] x.k = "filon" -> FilCase
                        [] x.k = "pack" -> PkCase [] x.k = "fit" -> FitCase))
=============================================================================
