------------------------------ MODULE Symmetry ------------------------------
(***************************************************************************)
(* Property C07: the symmetry group acting on configurations, and its      *)
(* expected action on every observable.                                    *)
(*                                                                         *)
(* A configuration c is a record of integers (real length = integer / S):  *)
(*   d, S      dimension, length scale                                     *)
(*   H, org    cell (rows = cell vectors; LAMMPS lower-triangular or an    *)
(*             axis permutation P H P^T of such a cell) and its origin     *)
(*             (lower corner); ppp the periodicity mask                    *)
(*   types     species ids 1..K (every id present)                         *)
(*   frames    frames[f][i] = position of particle i in frame f            *)
(*   nb        nb[f][i] = GIVEN neighbour list of particle i in frame f    *)
(*             (sequence of ids; the file syntax is module Neighbors)      *)
(*   wt        wt[f][i][k] = GIVEN positive integer weight of the k-th     *)
(*             listed neighbour of i in frame f (a weights file in the     *)
(*             format of the neighbour file, e.g. Voronoi face areas)      *)
(*   field     field[i] = an integer vector attached to particle i (a      *)
(*             vector quantity: rotated with the axes, never translated)   *)
(*   vecs      integer wave vectors n (q = 2 pi n / L)                     *)
(*   lengths:  wn (bin width), rc (global cut-off), R (K x K cut-offs,     *)
(*             row = centre type), dia (K diameters), rn (S2 grid step)    *)
(*   numbers:  nn (N-nearest), nd (S2 grid points), E (K x K energies),    *)
(*             ms (K mass roots), an/ad (mobility factor a)                *)
(*                                                                         *)
(* GENERATORS (records, field kind):                                       *)
(*  trans   t, box, wrap   every particle in every frame moves by t; box=1 *)
(*                         moves the cell origin too; wrap=1 brings the    *)
(*                         moved particles back into the cell along the    *)
(*                         periodic axes (what a wrapped dump would show)  *)
(*  image   a, b, m, fr    particle i of frame f moves by n H with         *)
(*                         n_k = ((a_k i + b_k + fr f) mod m) - m div 2 on *)
(*                         periodic axes (0 elsewhere)                     *)
(*  relabel mul, add       id i becomes pi(i) = ((i-1) mul + add) mod N + 1*)
(*                         (mul = 0 stands for N - 1: reversal); needs     *)
(*                         gcd(mul, N) = 1.  Per-particle data move with   *)
(*                         the particle, listed neighbour ids are renamed  *)
(*  swap    a, b           species labels a and b are exchanged; tables    *)
(*                         indexed by species are re-indexed               *)
(*  axes    p              new coordinate k = old coordinate p[k], applied *)
(*                         to positions, origin, mask, field, wave vectors *)
(*                         AND to the cell, H'[i][j] = H[p[i]][p[j]] (cell *)
(*                         vectors renumbered with the axes: H' = P H P^T).*)
(*                         EVERY permutation of EVERY cell is admitted.  A *)
(*                         lower-triangular triclinic cell is in general   *)
(*                         not lower-triangular afterwards (a "permuted    *)
(*                         LAMMPS cell": the same lattice, the same edge   *)
(*                         lengths on the diagonal in permuted order, the  *)
(*                         same volume = product of the diagonal); every   *)
(*                         pairwise routine takes the h-matrix as given    *)
(*                         (fractional coordinates by Adj / Det, module    *)
(*                         Cell), so the property's "permuting coordinate  *)
(*                         axes together with the box" holds without any   *)
(*                         restriction on the cell.  If two edges are      *)
(*                         equal and are exchanged, cell and permuted cell *)
(*                         have the SAME diagonal and different tilts.     *)
(*  rot     q              open boundaries only (mask all 0, orthogonal    *)
(*                         box).  2-D: q = <<a, b>>, a^2 + b^2 = m^2       *)
(*                         (Pythagorean), z -> (a + ib) z; 3-D: integer    *)
(*                         quaternion q = <<w, x, y, z>>, m = |q|^2, the   *)
(*                         rotation matrix is Rn / m with integer Rn.      *)
(*                         Integer positions are mapped by Rn, every other *)
(*                         length is multiplied by m and S by m: in real   *)
(*                         units a pure rotation by the rational matrix    *)
(*                         Rn / m (the box, which plays no role without    *)
(*                         periodicity, keeps its real size)               *)
(*  dil     p, q           every length is multiplied by p, S by q: real   *)
(*                         lengths (coordinates, box, origin, bin width,   *)
(*                         cut-offs, diameters) scale by p / q             *)
(* A WORD is a sequence of generators applied left to right.               *)
(*                                                                         *)
(* The ACTION record of a word says what happens to observables:           *)
(*   pi     where each particle id goes (per-particle outputs permute,     *)
(*          neighbour ids are renamed)                                     *)
(*   sigma  where each species goes (partial columns are renamed)          *)
(*   lin    integer matrix acting on INTEGER difference vectors            *)
(*          (bond' = lin . bond), with lin lin^T = mm I                    *)
(*   S0, S1 scales before / after: real bond' = (lin S0 / S1) real bond,   *)
(*          real lengths scale by sqrt(mm) S0 / S1                         *)
(***************************************************************************)
EXTENDS Cell, Real, TLC

PH == INSTANCE PairHist
DM == INSTANCE DensityModes
NB == INSTANCE Neighbors
LO == INSTANCE LocalOrder
B2 == INSTANCE Boo2D
B3 == INSTANCE Boo3D
VF == INSTANCE VectorField

NPart(c)    == Len(c.types)
NFrames(c)  == Len(c.frames)
NSpecies(c) == Cardinality(Range(c.types))
AllZero(v)  == \A k \in 1..Len(v) : v[k] = 0
MatVec(M, v) == [a \in 1..Len(M) |-> Dot(M[a], v)]          \* column action  M . v
IdMat(d)     == [a \in 1..d |-> [b \in 1..d |-> IF a = b THEN 1 ELSE 0]]
MScale(m, M) == [a \in 1..Len(M) |-> VScale(m, M[a])]
IdPerm(n)    == [i \in 1..n |-> i]
InvPerm(p)   == [j \in 1..Len(p) |-> CHOOSE i \in 1..Len(p) : p[i] = j]
IsPerm(p, n) == Len(p) = n /\ Range(p) = 1..n

(***************************************************************************)
(* Generator constructors.                                                 *)
(***************************************************************************)
GTrans(t, box, wrap)  == [kind |-> "trans", t |-> t, box |-> box, wrap |-> wrap]
GImage(a, b, m, fr)   == [kind |-> "image", a |-> a, b |-> b, m |-> m, fr |-> fr]
GRelabel(mul, add)    == [kind |-> "relabel", mul |-> mul, add |-> add]
GSwap(a, b)           == [kind |-> "swap", a |-> a, b |-> b]
GAxes(p)              == [kind |-> "axes", p |-> p]
GRot(q)               == [kind |-> "rot", q |-> q]
GDil(p, q)            == [kind |-> "dil", p |-> p, q |-> q]

\* ---- relabelling -------------------------------------------------------
RelMul(g, n)  == IF g.mul = 0 THEN n - 1 ELSE g.mul
PermOf(g, n)  == [i \in 1..n |-> (((i - 1) * RelMul(g, n) + g.add) % n) + 1]
RelabelOK(g, n) == n >= 2 /\ Gcd(RelMul(g, n), n) = 1

\* ---- species swap --------------------------------------------------------
SwapOf(g, K) == [a \in 1..K |-> IF a = g.a THEN g.b ELSE IF a = g.b THEN g.a ELSE a]
Tab1(sig, p) == [a \in 1..Len(p) |-> p[InvPerm(sig)[a]]]                  \* p'[sig a] = p[a]
Tab2(sig, P) == [a \in 1..Len(P) |-> [b \in 1..Len(P) |-> P[InvPerm(sig)[a]][InvPerm(sig)[b]]]]

\* ---- image shifts ----------------------------------------------------------
ImgCoef(g, ppp, f, i) ==
  [k \in 1..Len(ppp) |-> IF ppp[k] = 1 THEN ((g.a[k] * i + g.b[k] + g.fr * f) % g.m) - (g.m \div 2) ELSE 0]

\* ---- wrapping into the cell: fractional coordinates (relative to the origin) of the
\* periodic axes brought into [0, 1)
WrapInto(c, v) ==
  LET fn == FracNum(c.H, VSub(v, c.org))
      n  == [k \in 1..c.d |-> IF c.ppp[k] = 1 THEN FloorDiv(fn[k], FracDen(c.H)) ELSE 0]
  IN  VSub(v, VecMat(n, c.H))
InCell(c, v) ==
  LET fn == FracNum(c.H, VSub(v, c.org)) IN
  \A k \in 1..c.d : c.ppp[k] = 1 => (fn[k] >= 0 /\ fn[k] < FracDen(c.H))

\* ---- axis permutations -------------------------------------------------------
PermVec(p, v)  == [k \in 1..Len(p) |-> v[p[k]]]
PermCell(p, H) == [i \in 1..Len(p) |-> [j \in 1..Len(p) |-> H[p[i]][p[j]]]]
PermMat(p)     == [a \in 1..Len(p) |-> [b \in 1..Len(p) |-> IF b = p[a] THEN 1 ELSE 0]]    \* (P v)_a = v_{p[a]}
AxesOK(g, c)   == IsPerm(g.p, c.d)
\* the cells of the scope: a LAMMPS (lower-triangular, positive diagonal) cell with its axes renumbered
AllPerms(d)    == {p \in [1..d -> 1..d] : Range(p) = 1..d}
IsPermutedLAMMPS(H) ==
  /\ \A k \in 1..Len(H) : H[k][k] > 0
  /\ \E p \in AllPerms(Len(H)) : IsLowerTri(PermCell(p, H))

\* ---- rational rotations ---------------------------------------------------------
Rot2(q) == << <<q[1], 0 - q[2]>>, <<q[2], q[1]>> >>
Rot3(q) ==
  LET w == q[1]  x == q[2]  y == q[3]  z == q[4] IN
  << <<w*w + x*x - y*y - z*z, 2 * (x*y - w*z),       2 * (x*z + w*y)>>,
     <<2 * (x*y + w*z),       w*w - x*x + y*y - z*z, 2 * (y*z - w*x)>>,
     <<2 * (x*z - w*y),       2 * (y*z + w*x),       w*w - x*x - y*y + z*z>> >>
RotNum(q) == IF Len(q) = 2 THEN Rot2(q) ELSE Rot3(q)
RotDen(q) == IF Len(q) = 2 THEN ISqrt(Norm2(q)) ELSE Norm2(q)
RotParamOK(q) == Norm2(q) > 0 /\ (Len(q) = 2 => IsSquare(Norm2(q)))
\* Rn Rn^T = m^2 I and det Rn = m^d: a proper rotation times m
IsRotTimes(Rn, m) ==
  /\ \A a, b \in 1..Len(Rn) : Dot(Rn[a], Rn[b]) = (IF a = b THEN m * m ELSE 0)
  /\ Det(Rn) = IPow(m, Len(Rn))
RotOK(g, c) == /\ Len(g.q) = (IF c.d = 2 THEN 2 ELSE 4) /\ RotParamOK(g.q)
               /\ AllZero(c.ppp) /\ IsDiagonal(c.H)

(***************************************************************************)
(* Applicability of a generator to a configuration.                        *)
(***************************************************************************)
GenOK(g, c) ==
  CASE g.kind = "trans"   -> Len(g.t) = c.d
    [] g.kind = "image"   -> g.m >= 2
    [] g.kind = "relabel" -> RelabelOK(g, NPart(c))
    [] g.kind = "swap"    -> g.a # g.b /\ g.a \in 1..NSpecies(c) /\ g.b \in 1..NSpecies(c)
    [] g.kind = "axes"    -> AxesOK(g, c)
    [] g.kind = "rot"     -> RotOK(g, c)
    [] g.kind = "dil"     -> g.p >= 1 /\ g.q >= 1

(***************************************************************************)
(* The exact action on configurations.                                     *)
(***************************************************************************)
MapPos(c, F(_, _, _)) == [f \in 1..NFrames(c) |-> [i \in 1..NPart(c) |-> F(f, i, c.frames[f][i])]]

\* multiply every length by m (positions through the matrix M), S by s
Rescale(c, M, m, s) ==
  [c EXCEPT !.S = c.S * s,
            !.H = MScale(m, c.H), !.org = VScale(m, c.org),
            !.frames = MapPos(c, LAMBDA f, i, v : MatVec(M, v)),
            !.field  = [i \in 1..NPart(c) |-> MatVec(M, c.field[i])],
            !.wn = m * c.wn, !.rc = m * c.rc, !.rn = m * c.rn,
            !.R  = MScale(m, c.R), !.dia = VScale(m, c.dia)]

ApplyTrans(g, c) ==
  LET moved == [c EXCEPT !.org = IF g.box = 1 THEN VAdd(c.org, g.t) ELSE c.org,
                         !.frames = MapPos(c, LAMBDA f, i, v : VAdd(v, g.t))]
  IN  IF g.wrap = 1 THEN [moved EXCEPT !.frames = MapPos(moved, LAMBDA f, i, v : WrapInto(moved, v))] ELSE moved

ApplyImage(g, c) ==
  [c EXCEPT !.frames = MapPos(c, LAMBDA f, i, v : VAdd(v, VecMat(ImgCoef(g, c.ppp, f, i), c.H)))]

ApplyRelabel(g, c) ==
  LET n   == NPart(c)
      pi  == PermOf(g, n)
      inv == InvPerm(pi)
  IN  [c EXCEPT !.types  = [j \in 1..n |-> c.types[inv[j]]],
                !.frames = [f \in 1..NFrames(c) |-> [j \in 1..n |-> c.frames[f][inv[j]]]],
                !.field  = [j \in 1..n |-> c.field[inv[j]]],
                !.nb     = [f \in 1..Len(c.nb) |-> [j \in 1..n |->
                               [k \in 1..Len(c.nb[f][inv[j]]) |-> pi[c.nb[f][inv[j]][k]]]]],
                !.wt     = [f \in 1..Len(c.wt) |-> [j \in 1..n |-> c.wt[f][inv[j]]]]]

ApplySwap(g, c) ==
  LET sig == SwapOf(g, NSpecies(c)) IN
  [c EXCEPT !.types = [i \in 1..NPart(c) |-> sig[c.types[i]]],
            !.R = Tab2(sig, c.R), !.E = Tab2(sig, c.E), !.dia = Tab1(sig, c.dia), !.ms = Tab1(sig, c.ms)]

ApplyAxes(g, c) ==
  [c EXCEPT !.H = PermCell(g.p, c.H), !.org = PermVec(g.p, c.org), !.ppp = PermVec(g.p, c.ppp),
            !.frames = MapPos(c, LAMBDA f, i, v : PermVec(g.p, v)),
            !.field  = [i \in 1..NPart(c) |-> PermVec(g.p, c.field[i])],
            !.vecs   = [n \in 1..Len(c.vecs) |-> PermVec(g.p, c.vecs[n])]]

ApplyRot(g, c) == Rescale(c, RotNum(g.q), RotDen(g.q), RotDen(g.q))
ApplyDil(g, c) == Rescale(c, MScale(g.p, IdMat(c.d)), g.p, g.q)

Apply(g, c) ==
  CASE g.kind = "trans"   -> ApplyTrans(g, c)
    [] g.kind = "image"   -> ApplyImage(g, c)
    [] g.kind = "relabel" -> ApplyRelabel(g, c)
    [] g.kind = "swap"    -> ApplySwap(g, c)
    [] g.kind = "axes"    -> ApplyAxes(g, c)
    [] g.kind = "rot"     -> ApplyRot(g, c)
    [] g.kind = "dil"     -> ApplyDil(g, c)

\* the matrix by which integer difference vectors are mapped
LinOf(g, c) ==
  CASE g.kind = "axes" -> PermMat(g.p)
    [] g.kind = "rot"  -> RotNum(g.q)
    [] g.kind = "dil"  -> MScale(g.p, IdMat(c.d))
    [] OTHER           -> IdMat(c.d)

(***************************************************************************)
(* Words: state = configuration + accumulated action.                      *)
(***************************************************************************)
Start(c) ==
  [c |-> c, ok |-> TRUE, pi |-> IdPerm(NPart(c)), sigma |-> IdPerm(NSpecies(c)), ax |-> IdPerm(c.d),
   lin |-> IdMat(c.d), rotated |-> FALSE, dilated |-> FALSE, wrapped |-> FALSE, boxfixed |-> FALSE,
   imgfr |-> FALSE, S0 |-> c.S]

StepG(st, g) ==
  IF ~st.ok \/ ~GenOK(g, st.c) THEN [st EXCEPT !.ok = FALSE]
  ELSE LET c == st.c IN
  [st EXCEPT
     !.c     = Apply(g, c),
     !.pi    = IF g.kind = "relabel" THEN [i \in 1..NPart(c) |-> PermOf(g, NPart(c))[st.pi[i]]] ELSE st.pi,
     !.sigma = IF g.kind = "swap" THEN [a \in 1..NSpecies(c) |-> SwapOf(g, NSpecies(c))[st.sigma[a]]] ELSE st.sigma,
     !.ax    = IF g.kind = "axes" THEN [k \in 1..c.d |-> st.ax[g.p[k]]] ELSE st.ax,
     !.lin   = MatMul(LinOf(g, c), st.lin),
     !.rotated  = st.rotated \/ g.kind = "rot",
     !.dilated  = st.dilated \/ g.kind = "dil",
     !.wrapped  = st.wrapped \/ (g.kind = "trans" /\ g.wrap = 1),
     !.boxfixed = st.boxfixed \/ (g.kind = "trans" /\ g.box = 0 /\ g.wrap = 0),
     !.imgfr    = st.imgfr \/ (g.kind = "image" /\ g.fr # 0)]

RECURSIVE RunFrom(_, _, _)
RunFrom(st, w, k) == IF k > Len(w) THEN st ELSE RunFrom(StepG(st, w[k]), w, k + 1)
Run(c, w) == RunFrom(Start(c), w, 1)

\* lin lin^T = mm I
MM(st) == Dot(st.lin[1], st.lin[1])
IsSimilarity(st) == \A a, b \in 1..Len(st.lin) : Dot(st.lin[a], st.lin[b]) = (IF a = b THEN MM(st) ELSE 0)
\* real length factor^2 = mm S0^2 / S1^2  as an Exact rational
LenFactor2(st) == RNorm(MM(st) * st.S0 * st.S0, st.c.S * st.c.S)

\* inverse generators (for the group-law check): translation without re-wrapping, swap, axis permutation
Inverse(g, c) ==
  CASE g.kind = "trans"   -> [g EXCEPT !.t = VNeg(g.t)]
    [] g.kind = "swap"    -> g
    [] g.kind = "axes"    -> [g EXCEPT !.p = InvPerm(g.p)]
    [] OTHER              -> g

(***************************************************************************)
(* Pair vectors and the float-fragile decisions (ties).                    *)
(***************************************************************************)
ToPH(c) == [H |-> c.H, ppp |-> c.ppp, S |-> c.S, types |-> c.types, frames |-> c.frames, wn |-> c.wn, sharp |-> 0]

\* minimum-image vector from i to j in frame f (lower coefficient at an exact half-cell tie)
PV(c, f, i, j) == PH!Image1(c.H, VSub(c.frames[f][j], c.frames[f][i]), c.ppp)
PVTable(c, f)  == TLCEval([i \in 1..NPart(c) |-> [j \in 1..NPart(c) |-> IF i = j THEN Zero(c.d) ELSE PV(c, f, i, j)]])
HalfTie(c, f, i, j) == HasTie(c.H, VSub(c.frames[f][j], c.frames[f][i]), c.ppp)
Pairs(c) == {<<f, i, j>> \in (1..NFrames(c)) \X (1..NPart(c)) \X (1..NPart(c)) : i < j}

\* the thresholds (scaled lengths) against which pair distances are compared
S2RMax2x(c) == c.rn * (2 * c.nd - 1)                         \* 2 r_max = rn (2 nd - 1)
Thresholds2(c) ==      \* squares of the thresholds, times 4
  {4 * (k * c.wn) * (k * c.wn) : k \in 1..PH!NBins(ToPH(c))}
    \cup {4 * c.rc * c.rc} \cup {4 * c.R[a][b] * c.R[a][b] : a \in 1..Len(c.R), b \in 1..Len(c.R)}
    \cup {S2RMax2x(c) * S2RMax2x(c)}
\* displacement between consecutive and non-consecutive frames (wrapped trajectories: minimum image)
DispX(c, o, e, i)  == PH!Image1(c.H, VSub(c.frames[e][i], c.frames[o][i]), c.ppp)
DispXu(c, o, e, i) == VSub(c.frames[e][i], c.frames[o][i])
FramePairs(c) == {<<o, e>> \in (1..NFrames(c)) \X (1..NFrames(c)) : o < e}

\* no float-fragile decision anywhere in the configuration
PairTieFree(c) ==
  \A t \in Pairs(c) :
    /\ ~HalfTie(c, t[1], t[2], t[3])
    /\ Norm2(PV(c, t[1], t[2], t[3])) > 0
    /\ 4 * Norm2(PV(c, t[1], t[2], t[3])) \notin Thresholds2(c)
DispTieFree(c) ==
  \A p \in FramePairs(c) : \A i \in 1..NPart(c) :
    /\ ~HasTie(c.H, VSub(c.frames[p[2]][i], c.frames[p[1]][i]), c.ppp)
    /\ \A mode \in {"x", "xu"} :
         LET v == IF mode = "x" THEN DispX(c, p[1], p[2], i) ELSE DispXu(c, p[1], p[2], i) IN
         c.ad * c.ad * Norm2(v) # c.an * c.an * c.dia[c.types[i]] * c.dia[c.types[i]]
\* int(L_min / (2 w)) is float-fragile when the quotient is an integer
NBinsSafe(c) == PH!LMin(c) % (2 * c.wn) # 0
TieFree(c) == PairTieFree(c) /\ DispTieFree(c) /\ NBinsSafe(c)

\* exact relative margin of the closest decision: min |4 d2 - th| / th over pairs and thresholds, as a rational
RMin2(a, b) == IF RLt(a, b) THEN a ELSE b
RECURSIVE RMinSet(_)
RMinSet(X) == IF X = {} THEN <<1, 1>>
              ELSE LET x == CHOOSE y \in X : TRUE IN RMin2(x, RMinSet(X \ {x}))
Margin(c) ==
  RMinSet({RNorm(Abs(4 * Norm2(PV(c, t[1], t[2], t[3])) - th), th) : t \in Pairs(c), th \in Thresholds2(c)})

\* per-particle N-nearest decision: the nn-th and (nn+1)-th distances differ
NNSharpAt(T, i, n) ==
  LET e   == NB!NNExpected(T, i, n)
      off == NB!Offsets(e.sure)
  IN  n >= Len(T) - 1 \/ \E k \in 1..Len(e.sure) : off[k] + Cardinality(e.sure[k]) = n
\* tetrahedral: the four nearest are strictly nearer than the fifth
TetraSharpAt(T, i) == Len(T) >= 5 /\ NNSharpAt(T, i, 4)

(***************************************************************************)
(* Equivariance of the model observables:  Obs(g c) = g Obs(c).            *)
(* st = Run(c, w);  c2 = st.c.                                             *)
(***************************************************************************)
\* every minimum-image pair vector is mapped by lin, with the ids renamed
PairVectorsEquivariant(c, st) ==
  \A f \in 1..NFrames(c) :
    LET T == PVTable(c, f)  T2 == PVTable(st.c, f) IN
    \A i, j \in 1..NPart(c) : T2[st.pi[i]][st.pi[j]] = MatVec(st.lin, T[i][j])

\* hence all Gram matrices of bond stars are multiplied by mm: every rotational invariant
\* (q_l, Q_l, w_l via the addition theorem; tetrahedral cosines) is unchanged
GramInvariant(c, st) ==
  LET T == PVTable(c, 1)  T2 == PVTable(st.c, 1) IN
  \A i, j, k \in 1..NPart(c) :
    Dot(T2[st.pi[i]][st.pi[j]], T2[st.pi[i]][st.pi[k]]) = MM(st) * Dot(T[i][j], T[i][k])

\* ---- g(r): counts per bin, columns renamed by sigma ----------------------------------
ColIndex(K, col)  == CHOOSE q \in 1..Len(PH!ColSeq(K)) : PH!ColSeq(K)[q] = col
MapCol(sig, col)  == IF col = PH!Total THEN col ELSE PH!ColumnOfPair(sig[col[1]], sig[col[2]])
ColMapGr(c, st)   == LET K == NSpecies(c)  cols == PH!ColSeq(K) IN
                     [q \in 1..Len(cols) |-> <<PH!ColName(cols[q]), PH!ColName(MapCol(st.sigma, cols[q]))>>]
HistEquivariant(c, st) ==
  LET K == NSpecies(c)  cols == PH!ColSeq(K)
      h == PH!Hist(ToPH(c))  h2 == PH!Hist(ToPH(st.c))
  IN  /\ h.nt = 0 /\ h2.nt = 0
      /\ PH!NBins(ToPH(st.c)) = PH!NBins(ToPH(c))
      /\ \A q \in 1..Len(cols) : h2.base[ColIndex(K, MapCol(st.sigma, cols[q]))] = h.base[q]
      \* bin centres and widths scale with the lengths: (wn2 / S2)^2 = LenFactor2 (wn / S)^2
      /\ LET lf == LenFactor2(st) IN
         st.c.wn * st.c.wn * c.S * c.S * lf[2] = lf[1] * c.wn * c.wn * st.c.S * st.c.S

\* ---- S(q): integer circular correlations, wave vectors mapped with the axes --------------
RECURSIVE LcmSeq(_)
LcmSeq(s) == IF s = << >> THEN 1 ELSE LET r == LcmSeq(Tail(s)) IN (Head(s) * r) \div Gcd(Head(s), r)
ToDM(c) ==
  LET L == [k \in 1..c.d |-> c.H[k][k]]
      M == LcmSeq(L)
  IN  [L |-> L, S |-> c.S, M |-> M, types |-> c.types,
       frames |-> [f \in 1..NFrames(c) |-> [i \in 1..NPart(c) |-> [k \in 1..c.d |-> c.frames[f][i][k] * (M \div L[k])]]],
       sel |-> [kind |-> "list", vecs |-> c.vecs]]
SqColName(col) == DM!ColName(col)
ColMapSq(c, st) == LET K == NSpecies(c)  cols == DM!ColSeq(K) IN
                   [q \in 1..Len(cols) |-> <<DM!ColName(cols[q]), DM!ColName(MapCol(st.sigma, cols[q]))>>]
\* every particle's phase exp(-i q.r) is multiplied by ONE common factor zeta^s per frame (translation:
\* s = -n.t M/L; image shifts and re-wrapping: multiples of M; relabelling, swap, axis permutation: 0),
\* so rho_a'(q') = zeta^s rho_a(q) for every species and S'_{sigma a, sigma b} = S_ab
CommonPhase(c, st, dm, dm2, n, f) ==
  Cardinality({(DM!PhaseClass(dm2, st.c.vecs[n], dm2.frames[f][st.pi[i]]) - DM!PhaseClass(dm, c.vecs[n], dm.frames[f][i])) % dm.M
                 : i \in 1..NPart(c)}) = 1
ModesEquivariant(c, st) ==
  (IsDiagonal(c.H) /\ ~st.rotated /\ ~st.dilated) =>
    LET dm == ToDM(c)  dm2 == ToDM(st.c)
        sg(a) == IF a = 0 THEN 0 ELSE st.sigma[a]
    IN  /\ Len(dm2.sel.vecs) = Len(dm.sel.vecs) /\ dm2.M = dm.M
        /\ \A n \in 1..Len(c.vecs) :
             /\ st.c.vecs[n] = PermVec(st.ax, c.vecs[n])
             /\ DM!NormKey(dm2, st.c.vecs[n]) = DM!NormKey(dm, c.vecs[n])
             /\ \A f \in 1..NFrames(c) : CommonPhase(c, st, dm, dm2, n, f)
        \* and, through the definitions of module DensityModes, for one generic vector: the integer
        \* circular correlations W_ab (hence S_ab) are equal with the columns renamed (cells whose phase
        \* grid is small enough for the O(M^3) sequence arithmetic of that module)
        /\ dm.M <= 21 =>
           LET n == 4
               CT == DM!CountTable(dm, c.vecs[n])  CT2 == DM!CountTable(dm2, st.c.vecs[n]) IN
           \A a, b \in 0..NSpecies(c) :
             (((a = 0) <=> (b = 0)) /\ a <= b) => DM!WT(dm2, CT2, sg(a), sg(b)) = DM!WT(dm, CT, a, b)

\* ---- neighbour sets (canonical lists with tie groups) ----------------------------------
MapGroups(pi, gs) == [k \in 1..Len(gs) |-> {pi[j] : j \in gs[k]}]
NeighborsEquivariant(c, st) ==
  \A f \in 1..NFrames(c) :
    LET T == NB!DT(ToPH(c), f)  T2 == NB!DT(ToPH(st.c), f) IN
    \A i \in 1..NPart(c) :
      LET i2 == st.pi[i]
          e1 == NB!NNExpected(T, i, c.nn)                  f1 == NB!NNExpected(T2, i2, st.c.nn)
          e2 == NB!CutExpected(T, 0, i, c.rc)              f2 == NB!CutExpected(T2, 0, i2, st.c.rc)
          e3 == NB!CutTypeExpected(T, c.types, 0, i, c.R)  f3 == NB!CutTypeExpected(T2, st.c.types, 0, i2, st.c.R)
      IN  /\ ~NB!AmbiguousT(T, i) /\ ~NB!AmbiguousT(T2, i2)
          /\ f1.sure = MapGroups(st.pi, e1.sure) /\ f1.take = e1.take
          /\ f2.sure = MapGroups(st.pi, e2.sure) /\ e2.maybe = {} /\ f2.maybe = {}
          /\ f3.sure = MapGroups(st.pi, e3.sure) /\ e3.maybe = {} /\ f3.maybe = {}
          /\ NNSharpAt(T, i, c.nn) = NNSharpAt(T2, i2, st.c.nn)

\* ---- bonds of the GIVEN neighbour lists; psi_l; q_l^2 by the addition theorem -----------
BondsOf(c, f) == [i \in 1..NPart(c) |-> [k \in 1..Len(c.nb[f][i]) |-> PV(c, f, i, c.nb[f][i][k])]]
BondsEquivariant(c, st) ==
  \A f \in 1..Len(c.nb) :
    LET B == BondsOf(c, f)  B2x == BondsOf(st.c, f) IN
    \A i \in 1..NPart(c) :
      /\ Len(B2x[st.pi[i]]) = Len(B[i])
      /\ \A k \in 1..Len(B[i]) : B2x[st.pi[i]][k] = MatVec(st.lin, B[i][k])
      \* the given weights stay with their bonds (weighted q_lm = sum_k w_k Y_lm(bond_k) / sum_k w_k)
      /\ st.c.wt[f][st.pi[i]] = c.wt[f][i] /\ Len(c.wt[f][i]) = Len(B[i])

\* 2-D: lin is z -> rho z (det > 0) or z -> rho conj z (det < 0), rho = first column of lin
Rho(st)      == <<st.lin[1][1], st.lin[2][1]>>
Reflects(st) == Det(st.lin) < 0
GConj(z)     == <<z[1], 0 - z[2]>>
LinIsComplex(st) == \A z \in {<<1, 0>>, <<0, 1>>, <<2, 0 - 3>>} :
                      MatVec(st.lin, z) = B2!LMul(0, Rho(st), IF Reflects(st) THEN GConj(z) ELSE z)
\* per bond: (rho z)^l = rho^l z^l and |rho z|^2 = |rho|^2 |z|^2, so
\* exp(i l theta') = (rho/|rho|)^l exp(i l theta)  [conjugated first under a reflection]:
\* psi_l' = (rho/|rho|)^l psi_l  or  (rho/|rho|)^l conj(psi_l); the modulus is unchanged
PsiCovariant(c, st, l) ==
  c.d = 2 =>
    /\ LinIsComplex(st)
    /\ \A i \in 1..NPart(c) : \A k \in 1..Len(c.nb[1][i]) :
         LET z  == BondsOf(c, 1)[i][k]
             z2 == BondsOf(st.c, 1)[st.pi[i]][k]
             zc == IF Reflects(st) THEN GConj(z) ELSE z
         IN  /\ B2!LPow(0, z2, l) = B2!LMul(0, B2!LPow(0, Rho(st), l), B2!LPow(0, zc, l))
             /\ B2!LNorm(0, z2) = B2!LNorm(0, Rho(st)) * B2!LNorm(0, z)
PsiPhaseT(st, l) == B2!RhoPowT(Rho(st), l)           \* the factor (rho/|rho|)^l as a term

\* 3-D, even l, words that do not rescale (small integers): q_l^2 = A(i,i) exactly
ToFr(c, f) == [pos |-> c.frames[f], nl |-> c.nb[f], w |-> << >>]
QlExactInvariant(c, st, l) ==
  (c.d = 3 /\ MM(st) = 1) =>
    \A i \in 1..NPart(c) :
      \* (bonds with small integer components only: the exact rationals of module Boo3D stay below 2^31)
      (Len(c.nb[1][i]) > 0 /\ \A k \in 1..Len(c.nb[1][i]) : Norm2(BondsOf(c, 1)[i][k]) <= 50) =>
        B3!AExact(st.c.H, st.c.ppp, ToFr(st.c, 1), l, st.pi[i], st.pi[i], 30) = B3!AExact(c.H, c.ppp, ToFr(c, 1), l, i, i, 30)

\* ---- tetrahedral order: the four nearest, as a set -----------------------------------------
TetraEquivariant(c, st) ==
  (c.d = 3 /\ NPart(c) >= 5) =>
    LET rt == LO!TeTable(c.H, c.ppp, c.frames[1])  rt2 == LO!TeTable(st.c.H, st.c.ppp, st.c.frames[1])
        T  == NB!DT(ToPH(c), 1)
    IN  \A i \in 1..NPart(c) :
          TetraSharpAt(T, i) => {st.pi[j] : j \in Range(LO!TeFour(rt, i))} = Range(LO!TeFour(rt2, st.pi[i]))

\* ---- gyration tensor of the cloud frames[1]:  G' = lin G lin^T -------------------------------
GyrationEquivariant(c, st) ==
  LO!GyNum(st.c.frames[1]) = MatMul(MatMul(st.lin, LO!GyNum(c.frames[1])), Transpose(st.lin))

\* ---- participation ratio of the field: norms scale uniformly -----------------------------------
FieldEquivariant(c, st) ==
  /\ \A i \in 1..NPart(c) : st.c.field[st.pi[i]] = MatVec(st.lin, c.field[i])
  /\ (MM(st) <= 25 /\ VF!PRDefined(c.field)) => VF!PR(st.c.field) = VF!PR(c.field)

\* ---- displacements (relaxation functions): wrapped trajectories by minimum image, unwrapped raw ----
DispEquivariant(c, st) ==
  \A p \in FramePairs(c) : \A i \in 1..NPart(c) :
    /\ DispX(st.c, p[1], p[2], st.pi[i]) = MatVec(st.lin, DispX(c, p[1], p[2], i))
    /\ (~st.wrapped /\ ~st.imgfr) => DispXu(st.c, p[1], p[2], st.pi[i]) = MatVec(st.lin, DispXu(c, p[1], p[2], i))

\* ---- species-indexed tables follow the labels -----------------------------------------------------
TablesEquivariant(c, st) ==
  LET m == st.c.wn \div c.wn IN       \* integer length factor of the representation
  /\ st.c.wn = m * c.wn /\ st.c.rc = m * c.rc /\ st.c.rn = m * c.rn
  /\ \A a, b \in 1..NSpecies(c) :
       /\ st.c.R[st.sigma[a]][st.sigma[b]] = m * c.R[a][b]
       /\ st.c.E[st.sigma[a]][st.sigma[b]] = c.E[a][b]
  /\ \A a \in 1..NSpecies(c) : st.c.dia[st.sigma[a]] = m * c.dia[a] /\ st.c.ms[st.sigma[a]] = c.ms[a]
  /\ \A i \in 1..NPart(c) : st.c.types[st.pi[i]] = st.sigma[c.types[i]]

\* ---- the transformed configuration is again a legal input -----------------------------------------
WellFormed(c) ==
  /\ IsPermutedLAMMPS(c.H)
  /\ Range(c.types) = 1..NSpecies(c)
  /\ \A f \in 1..Len(c.nb) : \A i \in 1..NPart(c) : \A k \in 1..Len(c.nb[f][i]) :
       c.nb[f][i][k] \in (1..NPart(c)) \ {i}
  /\ Len(c.wt) = Len(c.nb)
  /\ \A f \in 1..Len(c.wt) : \A i \in 1..NPart(c) :
       Len(c.wt[f][i]) = Len(c.nb[f][i]) /\ \A k \in 1..Len(c.wt[f][i]) : c.wt[f][i][k] >= 1
ActionWellFormed(c, st) ==
  /\ IsPerm(st.pi, NPart(c)) /\ IsPerm(st.sigma, NSpecies(c)) /\ IsPerm(st.ax, c.d)
  /\ IsSimilarity(st)
  /\ st.rotated => AllZero(c.ppp)
  /\ st.c.ppp = PermVec(st.ax, c.ppp)

\* ---- the cell itself: renumbered with the axes and scaled with the lengths; a permuted LAMMPS cell keeps its
\* edge lengths on the diagonal (in permuted order) and its volume is still the product of the diagonal, which is
\* what the library reads as `boxlength` (bin range L_min / 2, normalising volume)
DiagOf(H)  == [k \in 1..Len(H) |-> H[k][k]]
CellEquivariant(c, st) ==
  LET m == st.c.wn \div c.wn IN
  /\ st.c.H = MScale(m, PermCell(st.ax, c.H))
  /\ DiagOf(st.c.H) = VScale(m, PermVec(st.ax, DiagOf(c.H)))
  /\ Abs(Det(c.H)) = ProdSeq(DiagOf(c.H)) /\ Abs(Det(st.c.H)) = ProdSeq(DiagOf(st.c.H))
\* the word exchanges the axes of a tilted cell: cell and image differ although their edge lengths agree as sets
\* (and agree as sequences when equal edges are exchanged)
TiltedAxesWord(c, st) == ~IsDiagonal(c.H) /\ st.c.H # MScale(st.c.wn \div c.wn, c.H)
SameDiagOtherCell(c, st) == TiltedAxesWord(c, st) /\ DiagOf(st.c.H) = VScale(st.c.wn \div c.wn, DiagOf(c.H))

(***************************************************************************)
(* Which observable is expected to respect which word, and how.            *)
(* (relation kinds are interpreted by the conformance driver)              *)
(*   gr       columns renamed by sigma, r scaled, values equal             *)
(*   sq       orthogonal cells; columns renamed, q scaled inversely        *)
(*   nn/cut/cuttype/voro   neighbour sets with ids renamed by pi           *)
(*   boo3/tetra/s2         per-particle values permuted by pi              *)
(*   boo2     |psi| permuted by pi; psi itself multiplied by the phase     *)
(*   hess     spectrum and participation ratios equal (scaled if dilated)  *)
(*   relax_x / relax_xu / logrelax   the tables are equal; a rotation      *)
(*            leaves every column except the axis-wise ISF                 *)
(*   gyr      shape descriptors (lengths scaled); pr scalar equal          *)
(***************************************************************************)
ObsNames == <<"gr", "sq", "nn", "cut", "cuttype", "voro", "boo3", "boo2", "tetra", "s2", "hess",
              "relax_x", "relax_xu", "logrelax", "gyr", "pr">>
\* what matters of a configuration for applicability: its shape
Shape(c) == [d |-> c.d, diag |-> IsDiagonal(c.H), ppp |-> c.ppp, nfr |-> NFrames(c), n |-> NPart(c)]
Respects(ob, sh, st) ==
  LET periodic == ~AllZero(sh.ppp)
      full     == \A k \in 1..sh.d : sh.ppp[k] = 1
      base ==
        CASE ob = "gr"      -> TRUE
          [] ob = "sq"      -> sh.diag /\ ~st.rotated
          [] ob \in {"nn", "cut", "cuttype"} -> TRUE
          [] ob = "voro"    -> sh.diag /\ full /\ ~st.rotated
          [] ob = "boo3"    -> sh.d = 3
          [] ob = "boo2"    -> sh.d = 2
          [] ob = "tetra"   -> sh.d = 3 /\ sh.n >= 5
          [] ob = "s2"      -> TRUE
          [] ob = "hess"    -> TRUE
          [] ob = "relax_x" -> sh.nfr >= 2 /\ periodic /\ ~st.rotated /\ ~st.dilated
          [] ob \in {"relax_xu", "logrelax"} -> sh.nfr >= 2 /\ ~st.wrapped /\ ~st.imgfr /\ ~st.dilated
          [] ob = "gyr"     -> ~periodic
          [] ob = "pr"      -> TRUE
  IN  st.ok /\ base
ObsOf(c, st) == SelectSeq(ObsNames, LAMBDA ob : Respects(ob, Shape(c), st))

(***************************************************************************)
(* Degrees of the 3-D bond-order observables.  The Gram matrices of the    *)
(* bond stars are invariant (GramInvariant), hence q_l, Q_l, w_l, w-hat_l  *)
(* of EVERY degree l are (addition theorem).  The library evaluates the    *)
(* harmonics with one tabulated routine per degree l = 1..10 and a general *)
(* branch for l > 10, so the degree is part of the scope:                  *)
(*   big inputs (N > 40)            l = 6 only (cost)                      *)
(*   small inputs                   l = 4, 6 with q, Q, w, w-hat, W-hat;   *)
(*     words whose linear map is not a multiple of the identity (axis      *)
(*     permutations, rotations: the only ones that move bond DIRECTIONS)   *)
(*     in addition l = 12 (general branch; q, Q, w, w-hat) and q, Q of     *)
(*     every other degree 1..13 (each tabulated routine, and the odd       *)
(*     degrees 11, 13 of the general branch)                               *)
(* Entries <<l, kind>>: kind 2 = q Q w w-hat W-hat, 1 = q Q w w-hat, 0 = q Q *)
(* (q, Q of every listed degree also with the given weights wt)            *)
(***************************************************************************)
ScalarLin(st) == \A a, b \in 1..Len(st.lin) : a # b => st.lin[a][b] = 0
OtherDegrees  == <<1, 2, 3, 5, 7, 8, 9, 10, 11, 13>>
BooDegrees(n, st) ==
  IF n > 40 THEN << <<6, 2>> >>
  ELSE IF ScalarLin(st) THEN << <<4, 2>>, <<6, 2>> >>
  ELSE << <<4, 2>>, <<6, 2>>, <<12, 1>> >> \o [k \in 1..Len(OtherDegrees) |-> <<OtherDegrees[k], 0>>]

(***************************************************************************)
(* Evaluation schedule.  The property speaks about configurations, not     *)
(* about processes: the relation must hold whichever configurations the    *)
(* same process has analysed before (a user script loops over many), so    *)
(* base ("b") and transformed ("t") configuration are evaluated in ONE     *)
(* process, writing to the SAME output file names, in the order given      *)
(* here; every "t" result is compared with every "b" result.  Words that   *)
(* renumber the axes of a periodic cell are evaluated in both orders       *)
(* (small inputs, and every tilted cell: there the two cells share their   *)
(* edge lengths but not their tilts).                                      *)
(***************************************************************************)
Schedule(sh, st) ==
  IF st.ax # IdPerm(sh.d) /\ ~AllZero(sh.ppp) /\ (~sh.diag \/ sh.n <= 40) THEN <<"b", "t", "b">> ELSE <<"b", "t">>
=============================================================================
