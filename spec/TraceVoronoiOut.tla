-------------------------- MODULE TraceVoronoiOut --------------------------
(***************************************************************************)
(* Trace validation for C20 (direction B).  A session is                   *)
(*                                                                         *)
(*  files   the three files cal_neighbors wrote for 1..3 frames, parsed    *)
(*          into integer lines (VoronoiOut.tla, `fs`); d = dimension.      *)
(*          Accepted iff WhyFilesT(fs, tolerate) = "" (tolerate = 1 only   *)
(*          after the small-face pattern of this record was reported).     *)
(*          Opens both list files: the                                     *)
(*          cursors of the neighbour file and of the weight file become 0. *)
(*  read    one call read_neighbors(handle, N, nmax) on the neighbour      *)
(*          ("nb") or weight ("w") handle; obs = returned matrix (weights  *)
(*          in quanta), tell = line position of the handle afterwards.     *)
(*          The cursor is a variable of this specification.                *)
(*  files_ref  the files cal_neighbors wrote for the ONE-frame trajectory  *)
(*          holding frame k of the session's trajectory: the lines of     *)
(*          frame k in the trajectory's files must agree (FrameLocal) -   *)
(*          the tessellation of a frame depends on that frame alone.      *)
(*  vm_ref  VolumeMatrix on a ONE-frame trajectory holding frame k (index  *)
(*          0), raw (tr = 0) or transformed (tr = 1) -> remembered.        *)
(*  vm      VolumeMatrix(all frames, nconfig = k): must have the right     *)
(*          shape, rows summing to zero over each displaced coordinate,    *)
(*          equal the remembered matrix of frame k (the REQUESTED frame),  *)
(*          and (raw, loc = 1: small displacement) respond only to the     *)
(*          Voronoi neighbours listed for frame k                          *)
(***************************************************************************)
EXTENDS VoronoiOut, Json, IOUtils

Tr == ndJsonDeserialize(IOEnv.TRACE_FILE)

VARIABLES l, bad, fs, d, cnb, cw, ref
vars == <<l, bad, fs, d, cnb, cw, ref>>

\* frame that starts after c consumed lines of a list file (0 if c is not a frame boundary)
FrameAt(c) == IF \E f \in Frames(fs) : OffB(fs, f) = c THEN CHOOSE f \in Frames(fs) : OffB(fs, f) = c ELSE 0

RefKey(k, tr) == 2 * k + tr + 1          \* slot of (frame index k, transformed?) in ref
Tol(n, dd, tr) == IF tr = 1 THEN n * dd + 100 ELSE n + 2
SupportTol == 2000                       \* 2e-3: finite differences over topology changes

WhyRead(rec) ==
  LET c  == IF rec.file = "nb" THEN cnb ELSE cw
      ls == IF rec.file = "nb" THEN fs.nb ELSE fs.w
      f  == FrameAt(c)
  IN  IF f = 0 THEN "FramesInOrder"
      ELSE IF rec.obs # ReadMatrix(ls, c, fs.N[f], rec.nmax) THEN "ReadableByNeighborReader"
      ELSE IF rec.tell # ReadNext(c, fs.N[f]) THEN "Cursor"
      ELSE ""

WhyVm(rec) ==
  LET f == rec.k + 1
      n == fs.N[f]
      rows == IF rec.tr = 1 THEN n * d ELSE n
  IN  IF ~VmShape(rec.obs, rows, n, d) THEN "VolumeMatrixShape"
      ELSE IF ~RowSumsZero(rec.obs, n, d, Tol(n, d, rec.tr)) THEN "RowsSumToZero"
      ELSE IF rec.op = "vm" /\ ref[RefKey(rec.k, rec.tr)] # << >> /\ rec.obs # ref[RefKey(rec.k, rec.tr)] THEN "RequestedFrame"
      ELSE IF rec.tr = 0 /\ rec.loc = 1 /\ ~LocalSupport(rec.obs, fs, f, d, SupportTol) THEN "RequestedFrame:LocalSupport"
      ELSE IF rec.tr = 0 /\ ~SomeResponse(rec.obs, fs, f, d, SupportTol) THEN "RequestedFrame:NoResponse"
      ELSE ""

WhyRef(rec) ==
  IF rec.k + 1 \notin Frames(fs) THEN "UnknownFrame"
  ELSE IF ~Layout(rec.fs) \/ NF(rec.fs) # 1 THEN "Layout"
  ELSE IF ~FrameLocalAt(fs, rec.k + 1, rec.fs) THEN "FrameLocal"
  ELSE ""

Why(rec) ==
  IF rec.op = "files" THEN WhyFilesT(rec.fs, rec.tolerate)
  ELSE IF rec.op = "files_ref" THEN WhyRef(rec)
  ELSE IF rec.op = "read" THEN WhyRead(rec)
  ELSE IF rec.op \in {"vm", "vm_ref"} THEN WhyVm(rec)
  ELSE "UnknownOp"

Init == l = 1 /\ bad = "" /\ fs = [N |-> << >>] /\ d = 0 /\ cnb = 0 /\ cw = 0 /\ ref = << >>
Step ==
  /\ l <= Len(Tr) /\ bad = ""
  /\ LET rec == Tr[l] w == Why(rec) IN
     IF w # "" THEN l' = l /\ bad' = w /\ UNCHANGED <<fs, d, cnb, cw, ref>>
     ELSE /\ l' = l + 1 /\ bad' = ""
          /\ IF rec.op = "files"
             THEN fs' = rec.fs /\ d' = rec.d /\ cnb' = 0 /\ cw' = 0 /\ ref' = [x \in 1..(2 * Len(rec.fs.N)) |-> << >>]
             ELSE IF rec.op = "read"
             THEN /\ cnb' = IF rec.file = "nb" THEN rec.tell ELSE cnb
                  /\ cw'  = IF rec.file = "w" THEN rec.tell ELSE cw
                  /\ UNCHANGED <<fs, d, ref>>
             ELSE IF rec.op = "vm_ref"
             THEN ref' = [ref EXCEPT ![RefKey(rec.k, rec.tr)] = rec.obs] /\ UNCHANGED <<fs, d, cnb, cw>>
             ELSE UNCHANGED <<fs, d, cnb, cw, ref>>
Spec == Init /\ [][Step]_vars
Accepted == bad = ""
=============================================================================
