----------------------------- MODULE LammpsDump -----------------------------
(***************************************************************************)
(* LAMMPS text dumps and their reader (property C01; the same grammar is   *)
(* used by the auxiliary readers of C19).                                  *)
(*                                                                         *)
(* PHYSICAL FRAME  P (what a simulation holds):                            *)
(*   ts, ndim, style ("x" | "xs" | "xu"), tri (0 | 1),                     *)
(*   lo, L   3-vectors: origin and edge lengths of the cell                *)
(*   tilt    <<xy, xz, yz>>  (0,0,0 when tri = 0; xz = yz = 0 in 2-D)      *)
(*   atoms   sequence over ids 1..N of [type, co] with co a 3-vector:      *)
(*           Cartesian coordinates for "x"/"xu", fractional numerators     *)
(*           over SD for "xs"                                              *)
(*   order   permutation of 1..N: the order of the atom lines              *)
(*   extra   number of trailing columns of every atom line                 *)
(* All lengths are integers in units of 1/S.                               *)
(*                                                                         *)
(* FILE = sequence of lines; a header line is a sequence of strings, a     *)
(* numeric line a sequence of pairs <<n, d>> (the number n/d).             *)
(*                                                                         *)
(* Encode(P)  : the LAMMPS writer convention (docs.lammps.org,             *)
(*              Howto_triclinic): the file carries the BOUNDING box of a   *)
(*              triclinic cell and the tilts.                              *)
(* Meaning(P) : the snapshot the reader must deliver, from P directly.     *)
(* Parse(...) : the reader: what one ReadFrame delivers from the lines at  *)
(*              the cursor, by the documented inverse formulas.            *)
(* RoundTrip  : Parse(Encode(P)) = Meaning(P).                             *)
(***************************************************************************)
EXTENDS Exact, TLC

CONSTANTS S, SD          \* length scale and denominator of scaled coordinates
DEN == S * SD            \* every delivered number is an integer over DEN

NAtoms(P) == Len(P.atoms)
Min4(a, b, c, d) == Min2(Min2(a, b), Min2(c, d))
Max4(a, b, c, d) == Max2(Max2(a, b), Max2(c, d))

\* ---------------------------------------------------------------- writer side
XY(P) == P.tilt[1]
XZ(P) == P.tilt[2]
YZ(P) == P.tilt[3]
BoundLo(P) == << P.lo[1] + Min4(0, XY(P), XZ(P), XY(P) + XZ(P)), P.lo[2] + Min2(0, YZ(P)), P.lo[3] >>
BoundHi(P) == << P.lo[1] + P.L[1] + Max4(0, XY(P), XZ(P), XY(P) + XZ(P)),
                 P.lo[2] + P.L[2] + Max2(0, YZ(P)), P.lo[3] + P.L[3] >>

NumTok(n)  == <<n, S>>
IntTok(n)  == <<n, 1>>
FracTok(n) == <<n, SD>>
CoordNames(P) ==
  LET three == IF P.style = "x" THEN <<"x", "y", "z">>
               ELSE IF P.style = "xs" THEN <<"xs", "ys", "zs">> ELSE <<"xu", "yu", "zu">>
  IN  SubSeq(three, 1, P.ndim)
ExtraNames == <<"vx", "vy">>
AtomLine(P, id) ==
  LET a == P.atoms[id] IN
  <<IntTok(id), IntTok(a.type)>>
    \o [k \in 1..P.ndim |-> IF P.style = "xs" THEN FracTok(a.co[k]) ELSE NumTok(a.co[k])]
    \o [k \in 1..P.extra |-> NumTok(17 * id + k)]
Encode(P) ==
  << <<"ITEM:", "TIMESTEP">>, <<IntTok(P.ts)>>,
     <<"ITEM:", "NUMBER", "OF", "ATOMS">>, <<IntTok(NAtoms(P))>> >>
  \o (IF P.tri = 1
      THEN << <<"ITEM:", "BOX", "BOUNDS", "xy", "xz", "yz", "pp", "pp", "pp">>,
              <<NumTok(BoundLo(P)[1]), NumTok(BoundHi(P)[1]), NumTok(XY(P))>>,
              <<NumTok(BoundLo(P)[2]), NumTok(BoundHi(P)[2]), NumTok(XZ(P))>>,
              <<NumTok(BoundLo(P)[3]), NumTok(BoundHi(P)[3]), NumTok(YZ(P))>> >>
      ELSE << <<"ITEM:", "BOX", "BOUNDS", "pp", "pp", "pp">> >>
           \o [k \in 1..3 |-> <<NumTok(P.lo[k]), NumTok(P.lo[k] + P.L[k])>>])
  \o << <<"ITEM:", "ATOMS", "id", "type">> \o CoordNames(P) \o SubSeq(ExtraNames, 1, P.extra) >>
  \o [m \in 1..NAtoms(P) |-> AtomLine(P, P.order[m])]

FrameLen(n) == 9 + n
RECURSIVE EncodeAll(_)
EncodeAll(Ps) == IF Ps = << >> THEN << >> ELSE Encode(Head(Ps)) \o EncodeAll(Tail(Ps))

\* ---------------------------------------------------------------- meaning
\* all delivered lengths in units of 1/DEN
Up(x) == x * SD
HRows(P) == << <<P.L[1], 0, 0>>, <<XY(P), P.L[2], 0>>, <<XZ(P), YZ(P), P.L[3]>> >>
Wrap1(x, lo, hi, len) == IF x < lo THEN x + len ELSE IF x > hi THEN x - len ELSE x
PosMeaning(P, id) ==
  LET co == P.atoms[id].co IN
  [k \in 1..P.ndim |->
     IF P.style = "xu" THEN Up(co[k])
     ELSE IF P.style = "x"
          THEN (IF P.tri = 1 THEN Up(co[k]) ELSE Up(Wrap1(co[k], P.lo[k], P.lo[k] + P.L[k], P.L[k])))
          ELSE \* lo + s . H with s = co / SD
               Up(P.lo[k]) + SumSeq([j \in 1..P.ndim |-> co[j] * HRows(P)[j][k]])]
Meaning(P) ==
  [ ts     |-> P.ts,
    n      |-> NAtoms(P),
    types  |-> [id \in 1..NAtoms(P) |-> P.atoms[id].type],
    pos    |-> [id \in 1..NAtoms(P) |-> PosMeaning(P, id)],
    boxlength |-> [k \in 1..P.ndim |-> Up(P.L[k])],
    bounds |-> [k \in 1..P.ndim |-> IF P.tri = 1 THEN <<Up(BoundLo(P)[k]), Up(BoundHi(P)[k])>>
                                    ELSE <<Up(P.lo[k]), Up(P.lo[k] + P.L[k])>>],
    real   |-> IF P.tri = 1 THEN [k \in 1..P.ndim |-> <<Up(P.lo[k]), Up(P.lo[k] + P.L[k])>>] ELSE << >>,
    h      |-> [i \in 1..P.ndim |-> [k \in 1..P.ndim |-> IF P.tri = 1 THEN Up(HRows(P)[i][k])
                                                          ELSE IF i = k THEN Up(P.L[i]) ELSE 0]] ]

\* ---------------------------------------------------------------- reader side
\* One ReadFrame of the reader on `lines` with the cursor at `cur` (0-based count of consumed
\* lines) for dimension ndim.  Returns [snap, next].  Values n/d of numeric tokens are taken in
\* units of 1/DEN (d divides DEN).
Val(tok) == tok[1] * (DEN \div tok[2])
Parse(lines, cur, ndim) ==
  LET ln(k)   == lines[cur + k]
      ts      == ln(2)[1][1]
      n       == ln(4)[1][1]
      boxhdr  == ln(5)
      tri     == IF "xy" \in Range(boxhdr) THEN 1 ELSE 0
      b(k)    == ln(5 + k)                       \* the three bounds lines (2-D files carry a z line too)
      xy      == IF tri = 1 THEN Val(b(1)[3]) ELSE 0
      xz      == IF tri = 1 THEN Val(b(2)[3]) ELSE 0
      yz      == IF tri = 1 THEN Val(b(3)[3]) ELSE 0
      lob(k)  == Val(b(k)[1])
      hib(k)  == Val(b(k)[2])
      lo      == << lob(1) - Min4(0, xy, xz, xy + xz), lob(2) - Min2(0, yz), lob(3) >>
      hi      == << hib(1) - Max4(0, xy, xz, xy + xz), hib(2) - Max2(0, yz), hib(3) >>
      len(k)  == hi[k] - lo[k]
      hrows   == << <<len(1), 0, 0>>, <<xy, len(2), 0>>, <<xz, yz, len(3)>> >>
      names   == SubSeq(ln(9), 3, Len(ln(9)))
      style   == IF "xs" \in Range(names) THEN "xs" ELSE IF "xu" \in Range(names) THEN "xu" ELSE "x"
      rows    == [m \in 1..n |-> ln(9 + m)]
      RowOf(id) == CHOOSE r \in Range(rows) : r[1][1] = id
      co(id, k) == RowOf(id)[2 + k]
      pos(id) ==
        [k \in 1..ndim |->
           IF style = "xu" THEN Val(co(id, k))
           ELSE IF style = "x"
                THEN (IF tri = 1 THEN Val(co(id, k)) ELSE Wrap1(Val(co(id, k)), lo[k], hi[k], len(k)))
                ELSE \* scaled: lo + s . H,  s = n/d exactly
                     lo[k] + SumSeq([j \in 1..ndim |-> (co(id, j)[1] * hrows[j][k]) \div co(id, j)[2]])]
  IN  [ snap |->
          [ ts     |-> ts,
            n      |-> n,
            types  |-> [id \in 1..n |-> RowOf(id)[2][1]],
            pos    |-> [id \in 1..n |-> pos(id)],
            boxlength |-> [k \in 1..ndim |-> len(k)],
            bounds |-> [k \in 1..ndim |-> <<lob(k), hib(k)>>],
            real   |-> IF tri = 1 THEN [k \in 1..ndim |-> <<lo[k], hi[k]>>] ELSE << >>,
            h      |-> [i \in 1..ndim |-> [k \in 1..ndim |-> IF tri = 1 THEN hrows[i][k]
                                                              ELSE IF i = k THEN len(i) ELSE 0]] ],
        next |-> cur + FrameLen(n) ]

RoundTrip(P) == Parse(Encode(P), 0, P.ndim).snap = Meaning(P)

\* wrapped coordinates end inside the box and moved by at most one box length
WrappedInside(P) ==
  (P.style = "x" /\ P.tri = 0) =>
    \A id \in 1..NAtoms(P) : \A k \in 1..P.ndim :
      LET w == PosMeaning(P, id)[k]
          x == Up(P.atoms[id].co[k])
      IN  /\ w >= Up(P.lo[k]) /\ w <= Up(P.lo[k] + P.L[k])
          /\ w - x \in {0, Up(P.L[k]), 0 - Up(P.L[k])}

\* the h-matrix is lower triangular with determinant = volume = product of the edge lengths
HMatrixIsCell(P) ==
  LET h == Meaning(P).h IN
  /\ \A i, k \in 1..P.ndim : k > i => h[i][k] = 0
  /\ \A i \in 1..P.ndim : h[i][i] = Up(P.L[i])

\* "" when the observed snapshot (integers over DEN) equals the expectation, else the clause
WhySnapshot(obs, exp) ==
  IF obs.exact # 1 THEN "ValuesOnTheFileLattice"
  ELSE IF obs.ts # exp.ts THEN "Timestep"
  ELSE IF obs.n # exp.n THEN "ParticleCount"
  ELSE IF obs.types # exp.types THEN "TypesById"
  ELSE IF obs.boxlength # exp.boxlength THEN "BoxLength"
  ELSE IF obs.bounds # exp.bounds THEN "Bounds"
  ELSE IF obs.real # exp.real THEN "RealBounds"
  ELSE IF obs.h # exp.h THEN "CellMatrix"
  ELSE IF obs.pos # exp.pos THEN "PositionsById"
  ELSE ""
(***************************************************************************)
(* Row-wise formulation of the same verdict, for frames with many atoms.   *)
(* Parse places every atom by searching its line (RowOf: quadratic in the  *)
(* particle number).  The same statement read the other way round is       *)
(* linear: the ids of the n atom lines are a permutation of 1..n, and for  *)
(* EVERY LINE the snapshot holds, at that line's id, the line's type and   *)
(* the position the line encodes.  MC_LammpsDump checks on its whole scope *)
(* that both formulations give the same verdict (InvRowwiseAgrees), for    *)
(* correct and for corrupted observations; the trace specification uses    *)
(* this one for large frames (size-dependent code paths of the reader).    *)
(***************************************************************************)
FrameHead(lines, cur, ndim) ==
  LET ln(k)   == lines[cur + k]
      tri     == IF "xy" \in Range(ln(5)) THEN 1 ELSE 0
      b(k)    == ln(5 + k)
      xy      == IF tri = 1 THEN Val(b(1)[3]) ELSE 0
      xz      == IF tri = 1 THEN Val(b(2)[3]) ELSE 0
      yz      == IF tri = 1 THEN Val(b(3)[3]) ELSE 0
      lob     == [k \in 1..3 |-> Val(b(k)[1])]
      hib     == [k \in 1..3 |-> Val(b(k)[2])]
      lo      == << lob[1] - Min4(0, xy, xz, xy + xz), lob[2] - Min2(0, yz), lob[3] >>
      hi      == << hib[1] - Max4(0, xy, xz, xy + xz), hib[2] - Max2(0, yz), hib[3] >>
      len     == [k \in 1..3 |-> hi[k] - lo[k]]
      names   == SubSeq(ln(9), 3, Len(ln(9)))
  IN  [ ts |-> ln(2)[1][1], n |-> ln(4)[1][1], tri |-> tri, lob |-> lob, hib |-> hib, lo |-> lo, hi |-> hi, len |-> len,
        hrows |-> << <<len[1], 0, 0>>, <<xy, len[2], 0>>, <<xz, yz, len[3]>> >>,
        style |-> IF "xs" \in Range(names) THEN "xs" ELSE IF "xu" \in Range(names) THEN "xu" ELSE "x" ]
RowPos(hd, row, ndim) ==
  [k \in 1..ndim |->
     IF hd.style = "xu" THEN Val(row[2 + k])
     ELSE IF hd.style = "x"
          THEN (IF hd.tri = 1 THEN Val(row[2 + k]) ELSE Wrap1(Val(row[2 + k]), hd.lo[k], hd.hi[k], hd.len[k]))
          ELSE hd.lo[k] + SumSeq([j \in 1..ndim |-> (row[2 + j][1] * hd.hrows[j][k]) \div row[2 + j][2]])]
WhySnapshotRows(obs, lines, cur, ndim) ==
  LET hd   == FrameHead(lines, cur, ndim)
      n    == hd.n
      ids  == [m \in 1..n |-> lines[cur + 9 + m][1][1]]
  IN  IF obs.exact # 1 THEN "ValuesOnTheFileLattice"
      ELSE IF obs.ts # hd.ts THEN "Timestep"
      ELSE IF obs.n # n \/ Len(obs.types) # n \/ Len(obs.pos) # n THEN "ParticleCount"
      ELSE IF Cardinality(Range(ids)) # n \/ \E m \in 1..n : ids[m] \notin 1..n THEN "MalformedFile:AtomIds"
      ELSE IF \E m \in 1..n : obs.types[ids[m]] # lines[cur + 9 + m][2][1] THEN "TypesById"
      ELSE IF obs.boxlength # [k \in 1..ndim |-> hd.len[k]] THEN "BoxLength"
      ELSE IF obs.bounds # [k \in 1..ndim |-> <<hd.lob[k], hd.hib[k]>>] THEN "Bounds"
      ELSE IF obs.real # (IF hd.tri = 1 THEN [k \in 1..ndim |-> <<hd.lo[k], hd.hi[k]>>] ELSE << >>) THEN "RealBounds"
      ELSE IF obs.h # [i \in 1..ndim |-> [k \in 1..ndim |-> IF hd.tri = 1 THEN hd.hrows[i][k] ELSE IF i = k THEN hd.len[i] ELSE 0]]
           THEN "CellMatrix"
      ELSE IF \E m \in 1..n : obs.pos[ids[m]] # RowPos(hd, lines[cur + 9 + m], ndim) THEN "PositionsById"
      ELSE ""
NextCur(lines, cur) == cur + FrameLen(lines[cur + 4][1][1])
=============================================================================
