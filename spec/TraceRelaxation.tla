-------------------------- MODULE TraceRelaxation --------------------------
(***************************************************************************)
(* Trace validation for C06 (direction B).  Every record is one call of    *)
(* Dynamics.relaxation (op "lin"), LogDynamics.relaxation ("log") or       *)
(* Dynamics.sq4 ("s4") recorded from the real code:                        *)
(*   [op, c (a Relaxation case, integers only), dt |-> <<n, d>>, tsq,      *)
(*    nt, numofq,                                                          *)
(*    obs |-> [rows  |-> rows of the returned frame,                       *)
(*             tq    |-> returned time column / dt as integers ("lin",     *)
(*                       "log"), tq_ok |-> 1 iff integral to 1e-9,         *)
(*             x4zero |-> 1 iff the whole X4_Qt column is exactly 0]]      *)
(* Call histories: a record with first = 0 is a further call on the        *)
(* analysis object sid of an earlier record; the variable ob maps every    *)
(* object to what it was constructed from and how many calls it has        *)
(* served.  Such a record must agree with it in everything the constructor *)
(* sees (clause BadSession otherwise); its expectation is computed from    *)
(* its own arguments and the trajectory only - ob is not an argument.      *)
(* rec.render (how the arguments were rendered: dict order, mask dtype,    *)
(* ...) is likewise not an argument of any expectation.                    *)
(* For each record the spec runs the loop state machine of Relaxation (one *)
(* Acc step per accumulated frame pair), then Finish decides the discrete  *)
(* observables (Why names the clause) and prints the expected rows /       *)
(* S4 groups as terms.                                                     *)
(***************************************************************************)
EXTENDS Relaxation, TLC, Json, IOUtils

Tr == ndJsonDeserialize(IOEnv.TRACE_FILE)

VARIABLES l, bad, st, ob
vars == <<l, bad, st, ob>>

\* what the constructor of the analysis object sees of a record
Ctor(rec) == [ cls |-> IF rec.op = "log" THEN "log" ELSE "lin", tsq |-> rec.tsq, dt |-> rec.dt,
               c |-> [rec.c EXCEPT !.q = 0, !.hasCond = 0, !.cond = << >>] ]
\* ob: the objects constructed so far, sid -> [ctor, calls]
SessionOK(rec) == rec.first = 1 \/ (rec.sid \in DOMAIN ob /\ ob[rec.sid].ctor = Ctor(rec))
CallNo(rec) == IF rec.first = 1 THEN 1 ELSE ob[rec.sid].calls + 1

WellFormed(rec) ==
  LET c == rec.c IN
  /\ rec.op = "s4" => IsDiagonal(c.H)
  /\ \A f \in 1..c.T : \A i \in 1..c.N : \A k \in 1..c.d :
        FracNum(c.H, VSub(c.x[f][i], c.xu[f][i]))[k] % FracDen(c.H) = 0
  /\ c.mode = "x" => WrapConsistent(c)
  /\ \A f \in 1..c.T : \E i \in 1..c.N : c.cond[f][i] = 1
  /\ \A f \in 1..c.T : \A i \in 1..c.N : Len(c.nb[f][i]) >= 1
  /\ rec.op = "s4" => rec.nt < c.T

NRows(rec) == IF rec.op = "s4" THEN 0 ELSE rec.c.T - 1
Why(rec) ==
  IF ~WellFormed(rec) THEN "BadInput"
  ELSE IF ~SessionOK(rec) THEN "BadSession"
  ELSE IF rec.op = "s4" THEN ""
  ELSE IF rec.obs.rows # NRows(rec) THEN "Rows"
  ELSE IF rec.obs.tq_ok # 1 THEN "TimeAxis"
  ELSE IF \E k \in 1..NRows(rec) : rec.obs.tq[k] # rec.tsq[k + 1] - rec.tsq[1] THEN "TimeAxis"
  ELSE IF rec.op = "log" /\ rec.obs.x4zero # 1 THEN "LogChi4Zero"
  ELSE ""

Expected(rec, state) ==
  [ rec    |-> l, op |-> rec.op, counts |-> state.counts,
    call   |-> CallNo(rec),
    rows   |-> IF rec.op = "s4" THEN << >>
               ELSE [k \in 1..(rec.c.T - 1) |-> RowT(rec.c, rec.op, k, rec.tsq, rec.dt)],
    s4     |-> IF rec.op = "s4" THEN S4Exp(rec.c, rec.nt, rec.numofq) ELSE << >> ]

Init == /\ l = 1 /\ bad = "" /\ ob = << >>
        /\ st = IF Len(Tr) >= 1 THEN StInit(Tr[1].c, Tr[1].op, Tr[1].nt) ELSE [done |-> TRUE]
Acc == /\ l <= Len(Tr) /\ bad = "" /\ ~st.done
       /\ st' = StAcc(Tr[l].c, Tr[l].op, st, FALSE)
       /\ UNCHANGED <<l, bad, ob>>
Finish == /\ l <= Len(Tr) /\ bad = "" /\ st.done
          /\ LET w == Why(Tr[l]) IN
             IF w = ""
             THEN /\ PrintT(ToJson(Expected(Tr[l], st)))
                  /\ l' = l + 1 /\ bad' = ""
                  /\ st' = IF l + 1 <= Len(Tr) THEN StInit(Tr[l + 1].c, Tr[l + 1].op, Tr[l + 1].nt) ELSE st
                  /\ ob' = [s \in (DOMAIN ob) \cup {Tr[l].sid} |->
                              IF s = Tr[l].sid THEN [ctor |-> Ctor(Tr[l]), calls |-> CallNo(Tr[l])] ELSE ob[s]]
             ELSE /\ bad' = w /\ UNCHANGED <<l, st, ob>>
Next == Acc \/ Finish
Spec == Init /\ [][Next]_vars

Accepted == bad = ""
\* model-level: the loop state carried by the trace spec accumulated exactly the pairs of the definition
TraceAlgDef == (l <= Len(Tr) /\ st.done) =>
                  /\ CountsPerLag(Tr[l].c, Tr[l].op, Tr[l].nt, st)
                  /\ PairsAreDefinition(Tr[l].c, Tr[l].op, Tr[l].nt, st)
                  /\ NoPairTwice(st)
=============================================================================
