-------------------------- MODULE GridIndexLemma --------------------------
(* Unbounded lemma behind CoarseGrain!FlatIndexIsBijection (property C16):  *)
(* for ALL grid shapes nx, ny, nz >= 1 the row-major index                  *)
(* (i ny + j) nz + k  (x slowest) maps [0,nx) x [0,ny) x [0,nz) injectively *)
(* into [0, nx ny nz) - hence, the sets having equal size, bijectively:     *)
(* every grid point gets its own slot and every slot is written once.       *)
(* Checked with Apalache (--length=0); the deliberately false variant with  *)
(* the index (i nx + j) ny + k must be refuted.                             *)
EXTENDS Integers
VARIABLES
  \* @type: Int;
  nx,
  \* @type: Int;
  ny,
  \* @type: Int;
  nz,
  \* @type: Int;
  i,
  \* @type: Int;
  j,
  \* @type: Int;
  k,
  \* @type: Int;
  i2,
  \* @type: Int;
  j2,
  \* @type: Int;
  k2

Flat(a, b, c) == (a * ny + b) * nz + c
Wrong(a, b, c) == (a * nx + b) * ny + c        \* the index the library used before the repair (2efe155)
InGrid(a, b, c) == 0 <= a /\ a < nx /\ 0 <= b /\ b < ny /\ 0 <= c /\ c < nz

Init == /\ nx \in Int /\ ny \in Int /\ nz \in Int /\ nx >= 1 /\ ny >= 1 /\ nz >= 1
        /\ i \in Int /\ j \in Int /\ k \in Int /\ i2 \in Int /\ j2 \in Int /\ k2 \in Int
        /\ InGrid(i, j, k) /\ InGrid(i2, j2, k2)
Next == UNCHANGED <<nx, ny, nz, i, j, k, i2, j2, k2>>

InRange   == 0 <= Flat(i, j, k) /\ Flat(i, j, k) < nx * ny * nz
Injective == Flat(i, j, k) = Flat(i2, j2, k2) => (i = i2 /\ j = j2 /\ k = k2)
XSlowest  == (i < i2) => Flat(i, j, k) < Flat(i2, j2, k2)
WrongInjective == Wrong(i, j, k) = Wrong(i2, j2, k2) => (i = i2 /\ j = j2 /\ k = k2)
=============================================================================
