-------------------------------- MODULE Misc --------------------------------
(***************************************************************************)
(* Routines of the library that no listed property covers (growth check    *)
(* X01); the reference is the docstring and docs/utils.md, orderings.md.   *)
(*                                                                         *)
(*  utils/funcs.py   kronecker, nidealfac, areafac, alpha2factor,          *)
(*                   moment_of_inertia, grid_gaussian,                     *)
(*                   Legendre_polynomials, Wignerindex                     *)
(*  utils/fft.py     Filon_COS                                             *)
(*  static/geometric.py   packing_capability_2d                            *)
(*  utils/fitting.py      fits: only the abscissa grid is closed-form      *)
(*                                                                         *)
(* Integers are scaled values (unit 1/S chosen by the model), rationals    *)
(* are Exact pairs <<n, d>>, real-valued expectations are Real terms.      *)
(***************************************************************************)
EXTENDS Geometry, SphHarm, Sequences

\* ------------------------------------------------------------ dimension tables
\* the three prefactor tables are defined for ndim = 2, 3 and raise ValueError otherwise
MiRaise == <<"ValueError">>
MiNideal(d) == IF d = 3 THEN <<4, 3>> ELSE IF d = 2 THEN <<1, 1>> ELSE MiRaise      \* V_d(r) = nideal * pi * r^d
MiArea(d)   == IF d = 3 THEN <<4, 1>> ELSE IF d = 2 THEN <<2, 1>> ELSE MiRaise      \* A_d(r) = area * pi * r^(d-1)
MiAlpha2(d) == IF d = 3 THEN <<3, 5>> ELSE IF d = 2 THEN <<1, 2>> ELSE MiRaise      \* d / (d + 2)
MiKronecker(i, j) == IF i = j THEN 1 ELSE 0
\* consistency of the tables: the surface is the derivative of the volume; alpha2 factor = d/(d+2)
MiTablesConsistent(d) ==
  d \in {2, 3} => /\ MiArea(d) = RMul(RInt(d), MiNideal(d))
                  /\ MiAlpha2(d) = RNorm(d, d + 2)

\* ------------------------------------------------------------ moment_of_inertia
\* I_ij = (m / N) sum_p (|r_p|^2 delta_ij - r_p,i r_p,j) about the ORIGIN (each point carries mass m/N)
MiMoiSum(P, i, j) ==
  SumSeq([p \in 1..Len(P) |-> MiKronecker(i, j) * Norm2(P[p]) - P[p][i] * P[p][j]])
MiMoi(P, m, i, j) == RNorm(m * MiMoiSum(P, i, j), Len(P))
MiMoiMatrix(P, m) == [i \in 1..3 |-> [j \in 1..3 |-> MiMoi(P, m, i, j)]]
\* the flat layout documented for matrix = False: [ixx iyy izz ixy ixz iyz]
MiMoiFlat(P, m) == <<MiMoi(P, m, 1, 1), MiMoi(P, m, 2, 2), MiMoi(P, m, 3, 3),
                     MiMoi(P, m, 1, 2), MiMoi(P, m, 1, 3), MiMoi(P, m, 2, 3)>>
MiMoiSymmetric(P, m) == \A i, j \in 1..3 : MiMoi(P, m, i, j) = MiMoi(P, m, j, i)
\* trace = 2 m <r^2>
MiMoiTrace(P, m) ==
  RAdd(RAdd(MiMoi(P, m, 1, 1), MiMoi(P, m, 2, 2)), MiMoi(P, m, 3, 3))
    = RNorm(2 * m * SumSeq([p \in 1..Len(P) |-> Norm2(P[p])]), Len(P))
\* relabelling the axes permutes rows and columns (hence the spectrum is unchanged)
MiAxisPerms == {<<1, 2, 3>>, <<1, 3, 2>>, <<2, 1, 3>>, <<2, 3, 1>>, <<3, 1, 2>>, <<3, 2, 1>>}
MiMoiAxisPermutation(P, m) ==
  \A pi \in MiAxisPerms :
    LET PP == [p \in 1..Len(P) |-> [k \in 1..3 |-> P[p][pi[k]]]] IN
    \A i, j \in 1..3 : MiMoi(PP, m, i, j) = MiMoi(P, m, pi[i], pi[j])
\* positive semi-definite necessary conditions: diagonal >= 0, triangle inequalities of principal-axis type
MiMoiDiagonal(P, m) ==
  m >= 0 => /\ \A i \in 1..3 : MiMoi(P, m, i, i)[1] >= 0
            /\ RLeq(MiMoi(P, m, 3, 3), RAdd(MiMoi(P, m, 1, 1), MiMoi(P, m, 2, 2)))
\* the order of the points is irrelevant
MiMoiPointOrder(P, m) ==
  LET R == [p \in 1..Len(P) |-> P[Len(P) + 1 - p]] IN MiMoiFlat(R, m) = MiMoiFlat(P, m)

\* ------------------------------------------------------------ grid_gaussian, Legendre_polynomials
\* exp(-d^2 / (2 sigma^2)) / sqrt(2 pi sigma^2) for a distance term d and a width term sg
MiGaussTerm(d, sg) ==
  Div(Exp(Neg(Div(Mul2(d, d), Mul3(I(2), sg, sg)))), Sqrt(Mul(<<I(2), sg, sg, Pi>>)))
\* (ndim x^2 - 1) / 2 for a rational x
MiLegPoly(xq, nd) == RMul(<<1, 2>>, RSub(RMul(RInt(nd), RMul(xq, xq)), <<1, 1>>))

\* ------------------------------------------------------------ Wignerindex(l)
\* rows <<m1, m2, m3>> with m1 + m2 + m3 = 0 in the order of the loop nest (m1 outermost, m3 innermost)
WigSeq(l) ==
  LET n   == 2 * l + 1
      all == [k \in 1..(n * n * n) |->
                <<((k - 1) \div (n * n)) - l, (((k - 1) \div n) % n) - l, ((k - 1) % n) - l>>]
  IN  SelectSeq(all, LAMBDA t : t[1] + t[2] + t[3] = 0)
WigLexLess(s, t) ==
  \/ s[1] < t[1] \/ (s[1] = t[1] /\ s[2] < t[2]) \/ (s[1] = t[1] /\ s[2] = t[2] /\ s[3] < t[3])
WigIndexSetOK(l) ==
  LET w == WigSeq(l) IN
  /\ Len(w) = 3 * l * l + 3 * l + 1
  /\ {w[k] : k \in 1..Len(w)} = W3jIndex(l)
  /\ \A k \in 1..(Len(w) - 1) : WigLexLess(w[k], w[k + 1])
WigValueTerm(l, t) == W3jTerm(l, t[1], t[2], t[3])
\* the squared value is invariant under permutations of the columns and under m -> -m (checked modulo p)
WigSymmetricMod(l, p) ==
  \A t \in W3jIndex(l) :
    /\ W3jSqMod(l, t[1], t[2], t[3], p) = W3jSqMod(l, t[2], t[1], t[3], p)
    /\ W3jSqMod(l, t[1], t[2], t[3], p) = W3jSqMod(l, t[3], t[2], t[1], p)
    /\ W3jSqMod(l, t[1], t[2], t[3], p) = W3jSqMod(l, 0 - t[1], 0 - t[2], 0 - t[3], p)

\* ------------------------------------------------------------ Filon_COS
\* C : integer samples (unit 1/CS), tt : integer times (unit 1/TS, TS = 10000, tt[1] = 0: a correlation
\* function starts at lag 0; the routine mixes t_i - t_0 and t_i otherwise),
\* aq : <<n, d>> frequency interval, <<0, 1>> = "not specified" (then a = 2 pi / t_last).
FilTS == 10000
FilKept(n0) == IF n0 % 2 = 0 THEN n0 - 1 ELSE n0          \* an even number of samples drops the last one
FilFirstStep(tt) == tt[2] - tt[1]
FilLastStep(tt, n) == tt[n] - tt[n - 1]
\* "time is not evenly distributed": the first and the last step (of the kept samples) differ
FilRaises(tt, n) == FilFirstStep(tt) # FilLastStep(tt, n)
FilEven(tt, n) == \A k \in 2..n : tt[k] - tt[k - 1] = tt[2] - tt[1]
FilDt(tt) == Q(FilFirstStep(tt), FilTS)                   \* the step of the quadrature is the step of the times
\* The routine used to round both steps to three decimals before comparing them and integrated with the
\* ROUNDED step.  WHEN THE TWO AGREE: when both steps are whole multiples of 1/1000 (FilTS / 1000 = 10 units).
FilRoundingHarmless(tt, n) == FilFirstStep(tt) % 10 = 0 /\ FilLastStep(tt, n) % 10 = 0
FilTime(k) == Q(k, FilTS)
FilA(aq, tt, n) == IF aq[1] = 0 THEN Div(Mul2(I(2), Pi), FilTime(tt[n])) ELSE QR(aq)
FilOmega(aq, tt, n, j) == Mul2(I(j), FilA(aq, tt, n))          \* omega_j = j a, j = 0 .. n-1
FilC(C, CS, i) == Q(C[i], CS)
\* sums over the even / odd sample indices (0-based index i-1), for frequency term w
FilEvenSum(C, CS, tt, n, w) ==
  LET ev == SelectSeq([i \in 1..n |-> i], LAMBDA i : (i - 1) % 2 = 0)
  IN  Add(<<Add([k \in 1..Len(ev) |-> Mul2(FilC(C, CS, ev[k]), Cos(Mul2(w, FilTime(tt[ev[k]]))))]),
            Neg(Mul2(Q(1, 2), Add2(Mul2(FilC(C, CS, n), Cos(Mul2(w, FilTime(tt[n])))),
                                    Mul2(FilC(C, CS, 1), Cos(Mul2(w, FilTime(tt[1])))))))>>)
FilOddSum(C, CS, tt, n, w) ==
  LET od == SelectSeq([i \in 1..n |-> i], LAMBDA i : (i - 1) % 2 = 1)
  IN  Add([k \in 1..Len(od) |-> Mul2(FilC(C, CS, od[k]), Cos(Mul2(w, FilTime(tt[od[k]]))))])
\* Filon's parameters (Abramowitz & Stegun 25.4.47) for theta # 0, and their limits at theta = 0
FilAlpha(th) == Add(<<Div(I(1), th), Div(Sin(Mul2(I(2), th)), Mul3(I(2), th, th)),
                      Neg(Div(Mul3(I(2), Sin(th), Sin(th)), Mul3(th, th, th)))>>)
FilBeta(th)  == Mul2(I(2), Sub(Div(Add2(I(1), Mul2(Cos(th), Cos(th))), Mul2(th, th)),
                               Div(Sin(Mul2(I(2), th)), Mul3(th, th, th))))
FilGamma(th) == Mul2(I(4), Sub(Div(Sin(th), Mul3(th, th, th)), Div(Cos(th), Mul2(th, th))))
\* (2/pi) * Filon quadrature of int C(t) cos(w t) dt; zero = TRUE is the theta = 0 branch (alpha, beta, gamma = 0, 2/3, 4/3)
FilValue(C, CS, tt, n, w, zero) ==
  LET dt == FilDt(tt)
      th == Mul2(w, dt)
      al == IF zero THEN I(0) ELSE FilAlpha(th)
      be == IF zero THEN Q(2, 3) ELSE FilBeta(th)
      ga == IF zero THEN Q(4, 3) ELSE FilGamma(th)
      edge == Sub(Mul2(FilC(C, CS, n), Sin(Mul2(w, FilTime(tt[n])))), Mul2(FilC(C, CS, 1), Sin(Mul2(w, FilTime(tt[1])))))
  IN  Div(Mul(<<I(2), dt, Add(<<Mul2(al, edge), Mul2(be, FilEvenSum(C, CS, tt, n, w)), Mul2(ga, FilOddSum(C, CS, tt, n, w))>>)>>), Pi)
\* At w = 0 the rule is Simpson's rule: pi/2 * value = (dt/3)(C_0 + 4 C_1 + 2 C_2 + ... + C_{n-1}), an exact rational
FilSimpson(C, n) ==           \* in units dt / (3 CS)
  SumSeq([i \in 1..n |-> (IF i = 1 \/ i = n THEN 1 ELSE IF (i - 1) % 2 = 1 THEN 4 ELSE 2) * C[i]])
FilZeroRat(C, n) ==           \* the w = 0 value as (2 dt / pi) * this rational / CS:  (2/3) C_even + (4/3) C_odd
  LET evs == SumSeq([i \in 1..n |-> IF (i - 1) % 2 = 0 THEN 2 * C[i] ELSE 0]) - (C[n] + C[1])      \* 2 * C_even
      ods == SumSeq([i \in 1..n |-> IF (i - 1) % 2 = 1 /\ i < n THEN C[i] ELSE 0])
  IN  RNorm(2 * evs + 8 * ods, 6)
\* clause: the theta = 0 branch is Simpson's rule
FilZeroIsSimpson(C, n) == FilZeroRat(C, n) = RNorm(FilSimpson(C, n), 3)
\* clause: Simpson's rule is exact for polynomials of degree <= 3: for C_i = i^k the w = 0 value is
\* (2/pi) dt (n-1)^(k+1)/(k+1); in particular C = 1 gives (2/pi) t_max
FilPoly(n, k) == [i \in 1..n |-> IPow(i - 1, k)]
FilSimpsonExact(n) ==
  \A k \in 0..3 : FilZeroRat(FilPoly(n, k), n) = RNorm(IPow(n - 1, k + 1), k + 1)
\* closed form for a constant C = c: (2/pi) c (sin(w T) - sin(w t0)) / w  (Filon's rule is exact for it)
FilConstClosed(cq, tt, n, w) ==
  Div(Mul(<<I(2), QR(cq), Sub(Sin(Mul2(w, FilTime(tt[n]))), Sin(Mul2(w, FilTime(tt[1]))))>>), Mul2(Pi, w))

\* ------------------------------------------------------------ packing_capability_2d
\* c = [H, ppp, pos (per frame), types (per particle, 1-based species), sig (K x K integers), file (per
\*      file frame: per particle the listed 1-based ids), nmax]
\* The routine opens the neighbour file itself and consumes one file frame per snapshot.
PkNmax == 20
PkListed(c, g, o) ==                     \* the list of o in file frame g, truncated to the first nmax entries
  LET row == c.file[g][o] IN IF Len(row) > c.nmax THEN SubSeq(row, 1, c.nmax) ELSE row
PkCn(c, g, o) == Len(PkListed(c, g, o))
PkPairs(c, g, o) ==                      \* unordered pairs of listed neighbours, in the order of the list
  LET L == PkListed(c, g, o)
      n == Len(L)
      all == [k \in 1..(n * n) |-> <<((k - 1) \div n) + 1, ((k - 1) % n) + 1>>]
      sel == SelectSeq(all, LAMBDA pr : pr[1] < pr[2])
  IN  [k \in 1..Len(sel) |-> <<L[sel[k][1]], L[sel[k][2]]>>]
PkIn(c, g, i, j) == \E k \in 1..PkCn(c, g, i) : PkListed(c, g, i)[k] = j
PkMutual(c, g, i, j) == PkIn(c, g, i, j) /\ PkIn(c, g, j, i)
PkContrib(c, g, o) == SelectSeq(PkPairs(c, g, o), LAMBDA pr : PkMutual(c, g, pr[1], pr[2]))
PkBondSet(c, f, o, i) == MinImage(c.H, VSub(c.pos[f][i], c.pos[f][o]), c.ppp)
PkBond(c, f, o, i) == MinImage1(c.H, VSub(c.pos[f][i], c.pos[f][o]), c.ppp)
\* the angle i-o-j between two bonds (integer vectors)
PkAngle(u, v) == Acos(Div(I(Dot(u, v)), Mul2(Sqrt(I(Norm2(u))), Sqrt(I(Norm2(v))))))
\* the reference angle of three touching discs: the angle at o of the triangle with sides sig_oi, sig_oj, sig_ij
PkRef(c, o, i, j) ==
  LET to == c.types[o]
      ti == c.types[i]
      tj == c.types[j]
  IN  AngleTerm(I(c.sig[to][ti]), I(c.sig[to][tj]), I(c.sig[ti][tj]))
PkTheta(c, f, g, o) ==
  LET prs == PkContrib(c, g, o) IN
  IF PkCn(c, g, o) = 0 THEN NaNT
  ELSE Div(Add([k \in 1..Len(prs) |->
                  AbsT(Sub(PkAngle(PkBond(c, f, o, prs[k][1]), PkBond(c, f, o, prs[k][2])),
                           PkRef(c, o, prs[k][1], prs[k][2])))]),
           I(PkCn(c, g, o)))
\* float-fragile particles (not asserted): a contributing bond on a half-cell tie, of zero length, or two
\* contributing bonds collinear (arccos at +-1)
PkFragile(c, f, g, o) ==
  LET prs == PkContrib(c, g, o) IN
  \E k \in 1..Len(prs) :
    \/ Cardinality(PkBondSet(c, f, o, prs[k][1])) > 1 \/ Cardinality(PkBondSet(c, f, o, prs[k][2])) > 1
    \/ Norm2(PkBond(c, f, o, prs[k][1])) = 0 \/ Norm2(PkBond(c, f, o, prs[k][2])) = 0
    \/ Cross2D(PkBond(c, f, o, prs[k][1]), PkBond(c, f, o, prs[k][2])) = 0
\* clauses
PkPairsOnce(c, g, o) ==
  LET prs == PkPairs(c, g, o)
      n   == PkCn(c, g, o)
  IN  /\ 2 * Len(prs) = n * (n - 1)
      /\ \A a, b \in 1..Len(prs) : a # b => (prs[a] # prs[b] \/ prs[a][1] = prs[a][2])
PkMutualSymmetric(c, g) ==
  \A i, j \in 1..Len(c.types) : PkMutual(c, g, i, j) = PkMutual(c, g, j, i)
\* three mutually touching discs (bond lengths equal to the sigmas) have exactly the reference angle:
\* cos(angle) = dot / (|u||v|) equals (sig_oi^2 + sig_oj^2 - sig_ij^2) / (2 sig_oi sig_oj)
PkTouchingHasReferenceAngle(c, f, g, o) ==
  LET prs == PkContrib(c, g, o) IN
  \A k \in 1..Len(prs) :
    LET i == prs[k][1]
        j == prs[k][2]
        u == PkBond(c, f, o, i)
        v == PkBond(c, f, o, j)
        so == c.sig[c.types[o]][c.types[i]]
        sj == c.sig[c.types[o]][c.types[j]]
        sij == c.sig[c.types[i]][c.types[j]]
    IN  (Norm2(u) = so * so /\ Norm2(v) = sj * sj /\ Norm2(VSub(u, v)) = sij * sij)
          => 2 * Dot(u, v) = so * so + sj * sj - sij * sij

\* ------------------------------------------------------------ fits: the abscissa grid
\* xfit = 10000 points from [xmin, xmax] of the data (rangeb = 0) or from [rangea, rangeb], equally spaced
\* (style "linear") or in geometric progression (style "log"); yfit = fit_func(xfit, *popt).
FitNPts == 10000
FitRange(xmin, xmax, ra, rb) == IF rb = <<0, 1>> THEN <<xmin, xmax>> ELSE <<ra, rb>>
FitPoint(lo, hi, style, k) ==          \* k = 0 .. FitNPts - 1
  IF style = "log" THEN Mul2(QR(lo), PowT(Div(QR(hi), QR(lo)), Q(k, FitNPts - 1)))
  ELSE Add2(QR(lo), Mul2(Q(k, FitNPts - 1), Sub(QR(hi), QR(lo))))
=============================================================================
