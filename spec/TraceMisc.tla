----------------------------- MODULE TraceMisc -----------------------------
(***************************************************************************)
(* Trace validation (direction B) for the routines of Misc.tla.  Records:  *)
(*  [op |-> "moi", P, mass, obs, flat, exact]  moment_of_inertia of the    *)
(*        integer points P (unit 1/S): obs[i][j] / flat[k] = returned      *)
(*        value * N * S^2 (integers), exact = 1 iff they were integers     *)
(*  [op |-> "wig", id, l, rows]   the integer index columns returned by    *)
(*        Wignerindex(l), row by row; the value terms are printed          *)
(*  [op |-> "fil", id, C, CS, tt, aq, raised, kept]  one Filon_COS call:   *)
(*        raised = 1 iff ValueError, kept = number of returned rows        *)
(*  [op |-> "gauss", id, ds, dd, sg]   grid_gaussian on distances ds/dd    *)
(*  [op |-> "pk_open", file, nmax]  packing_capability_2d opened a file    *)
(*        whose frames are file[g][o] = listed ids of particle o           *)
(*  [op |-> "pk_frame", id, H, ppp, pos, types, sig, zero]  next snapshot  *)
(*        of the same call; zero[o] = 1 iff the returned value is 0.0.     *)
(*        The cursor of the file is a variable of this spec.               *)
(* Real-valued expectations are printed as terms.                          *)
(***************************************************************************)
EXTENDS Misc, Json, IOUtils, SequencesExt

Tr == ndJsonDeserialize(IOEnv.TRACE_FILE)

VARIABLES l, bad, file, nmax, cursor
vars == <<l, bad, file, nmax, cursor>>

WhyMoi(rec) ==
  IF rec.exact # 1 THEN "MoiValue"
  ELSE IF \E i, j \in 1..3 : rec.obs[i][j] # rec.mass * MiMoiSum(rec.P, i, j) THEN
         (IF \A i, j \in 1..3 : rec.obs[i][j] = rec.mass * MiMoiSum(rec.P, j, i) THEN "MoiSymmetric" ELSE "MoiValue")
  ELSE IF rec.flat # <<rec.obs[1][1], rec.obs[2][2], rec.obs[3][3], rec.obs[1][2], rec.obs[1][3], rec.obs[2][3]>>
       THEN "MoiFlatLayout"
  ELSE ""
WhyWig(rec) ==
  LET w == WigSeq(rec.l) IN
  IF Len(rec.rows) # Len(w) \/ {rec.rows[k] : k \in 1..Len(rec.rows)} # {w[k] : k \in 1..Len(w)} THEN "WigIndexSet"
  ELSE IF rec.rows # w THEN "WigLoopOrder"
  ELSE ""
FilRecN(rec) == FilKept(Len(rec.C))
WhyFil(rec) ==
  LET n == FilRecN(rec) IN
  IF (rec.raised = 1) # FilRaises(rec.tt, n)
  THEN "FilonRaisesIffUneven" \o (IF FilRoundingHarmless(rec.tt, n) THEN "" ELSE ":step-rounded")
  ELSE IF rec.raised = 0 /\ rec.kept # n THEN "FilonEvenLengthDropsLast"
  ELSE ""
PkRec(rec) == [H |-> rec.H, ppp |-> rec.ppp, pos |-> <<rec.pos>>, types |-> rec.types, sig |-> rec.sig,
               file |-> file, nmax |-> nmax]
WhyPk(rec) ==
  IF cursor >= Len(file) THEN "NeighbourFrameCursor:file-exhausted"
  ELSE LET c == PkRec(rec) IN
       IF \E o \in 1..Len(rec.types) :
            PkCn(c, cursor + 1, o) > 0 /\ Len(PkContrib(c, cursor + 1, o)) = 0 /\ rec.zero[o] # 1
       THEN "NoMutualPairGivesZero"
       ELSE ""
Why(rec) ==
  CASE rec.op = "moi" -> WhyMoi(rec)
    [] rec.op = "wig" -> WhyWig(rec)
    [] rec.op = "fil" -> WhyFil(rec)
    [] rec.op = "gauss" -> ""
    [] rec.op = "pk_open" -> ""
    [] rec.op = "pk_frame" -> WhyPk(rec)
    [] OTHER -> "UnknownRecord"

WigExpect(rec) == LET w == WigSeq(rec.l) IN
  [ rec |-> rec.id, op |-> "wig", vals |-> [k \in 1..Len(w) |-> WigValueTerm(rec.l, w[k])] ]
FilExpect(rec) ==
  LET n == FilRecN(rec)
      dom == FilEven(rec.tt, n) /\ rec.raised = 0
  IN  [ rec |-> rec.id, op |-> "fil", domain |-> dom, kept |-> n, harmless |-> FilRoundingHarmless(rec.tt, n),
        omega |-> IF dom THEN [j \in 1..n |-> FilOmega(rec.aq, rec.tt, n, j - 1)] ELSE << >>,
        zero |-> IF dom THEN FilValue(rec.C, rec.CS, rec.tt, n, I(0), TRUE) ELSE NaNT,
        gen  |-> IF dom THEN FilValue(rec.C, rec.CS, rec.tt, n, Var("w"), FALSE) ELSE NaNT ]
GaussExpect(rec) ==
  [ rec |-> rec.id, op |-> "gauss", vals |-> [k \in 1..Len(rec.ds) |-> MiGaussTerm(Q(rec.ds[k], rec.dd), QR(rec.sg))] ]
PkExpect(rec) ==
  LET c == PkRec(rec)
      g == cursor + 1
  IN  [ rec |-> rec.id, op |-> "pk_frame", frame |-> g,
        exp |-> [o \in 1..Len(rec.types) |->
                   [ cn |-> PkCn(c, g, o), npairs |-> Len(PkContrib(c, g, o)), fragile |-> PkFragile(c, 1, g, o),
                     theta |-> PkTheta(c, 1, g, o) ]] ]

Init == l = 1 /\ bad = "" /\ file = << >> /\ nmax = 0 /\ cursor = 0
Step ==
  /\ l <= Len(Tr) /\ bad = ""
  /\ LET rec == Tr[l]
         w   == Why(rec)
     IN  /\ IF w = "" THEN l' = l + 1 /\ bad' = "" ELSE l' = l /\ bad' = w
         /\ IF rec.op = "pk_open" THEN file' = rec.file /\ nmax' = rec.nmax /\ cursor' = 0
            ELSE IF rec.op = "pk_frame" /\ w = "" THEN cursor' = cursor + 1 /\ UNCHANGED <<file, nmax>>
            ELSE UNCHANGED <<file, nmax, cursor>>
         /\ (w = "" =>
               CASE rec.op = "wig" -> PrintT(ToJson(WigExpect(rec)))
                 [] rec.op = "fil" -> PrintT(ToJson(FilExpect(rec)))
                 [] rec.op = "gauss" -> PrintT(ToJson(GaussExpect(rec)))
                 [] rec.op = "pk_frame" -> PrintT(ToJson(PkExpect(rec)))
                 [] OTHER -> TRUE)
Spec == Init /\ [][Step]_vars
Accepted == bad = ""
=============================================================================
