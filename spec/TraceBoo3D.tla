----------------------------- MODULE TraceBoo3D -----------------------------
(***************************************************************************)
(* Direction B for C09: every record is one trajectory that was run        *)
(* through the real boo_3d,                                                *)
(*   [deg |-> l, H |-> cell (scaled ints), ppp |-> mask, nmax |-> Nmax,    *)
(*    frames |-> << [pos, nl, w] >> (scaled integer positions, neighbour   *)
(*    lists and integer weights exactly as parsed from the files the code  *)
(*    read; w = << >> without a weight file),                              *)
(*    cn |-> per frame, per particle the coordination number the code      *)
(*    reported (third column of the sij csv)]                              *)
(* The spec re-derives the bonds with Cell!MinImage semantics, decides the *)
(* discrete part itself (coordination numbers after Nmax truncation; a     *)
(* frame with an exact half-cell tie or a zero bond is flagged, never      *)
(* judged) and prints, per record, the expected q_lm, Q_lm, q_l, Q_l,      *)
(* s_ij, counts, w_l, w^_l as terms for the harness to evaluate.           *)
(***************************************************************************)
EXTENDS Boo3D, Json, IOUtils

Tr == ndJsonDeserialize(IOEnv.TRACE_FILE)

VARIABLES l, bad
vars == <<l, bad>>

Thresholds == << <<7, 10>>, <<1, 2>>, <<0, 1>>, <<0 - 1, 2>> >>

FrameBad(rec, fr) == FrameHasTie(rec.H, rec.ppp, fr, rec.nmax) \/ FrameHasZeroBond(rec.H, rec.ppp, fr, rec.nmax)
RecBad(rec) == \E f \in 1..Len(rec.frames) : FrameBad(rec, rec.frames[f])

Why(rec) ==
  IF \E f \in 1..Len(rec.frames) : \E i \in 1..Len(rec.frames[f].pos) :
        rec.cn[f][i] # Cn(rec.frames[f], i, rec.nmax)
  THEN "CoordinationAfterTruncation"
  ELSE IF \E f \in 1..Len(rec.frames) : ~WeightsNormalised(rec.frames[f], rec.nmax) THEN "WeightsNormalised"
  ELSE ""

RECURSIVE ConcatF(_, _)
ConcatF(F(_), n) == IF n = 0 THEN << >> ELSE ConcatF(F, n - 1) \o F(n)

CaseOf(k, rec) ==
  LET nf == Len(rec.frames)
      ww == rec.deg <= 6
  IN
  [ kind |-> "trace", rec |-> k, l |-> rec.deg, bad |-> RecBad(rec), withw |-> ww,
    macros |-> MacroY(rec.deg) \o <<MacroP(rec.deg)>>,
    defs |-> IF RecBad(rec) THEN << >>
             ELSE ConcatF(LAMBDA f : FrameDefs(rec.H, rec.ppp, rec.frames[f], f, rec.deg, rec.nmax, ww), nf),
    exp  |-> IF RecBad(rec) THEN << >>
             ELSE [f \in 1..nf |-> FrameExp(rec.H, rec.ppp, rec.frames[f], f, rec.deg, rec.nmax, ww, Thresholds)],
    compose |-> Compose(rec.deg) ]

Init == l = 1 /\ bad = ""
Step == /\ l <= Len(Tr) /\ bad = ""
        /\ LET w == Why(Tr[l]) IN
           IF w = "" THEN /\ PrintT(ToJson(CaseOf(l, Tr[l])))
                          /\ l' = l + 1 /\ bad' = ""
           ELSE l' = l /\ bad' = w
Spec == Init /\ [][Step]_vars
Accepted == bad = ""
=============================================================================
