----------------------------- MODULE TraceBoo3D -----------------------------
(***************************************************************************)
(* Direction B for C09: every record is one trajectory that was run        *)
(* through the real boo_3d,                                                *)
(*   [deg |-> l, H |-> cell of the first frame (scaled ints), ppp |-> mask, *)
(*    nmax |-> Nmax,                                                       *)
(*    frames |-> << [pos, nl, w, H, ord, word] >> (scaled integer          *)
(*    positions, neighbour lists and integer weights exactly as parsed     *)
(*    from the files the code read; w = << >> without a weight file; H =   *)
(*    the cell of THAT frame - the tilts of a sheared run change from      *)
(*    frame to frame; ord / word = the ids in the order of the lines of    *)
(*    the neighbour / weight file),                                        *)
(*    cn |-> per frame, per particle the coordination number the code      *)
(*    reported (third column of the sij csv),                              *)
(*    calls |-> the session: the method calls [m, cg, cj] made on the ONE  *)
(*    boo_3d object, in the order they were made]                          *)
(* A trajectory outside boo_3d's domain (edge lengths or particle number   *)
(* change, a particle without neighbour, a line order that is not a        *)
(* permutation) is flagged `outside` and never judged.                     *)
(* The spec re-derives the bonds with Cell!MinImage semantics, decides the *)
(* discrete part itself (coordination numbers after Nmax truncation; a     *)
(* frame with an exact half-cell tie or a zero bond is flagged, never      *)
(* judged) and prints, per record, the expected q_lm, Q_lm, q_l, Q_l,      *)
(* s_ij, counts, w_l, w^_l as terms for the harness to evaluate.           *)
(***************************************************************************)
EXTENDS Boo3D, Json, IOUtils

Tr == ndJsonDeserialize(IOEnv.TRACE_FILE)

VARIABLES l, bad
vars == <<l, bad>>

Thresholds == << <<7, 10>>, <<1, 2>>, <<0, 1>>, <<0 - 1, 2>> >>

HF(rec, fr) == CellOf(rec.H, fr)
FrameBad(rec, fr) == FrameHasTie(HF(rec, fr), rec.ppp, fr, rec.nmax) \/ FrameHasZeroBond(HF(rec, fr), rec.ppp, fr, rec.nmax)
Outside(rec) == ~TrajectoryInDomain(rec.H, rec.frames, rec.nmax)
RecBad(rec) == Outside(rec) \/ \E f \in 1..Len(rec.frames) : FrameBad(rec, rec.frames[f])

Why(rec) ==
  IF \E f \in 1..Len(rec.frames) : \E i \in 1..Len(rec.frames[f].pos) :
        rec.cn[f][i] # Cn(rec.frames[f], i, rec.nmax)
  THEN "CoordinationAfterTruncation"
  ELSE IF ~Outside(rec) /\ \E f \in 1..Len(rec.frames) : ~WeightsNormalised(rec.frames[f], rec.nmax) THEN "WeightsNormalised"
  ELSE IF \E p \in 1..Len(rec.calls) : ~KnownCall(rec.calls[p], Len(Thresholds)) THEN "UnknownCall"
  ELSE ""

RECURSIVE ConcatF(_, _)
ConcatF(F(_), n) == IF n = 0 THEN << >> ELSE ConcatF(F, n - 1) \o F(n)

CaseOf(k, rec) ==
  LET nf == Len(rec.frames)
      \* w_l for the tabulated degrees and, on small trajectories, for l = 12 (469 triples per particle and frame)
      ww == rec.deg <= 6 \/ (rec.deg = 12 /\ nf * Len(rec.frames[1].pos) <= 36)
  IN
  [ kind |-> "trace", rec |-> k, l |-> rec.deg, bad |-> RecBad(rec), outside |-> Outside(rec), withw |-> ww,
    varies |-> Varies(rec.H, rec.frames, rec.nmax),
    \* what every call of the session is expected to return: a function of the call alone
    session |-> [p \in 1..Len(rec.calls) |-> WithObs(rec.calls[p])],
    macros |-> MacroY(rec.deg) \o <<MacroP(rec.deg)>>,
    defs |-> IF RecBad(rec) THEN << >>
             ELSE ConcatF(LAMBDA f : FrameDefs(HF(rec, rec.frames[f]), rec.ppp, rec.frames[f], f, rec.deg, rec.nmax, ww), nf),
    exp  |-> IF RecBad(rec) THEN << >>
             ELSE [f \in 1..nf |-> FrameExp(HF(rec, rec.frames[f]), rec.ppp, rec.frames[f], f, rec.deg, rec.nmax, ww, Thresholds)],
    compose |-> Compose(rec.deg) ]

Init == l = 1 /\ bad = ""
Step == /\ l <= Len(Tr) /\ bad = ""
        /\ LET w == Why(Tr[l]) IN
           IF w = "" THEN /\ PrintT(ToJson(CaseOf(l, Tr[l])))
                          /\ l' = l + 1 /\ bad' = ""
           ELSE l' = l /\ bad' = w
Spec == Init /\ [][Step]_vars
Accepted == bad = ""
=============================================================================
