-------------------------------- MODULE Cell --------------------------------
(***************************************************************************)
(* Simulation cells and the minimum-image convention (property C02, and    *)
(* the basis of every pairwise quantity in the other modules).             *)
(*                                                                         *)
(* A cell is an integer matrix H whose ROWS are the cell vectors (LAMMPS   *)
(* lower-triangular h-matrix as stored by the reader: a = H[1], b = H[2],  *)
(* c = H[3]).  All lengths are scaled integers (unit 1/scale chosen by the *)
(* model; the map r |-> r/scale commutes with everything below).           *)
(*                                                                         *)
(* remove_pbc(R, H, ppp) in the code computes f = R H^-1, subtracts        *)
(* rint(f) on periodic axes and maps back with H.  Here f is kept as the   *)
(* exact numerator vector over the common denominator Det(H).              *)
(***************************************************************************)
EXTENDS Exact

\* numerators of the fractional coordinates of row vector v: v H^-1 = FracNum / FracDen
FracDen(H)    == Abs(Det(H))
FracNum(H, v) == LET a == VecMat(v, Adj(H)) IN
                 IF Det(H) < 0 THEN VNeg(a) ELSE a

\* admissible lattice coefficient vectors: nearest integer on periodic axes
\* (both neighbours at an exact half), 0 on non-periodic axes
CoefSets(H, v, ppp) ==
  [k \in 1..Len(v) |-> IF ppp[k] = 1 THEN NearestSet(FracNum(H, v)[k], FracDen(H)) ELSE {0}]

\* the product of the per-axis sets
CoefsEnum(H, v, ppp) ==
  LET cs == CoefSets(H, v, ppp)
      U  == UNION {cs[k] : k \in 1..Len(v)}
  IN  {n \in [1..Len(v) -> U] : \A k \in 1..Len(v) : n[k] \in cs[k]}

\* the set of admissible results of PBC removal (a singleton off ties)
MinImage(H, v, ppp) == {VSub(v, VecMat(n, H)) : n \in CoefsEnum(H, v, ppp)}

HasTie(H, v, ppp) ==
  \E k \in 1..Len(v) : ppp[k] = 1 /\ IsHalfTie(FracNum(H, v)[k], FracDen(H))

\* the unique minimum image off ties
MinImage1(H, v, ppp) == CHOOSE w \in MinImage(H, v, ppp) : TRUE

\* exact squared minimum-image distance; off ties unique.  For an
\* orthogonal (diagonal) cell a half-cell tie does not change the length.
MinDist2Set(H, v, ppp) == {Norm2(w) : w \in MinImage(H, v, ppp)}

IsDiagonal(H) == \A i, j \in 1..Len(H) : i # j => H[i][j] = 0
IsLowerTri(H) == \A i, j \in 1..Len(H) : j > i => H[i][j] = 0

Volume(H) == Abs(Det(H))

(***************************************************************************)
(* Properties of C02, stated for one (H, v, ppp) and a set of shifts.      *)
(***************************************************************************)

\* the difference to the input is an integer combination of the periodic cell vectors
OnlyLatticeTranslations(H, v, ppp) ==
  \A w \in MinImage(H, v, ppp) :
    LET dn == FracNum(H, VSub(v, w)) IN
    \A k \in 1..Len(v) :
      /\ dn[k] % FracDen(H) = 0
      /\ ppp[k] = 0 => dn[k] = 0

\* fractional coordinates along periodic axes lie in [-1/2, 1/2]
HalfCell(H, v, ppp) ==
  \A w \in MinImage(H, v, ppp) : \A k \in 1..Len(v) :
    ppp[k] = 1 => 2 * Abs(FracNum(H, w)[k]) <= FracDen(H)

\* fractional components along non-periodic axes are untouched
NonPeriodicUntouched(H, v, ppp) ==
  \A w \in MinImage(H, v, ppp) : \A k \in 1..Len(v) :
    ppp[k] = 0 => FracNum(H, w)[k] = FracNum(H, v)[k]

\* adding lattice vectors of periodic axes first does not change the result (off ties)
ShiftInvariantOffTies(H, v, ppp, Shifts) ==
  ~HasTie(H, v, ppp) =>
    \A s \in Shifts :
      (\A k \in 1..Len(v) : ppp[k] = 0 => s[k] = 0)
        => MinImage(H, VAdd(v, VecMat(s, H)), ppp) = MinImage(H, v, ppp)

\* applying it twice equals applying it once (at ties: the result stays admissible)
Idempotent(H, v, ppp) ==
  \A w \in MinImage(H, v, ppp) :
    /\ w \in MinImage(H, w, ppp)
    /\ ~HasTie(H, w, ppp) => MinImage(H, w, ppp) = {w}

\* for orthogonal cells the result is the shortest of all periodic images
ShortestImageOrthogonal(H, v, ppp) ==
  IsDiagonal(H) =>
    \A w \in MinImage(H, v, ppp) :
      \A m \in [1..Len(v) -> {0 - 1, 0, 1}] :
        (\A k \in 1..Len(v) : ppp[k] = 0 => m[k] = 0)
          => Norm2(w) <= Norm2(VAdd(w, VecMat(m, H)))
=============================================================================
