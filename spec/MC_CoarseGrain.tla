--------------------------- MODULE MC_CoarseGrain ---------------------------
(***************************************************************************)
(* Models of property C16.  One module, four modes (constant Mode):        *)
(*   "grid"    the loop nest of gaussian_blurring as a state machine, one  *)
(*             action Visit per grid point, for every grid shape in scope  *)
(*   "blur"    the same machine inside the frame loop of concrete          *)
(*             trajectories: every frame has its own bounds and its own    *)
(*             cell, two INDEPENDENT attributes (action NextFrame starts   *)
(*             the loop nest again with the next frame's bounds); at the   *)
(*             end the slot values of every frame are stated as Real terms *)
(*   "spatial" spatial_average: one action per frame, cursor on the file   *)
(*   "window"  time_average: one action per window                         *)
(* Variables: cfg (the input chosen in Init, constant afterwards), pc (loop*)
(* position), acc (what the loop has produced so far).  The clauses of the *)
(* property are the INVARIANTs named Inv*.  With Gen = TRUE one JSON case  *)
(* is printed per finished behaviour (direction A).                        *)
(***************************************************************************)
EXTENDS CoarseGrain, TLC, Json

CONSTANTS Tier, Mode, Gen, SHARD, NSHARDS

VARIABLES cfg, pc, acc
vars == <<cfg, pc, acc>>

Quick == Tier = "quick"

(***************************************************************************)
(* grid / blur: the Visit machine.  pc = next grid point (<< >> when the   *)
(* loop nest has finished), acc = [slots, nvis].                           *)
(***************************************************************************)
GridShapes ==
  IF Quick THEN [1..2 -> 1..5] \cup [1..3 -> 1..4]
  ELSE [1..2 -> 1..7] \cup [1..3 -> 1..5]

Visit ==
  /\ Mode = "grid"
  /\ pc # << >>
  /\ acc' = [slots |-> VisitSlots(cfg.ng, acc.slots, pc), nvis |-> acc.nvis + 1]
  /\ pc'  = NextPoint(cfg.ng, pc)
  /\ UNCHANGED cfg

InitGrid ==
  /\ \E ngv \in GridShapes :
       /\ (SumSeq(ngv) + 3 * ngv[1] + Len(ngv)) % NSHARDS = SHARD
       /\ cfg = [ng |-> ngv]
       /\ pc = FirstPoint(ngv)
       /\ acc = [slots |-> EmptySlots(ngv), nvis |-> 0]

\* every Visit fills a slot that was empty (no slot is written twice)
InvWriteOnce == Cardinality(Written(acc.slots)) = acc.nvis
\* at the end: each grid point exactly once, every slot written
InvFlatIndexIsBijection == pc = << >> => (acc.nvis = NPoints(cfg.ng) /\ IsBijection(cfg.ng, acc.slots))
\* slot order = lexicographic order of (i, j, k): x slowest, last axis fastest
InvXSlowest == IsXSlowest(acc.slots)
InvSlotIsUnflat == \A s \in Written(acc.slots) : acc.slots[s] = Unflat(cfg.ng, s)
\* points are visited in lexicographic order
InvVisitOrder == pc # << >> => \A s \in Written(acc.slots) : LexLess(acc.slots[s], pc)

(***************************************************************************)
(* blur scope                                                              *)
(***************************************************************************)
Cell2(a, t, b, xlo, ylo) ==
  [H |-> << <<a, 0>>, <<t, b>> >>,
   bounds |-> << <<xlo + Min2(0, t), xlo + a + Max2(0, t)>>, <<ylo, ylo + b>> >>,
   lo |-> <<xlo, ylo>>]
CgMin4(a, b, c, d) == Min2(Min2(a, b), Min2(c, d))
CgMax4(a, b, c, d) == Max2(Max2(a, b), Max2(c, d))
Cell3(a, b, c, xy, xz, yz, xlo, ylo, zlo) ==
  [H |-> << <<a, 0, 0>>, <<xy, b, 0>>, <<xz, yz, c>> >>,
   bounds |-> << <<xlo + CgMin4(0, xy, xz, xy + xz), xlo + a + CgMax4(0, xy, xz, xy + xz)>>,
                 <<ylo + Min2(0, yz), ylo + b + Max2(0, yz)>>,
                 <<zlo, zlo + c>> >>,
   lo |-> <<xlo, ylo, zlo>>]

\* a frame whose bounds are not tied to its cell (a gsd frame: hmatrix = the box, boxbounds = what the reader found):
\* the cell of c with the given bounds; particles are placed from the lower corner of the bounds
Ext(c, bounds) == [H |-> c.H, bounds |-> bounds, lo |-> [k \in 1..Len(bounds) |-> bounds[k][1]]]

\* Frames = (cell, bounds).  1-7: boxes with their own origin; 8-17 vary ONE attribute of an earlier frame:
\*   8 / 13   the cell of 1 / 5, origin shifted                 9 / 14   other lengths, the bounds of 1 / 5
\*  10 / 15   other lengths, the bounds of 1 / 5 shifted        11 / 16  the lengths of 3 / 7, other tilt, the same bounds
\*  12 / 17   the lengths of 3 / 7, other tilt, bounds shifted at the same lengths
BlurCells ==
  << Cell2(4, 0, 4, 0, 0), Cell2(8, 0, 4, 0 - 2, 1), Cell2(4, 1, 4, 0, 0), Cell2(6, 0 - 2, 4, 0 - 1, 0),
     Cell3(4, 4, 4, 0, 0, 0, 0, 0, 0), Cell3(4, 6, 8, 0, 0, 0, 0 - 2, 0, 1), Cell3(4, 4, 4, 1, 0 - 1, 2, 0, 0, 0),
     Cell2(4, 0, 4, 2, 0 - 3),
     Ext(Cell2(8, 0, 4, 0, 0), Cell2(4, 0, 4, 0, 0).bounds),
     Ext(Cell2(8, 0, 4, 0, 0), BoundsShift(Cell2(4, 0, 4, 0, 0).bounds, <<2, 0 - 3>>)),
     Cell2(4, 0 - 1, 4, 1, 0),
     Cell2(4, 0 - 1, 4, 3, 0 - 2),
     Cell3(4, 4, 4, 0, 0, 0, 1, 0 - 2, 3),
     Ext(Cell3(4, 6, 8, 0, 0, 0, 0, 0, 0), Cell3(4, 4, 4, 0, 0, 0, 0, 0, 0).bounds),
     Ext(Cell3(4, 6, 8, 0, 0, 0, 0, 0, 0), BoundsShift(Cell3(4, 4, 4, 0, 0, 0, 0, 0, 0).bounds, <<1, 0 - 2, 3>>)),
     Cell3(4, 4, 4, 0 - 1, 1, 2, 0, 0, 0),
     Cell3(4, 4, 4, 0 - 1, 1, 2, 2, 0 - 1, 0 - 3) >>

\* particle positions relative to the lower corner, per frame
PosSets ==
  << << << <<0, 0>>, <<1, 2>>, <<3, 1>> >>, << <<2, 2>>, <<0, 3>>, <<3, 3>> >> >>,
     << << <<1, 1>>, <<2, 3>>, <<0 - 1, 4>>, <<5, 2>> >> >>,
     << << <<0, 0, 0>>, <<1, 2, 3>>, <<3, 1, 2>>, <<2, 3, 1>> >>,
        << <<1, 1, 1>>, <<3, 3, 0>>, <<0, 2, 2>>, <<2, 0, 5>> >> >> >>

SigCuts ==
  IF Quick THEN << <<<<1, 1>>, <<2, 1>>>>, <<<<1, 2>>, <<3, 2>>>>, <<<<2, 1>>, <<6, 1>>>> >>
  ELSE << <<<<1, 1>>, <<2, 1>>>>, <<<<1, 2>>, <<3, 2>>>>, <<<<2, 1>>, <<6, 1>>>>,
          <<<<3, 2>>, <<5, 2>>>>, <<<<1, 1>>, <<3, 1>>>> >>

BlurMasks(d) ==
  IF d = 2 THEN (IF Quick THEN {<<1, 1>>, <<1, 0>>, <<0, 0>>} ELSE [1..2 -> {0, 1}])
  ELSE (IF Quick THEN {<<1, 1, 1>>, <<1, 1, 0>>, <<0, 0, 0>>}
        ELSE {<<1, 1, 1>>, <<1, 1, 0>>, <<0, 0, 0>>, <<0, 1, 1>>, <<1, 0, 1>>})

BlurGrids ==
  IF Quick
  THEN [1..2 -> 2..5]
       \cup {<<2, 3, 4>>, <<4, 3, 2>>, <<3, 2, 2>>, <<2, 2, 3>>, <<3, 3, 3>>, <<5, 2, 3>>, <<2, 5, 2>>}
  ELSE [1..2 -> 1..6] \cup [1..3 -> 2..4]
       \cup {<<5, 2, 3>>, <<2, 5, 2>>, <<3, 2, 5>>, <<1, 3, 2>>, <<3, 1, 4>>}

\* the frames of a trajectory: one frame index per frame.  The two-frame sequences realise every combination of
\* (same cell | other lengths | other tilt) x (same bounds | origin shifted at the same lengths) in 2-D and in 3-D
\* (ASSUME below), and the boxes whose lengths, origin and tilt all change (NPT / deformed box: bounds resized).
BlurCellSeqs ==
  << <<1>>, <<2>>, <<3>>, <<4>>,
     <<2, 2>>, <<1, 8>>, <<1, 9>>, <<1, 10>>, <<3, 11>>, <<3, 12>>, <<1, 2>>, <<3, 4>>,
     <<6, 6>>, <<5, 13>>, <<5, 14>>, <<5, 15>>, <<7, 16>>, <<7, 17>>, <<5, 6>>, <<6, 7>> >>

FrameTransitions(d) ==
  {<<CellChange(BlurCells[q[1]].H, BlurCells[q[2]].H), BoundsChange(BlurCells[q[1]].bounds, BlurCells[q[2]].bounds)>> :
     q \in {BlurCellSeqs[i] : i \in {i \in 1..Len(BlurCellSeqs) : Len(BlurCellSeqs[i]) = 2 /\ Len(BlurCells[BlurCellSeqs[i][1]].H) = d}}}
ASSUME ScopeCoversFrameTransitions ==
  \A d \in {2, 3} :
     /\ ({"same", "lengths", "tilt"} \X {"same", "shifted"}) \subseteq FrameTransitions(d)
     /\ <<"lengths", "resized">> \in FrameTransitions(d) /\ <<"both", "resized">> \in FrameTransitions(d)

\* quick tier: a two-frame trajectory is combined with part of the (mask, (sigma, cut)) product only - every mask and
\* every (sigma, cut) with every sequence, rotating with the sequence and the grid; thorough tier: everything, except
\* that a 3-D two-frame trajectory takes every other pair
ScopePick(cs, m, sc, ngv) ==
  LET mk == m[1] + m[Len(m)] IN         \* 2, 1, 0 for the three quick masks
  IF Len(BlurCellSeqs[cs]) = 1 THEN TRUE
  ELSE IF ~Quick THEN (Len(m) = 2 \/ (mk + sc + cs + ngv[1]) % 2 = 0)
  ELSE IF Len(m) = 2 THEN (mk + sc + cs + ngv[1]) % 3 # 0
  ELSE (mk + sc + cs + ngv[1]) % 3 = 0

InitBlur ==
  \E ngv \in BlurGrids, cs \in 1..Len(BlurCellSeqs), pi \in 1..Len(PosSets), sc \in 1..Len(SigCuts) :
    LET d   == Len(ngv)
        seq == BlurCellSeqs[cs]
        F   == Len(seq)
    IN
    /\ Len(BlurCells[seq[1]].H) = d
    /\ Len(PosSets[pi][1][1]) = d
    /\ Len(PosSets[pi]) = F
    /\ \E m \in BlurMasks(d) :
         /\ ScopePick(cs, m, sc, ngv)
         /\ (7 * SumSeq(ngv) + ngv[1] + 3 * cs + SumSeq(m) + pi + 5 * sc) % NSHARDS = SHARD
         /\ cfg = [ng |-> ngv,
                   Hs |-> [f \in 1..F |-> BlurCells[seq[f]].H],
                   bs |-> [f \in 1..F |-> BlurCells[seq[f]].bounds], ppp |-> m,
                   pos0 |-> [f \in 1..F |->
                              [j \in 1..Len(PosSets[pi][f]) |-> VAdd(PosSets[pi][f][j], BlurCells[seq[f]].lo)]],
                   \* every other configuration: unwrapped coordinates (particle j of frame f displaced by
                   \* -2..3 whole cell vectors of the frame's cell along each periodic axis: the same system)
                   pos |-> [f \in 1..F |->
                              [j \in 1..Len(PosSets[pi][f]) |->
                                 LET p0 == VAdd(PosSets[pi][f][j], BlurCells[seq[f]].lo) IN
                                 IF (cs + pi + sc) % 2 = 0 THEN p0
                                 ELSE VAdd(p0, VecMat([k \in 1..d |-> m[k] * (((j + 2 * k + f) % 6) - 2)], BlurCells[seq[f]].H))]],
                   sig |-> SigCuts[sc][1], cut |-> SigCuts[sc][2]]
         /\ pc = FirstPoint(ngv)
         /\ acc = [slots |-> EmptySlots(ngv), nvis |-> 0, f |-> 1,
                   grids |-> [f \in 1..F |-> [s \in 0..(NPoints(ngv) - 1) |-> << >>]]]

\* one step of the loop nest of frame acc.f: the grid point pc goes into its flat slot, at the position the bounds of
\* THAT frame give it
VisitB ==
  /\ Mode = "blur"
  /\ pc # << >>
  /\ acc' = [acc EXCEPT !.slots = VisitSlots(cfg.ng, @, pc), !.nvis = @ + 1,
                        !.grids[acc.f][Flat(cfg.ng, pc)] = ScaledPoint(cfg.ng, cfg.bs[acc.f], pc)]
  /\ pc'  = NextPoint(cfg.ng, pc)
  /\ UNCHANGED cfg
\* the frame loop: the loop nest of frame acc.f has finished, the next frame starts with an empty grid
NextFrame ==
  /\ Mode = "blur"
  /\ pc = << >> /\ acc.f < Len(cfg.bs)
  /\ acc' = [acc EXCEPT !.slots = EmptySlots(cfg.ng), !.nvis = 0, !.f = @ + 1]
  /\ pc'  = FirstPoint(cfg.ng)
  /\ UNCHANGED cfg
BlurDone == pc = << >> /\ acc.f = Len(cfg.bs)
FinishedFrames == {g \in 1..Len(cfg.bs) : g < acc.f \/ (g = acc.f /\ pc = << >>)}
AtStart == acc.nvis = 0 /\ acc.f = 1

\* spec sanity: the product form CgImages is Cell!MinImage (checked on the first
\* grid point of every configuration, against every particle of every frame, in the frame's cell)
InvImagesAreMinImage ==
  AtStart =>
    \A f \in 1..Len(cfg.pos) : \A j \in 1..Len(cfg.pos[f]) :
      LET M  == GridScale(cfg.ng)
          Hs == [i \in 1..Len(cfg.Hs[f]) |-> VScale(M, cfg.Hs[f][i])]
          v  == VSub(ScaledPoint(cfg.ng, cfg.bs[f], pc), VScale(M, cfg.pos[f][j]))
      IN  CgImages(Hs, v, cfg.ppp) = MinImage(Hs, v, cfg.ppp)
\* unwrapped coordinates: whole cell vectors along periodic axes change no grid-particle distance
InvBlurUnwrapInvariant ==
  AtStart =>
    \A f \in 1..Len(cfg.pos) : \A j \in 1..Len(cfg.pos[f]) :
      GridDist2Set(cfg.ng, cfg.bs[f], cfg.Hs[f], cfg.ppp, pc, cfg.pos[f][j])
        = GridDist2Set(cfg.ng, cfg.bs[f], cfg.Hs[f], cfg.ppp, pc, cfg.pos0[f][j])
\* the distances depend on the bounds only through the grid positions: moving the bounds and the particles of a frame
\* together changes nothing (so the values of a frame are those of its own bounds, cell and particles and of nothing else)
InvBlurTranslationInvariant ==
  AtStart =>
    \A f \in 1..Len(cfg.pos) : \A j \in 1..Len(cfg.pos[f]) :
      LET t == [k \in 1..Len(cfg.ng) |-> 3 * k - 5 * f] IN
      GridDist2Set(cfg.ng, cfg.bs[f], cfg.Hs[f], cfg.ppp, pc, cfg.pos[f][j])
        = GridDist2Set(cfg.ng, BoundsShift(cfg.bs[f], t), cfg.Hs[f], cfg.ppp, pc, VAdd(cfg.pos[f][j], t))
\* every frame's grid spans that frame's bounds: first point = lower corner, last point = upper corner
\* (lower corner on an axis with a single point)
InvGridSpansFrameBounds ==
  AtStart =>
    \A f \in 1..Len(cfg.pos) :
      LET d == Len(cfg.ng)  last == [k \in 1..d |-> cfg.ng[k] - 1] IN
      /\ PointPos(cfg.ng, cfg.bs[f], FirstPoint(cfg.ng)) = [k \in 1..d |-> <<cfg.bs[f][k][1], 1>>]
      /\ PointPos(cfg.ng, cfg.bs[f], last) = [k \in 1..d |-> <<(IF cfg.ng[k] = 1 THEN cfg.bs[f][k][1] ELSE cfg.bs[f][k][2]), 1>>]
      /\ \A k \in 1..d : cfg.bs[f][k][2] > cfg.bs[f][k][1]
\* what the loop nest of a frame has filed is the grid of that frame's bounds, whatever its cell and whatever came before
InvFrameGridFromItsBounds ==
  \A g \in FinishedFrames : acc.grids[g] = FrameGrid(cfg.ng, cfg.bs[g])
\* two frames have the same grid iff they have the same bounds - not iff they have the same cell
InvGridIsFunctionOfFrameBounds ==
  \A g, h \in FinishedFrames :
    (acc.grids[g] = acc.grids[h]) <=> SameGridBounds(cfg.ng, cfg.bs[g], cfg.bs[h])
\* independent formulation of "equally spaced points spanning the bounds": on every axis the coordinates that occur are
\* n values from the lower to the upper bound with constant spacing
InvEquallySpaced ==
  pc = << >> =>
    LET g == acc.f  M == GridScale(cfg.ng) IN
    \A k \in 1..Len(cfg.ng) :
      LET xs == SortedSeq({acc.grids[g][s][k] : s \in DOMAIN acc.grids[g]}) IN
      /\ Len(xs) = cfg.ng[k]
      /\ xs[1] = M * cfg.bs[g][k][1]
      /\ (cfg.ng[k] > 1 => xs[Len(xs)] = M * cfg.bs[g][k][2])
      /\ \A i \in 1..(Len(xs) - 1) : (xs[i + 1] - xs[i]) * (cfg.ng[k] - 1) = M * (cfg.bs[g][k][2] - cfg.bs[g][k][1])

IsPow2(n) == n \in {1, 2, 4, 8, 16}
BlurSlot(pt) ==
  [pt  |-> pt,
   fr  |-> [f \in 1..Len(cfg.pos) |->
      LET cl    == Classify(cfg.ng, cfg.bs[f], cfg.Hs[f], cfg.ppp, pt, cfg.pos[f], cfg.cut)
          ins   == SelectedIn(cl, {"in"})
          both  == SelectedIn(cl, {"in", "edge"})
      IN  [amb   |-> AmbiguousIn(cl),
           nin   |-> Len(ins),
           nedge |-> Len(both) - Len(ins),
           lo    |-> BlurTermOf(cl, cfg.sig, ins),
           hi    |-> IF Len(both) = Len(ins) THEN << >> ELSE BlurTermOf(cl, cfg.sig, both)]]]
BlurCase ==
  [m |-> "blur", ng |-> cfg.ng, Hs |-> cfg.Hs, bs |-> cfg.bs, ppp |-> cfg.ppp, pos |-> cfg.pos,
   sig |-> cfg.sig, cut |-> cfg.cut,
   exactgrid |-> \A k \in 1..Len(cfg.ng) : IsPow2(Max2(cfg.ng[k] - 1, 1)),
   \* the grids the frame loop has filed (positions on the scale M), frame by frame
   M |-> GridScale(cfg.ng), grids |-> [f \in 1..Len(cfg.bs) |-> [s \in 1..NPoints(cfg.ng) |-> acc.grids[f][s - 1]]],
   slots |-> [s \in 1..NPoints(cfg.ng) |-> BlurSlot(acc.slots[s - 1])]]

(***************************************************************************)
(* spatial: pc = cursor (frames of the neighbour file consumed so far),    *)
(* acc = results of the frames averaged so far.                            *)
(***************************************************************************)
NShapes == 6
Shapes == << << >>, <<1>>, <<2, 1>>, <<1, 2, 3>>, <<3, 1>>, <<1, 1>> >>   \* offsets to the listed ids
RowOf(i, shape, N) == [k \in 1..Len(shape) |-> ((i + ((shape[k] - 1) % (N - 1))) % N) + 1]
FrameOf(a, b, N) == [i \in 1..N |-> RowOf(i, Shapes[((a + b * i) % NShapes) + 1], N)]
PropVal(f, i, c, pat) == ((f * 7 + i * i * 3 + c * 5 + i * c + pat) % 11) - 5
RECURSIVE CgPow(_, _)
CgPow(b, e) == IF e = 0 THEN 1 ELSE b * CgPow(b, e - 1)

\* row order of a frame of the file (identity for one frame in three)
RowOrder(a, N) == IF a % 3 = 0 THEN [k \in 1..N |-> k] ELSE CgPermByKey(LAMBDA i : (a * 7 + i * i * 5 + a * i) % 11, N)

InitSpatial ==
  \E N \in (IF Quick THEN {3, 4} ELSE {3, 4, 5}), F \in 1..3, a1 \in 0..5, b1 \in 0..5, a2 \in 0..5,
     nmax \in (IF Quick THEN {1, 2, 30} ELSE {1, 2, 3, 30}) :        \* below / at / above the counts (<= 3 listed ids)
    LET b2   == IF Quick THEN (b1 + 1) % NShapes ELSE (b1 + a2 + 1) % NShapes
        rank == (a1 + b1) % 3
        d    == 2 + (a1 % 2)
        C    == CgPow(d, rank)
        fl   == << FrameOf(a1, b1, N), FrameOf(a2, b2, N), FrameOf(a1 + a2 + 1, b2 + 2, N) >>
        FL   == Min2(3, F + (b1 % 2))           \* the file may hold more frames than the property
        bool == (a1 + a2 + N + nmax) % 4 = 0    \* a 0/1-valued property (flags): the mean is the fraction of ones
    IN
    /\ (F = 1 => a2 = 0)
    /\ (Quick /\ nmax = 1) => (a1 + b1) % 2 = 0
    /\ (N + F + a1 + 2 * b1 + 3 * a2 + nmax) % NSHARDS = SHARD
    /\ cfg = [N |-> N, F |-> F, nmax |-> nmax, rank |-> rank, d |-> d, kind |-> (IF bool THEN "bool" ELSE "num"),
              file |-> SubSeq(fl, 1, FL),
              rows |-> [f \in 1..FL |-> CgRows(fl[f], RowOrder(a1 + 2 * b1 + f + N, N))],
              prop |-> [f \in 1..F |-> [i \in 1..N |-> [c \in 1..C |->
                          IF bool THEN PropVal(f, i, c, a1 + nmax) % 2 ELSE PropVal(f, i, c, a1 + nmax)]]]]
    /\ pc = 0
    /\ acc = << >>

\* linearization point: read_neighbors returned the frame under the cursor and
\* frame Len(acc)+1 of the property has been averaged with it
AvgFrame ==
  /\ Mode = "spatial"
  /\ Len(acc) < cfg.F
  /\ acc' = Append(acc, SpatialStep(cfg.rows, pc, cfg.prop[Len(acc) + 1], cfg.nmax))
  /\ pc'  = pc + 1
  /\ UNCHANGED cfg

InvCursorFollowsFrames == pc = Len(acc)
InvSpatialMeanDefinition ==
  \A f \in 1..Len(acc) : \A i \in 1..cfg.N : \A c \in 1..Len(cfg.prop[f][i]) :
    /\ SpatialDenW(cfg.prop[f], cfg.file[f], cfg.nmax, i) = SpatialDen(cfg.file[f], cfg.nmax, i)
    /\ acc[f][i][c] = RNorm(SpatialNumW(cfg.prop[f], cfg.file[f], cfg.nmax, i, c),
                            SpatialDenW(cfg.prop[f], cfg.file[f], cfg.nmax, i))
InvSpatialConvex ==
  \A f \in 1..Len(acc) : \A i \in 1..cfg.N : \A c \in 1..Len(cfg.prop[f][i]) :
    LET part == {j \in 1..cfg.N : Weight(cfg.file[f], cfg.nmax, i, j) > 0}
        v    == acc[f][i][c]
    IN  /\ \E j \in part : cfg.prop[f][j][c] * v[2] <= v[1]
        /\ \E j \in part : cfg.prop[f][j][c] * v[2] >= v[1]
InvSpatialConstant ==
  \A f \in 1..Len(acc) :
    LET k7 == [i \in 1..cfg.N |-> <<7>>] IN
    \A i \in 1..cfg.N : SpatialAvgFrame(k7, cfg.file[f], cfg.nmax)[i][1] = <<7, 1>>
\* the row order of the file is not part of the input: every frame of rows is a permutation of the
\* ids and files the abstract lists back under their ids (so InvSpatialMeanDefinition, stated on the
\* abstract lists, holds for the result obtained from the rows)
InvRowOrderIrrelevant ==
  \A f \in 1..Len(cfg.rows) :
    /\ CgIsPerm([k \in 1..cfg.N |-> cfg.rows[f][k][1]], cfg.N)
    /\ CgOfRows(cfg.rows[f]) = cfg.file[f]
\* a 0/1-valued property: the average is the fraction of ones among the particle and its delivered neighbours
InvBoolIsFraction ==
  cfg.kind = "bool" =>
    \A f \in 1..Len(acc) : \A i \in 1..cfg.N : \A c \in 1..Len(cfg.prop[f][i]) :
      LET v == acc[f][i][c] IN v[1] >= 0 /\ v[1] <= v[2]
\* Nmax at or above every count of a frame changes nothing
InvNmaxAboveCounts ==
  \A f \in 1..Len(acc) :
    (\A i \in 1..cfg.N : Len(cfg.file[f][i]) <= cfg.nmax) => acc[f] = SpatialAvgFrame(cfg.prop[f], cfg.file[f], 1000)
InvNoSelfCountedTwice ==     \* scope sanity: the lists of the scope never contain the particle itself
  \A f \in 1..Len(cfg.file) : \A i \in 1..cfg.N : Mult(cfg.file[f][i], i) = 0

SpatialCase ==
  [m |-> "spatial", N |-> cfg.N, F |-> cfg.F, nmax |-> cfg.nmax, rank |-> cfg.rank, d |-> cfg.d, kind |-> cfg.kind,
   file |-> cfg.file, rows |-> cfg.rows, prop |-> cfg.prop, exp |-> acc]

(***************************************************************************)
(* window: pc = n (start of the next window, frames numbered from 0),      *)
(* acc = rows produced so far.                                             *)
(***************************************************************************)
\* kinds of property: real, complex (two components: real and imaginary part), bool (0/1 flags)
WindowKinds == <<"real", "complex", "bool">>
InitWindow ==
  \E T \in (IF Quick THEN 3..6 ELSE 3..9), N \in 1..2, kd \in 1..3,
     dts \in {1, 10}, dti \in 1..3 :
    LET dt == << <<1, 2>>, <<1, 8>>, <<3, 4>> >>[dti]
        C  == IF kd = 2 THEN 2 ELSE 1
    IN
    \E m4 \in 4..(4 * (T - 1) + 3) :
      /\ (Quick => (N + kd + dts + dti) % 2 = 0)
      /\ (T + N + kd + dts + dti + m4) % NSHARDS = SHARD
      /\ cfg = [T |-> T, N |-> N, C |-> C, kind |-> WindowKinds[kd], dts |-> dts, dt |-> dt, m4 |-> m4,
                period |-> RMul(Interval(dts, dt), <<m4, 4>>),
                ts |-> [f \in 1..T |-> 1000 + (f - 1) * dts],
                prop |-> [f \in 1..T |-> [i \in 1..N |-> [c \in 1..C |->
                            IF kd = 3 THEN PropVal(f, i, c, m4) % 2 ELSE PropVal(f, i, c, m4)]]],
                \* every third real / complex member: particle 1 is undefined in the second frame (frame 1 from 0)
                undef |-> IF kd # 3 /\ (m4 + T + N) % 3 = 0 THEN {<<1, 1>>} ELSE {}]
      /\ pc = 0
      /\ acc = << >>

W == WindowLen(cfg.dts, cfg.dt, cfg.period)

Window ==
  /\ Mode = "window"
  /\ pc + W <= cfg.T
  /\ acc' = Append(acc, [mean   |-> [i \in 1..cfg.N |-> [c \in 1..cfg.C |-> WindowMean(cfg.prop, pc, W, i, c)]],
                         def    |-> [i \in 1..cfg.N |-> WindowDefined(cfg.undef, pc, W, i)],
                         centre |-> CentreSet(pc, W)])
  /\ pc' = pc + 1
  /\ UNCHANGED cfg

InvWindowLenIsFloor ==
  LET iv == Interval(cfg.dts, cfg.dt) IN
  /\ RLeq(RMul(<<W, 1>>, iv), cfg.period)
  /\ RLt(cfg.period, RMul(<<W + 1, 1>>, iv))
InvExactMultiple == cfg.m4 % 4 = 0 => W = cfg.m4 \div 4
InvWindowComplete == \A k \in 1..Len(acc) : WindowFrames(k - 1, W) \subseteq 0..(cfg.T - 1)
InvWindowCentre ==
  \A k \in 1..Len(acc) : \A c \in acc[k].centre :
    LET n == k - 1 IN
    /\ c \in WindowFrames(n, W)
    /\ Abs((c - n) - (n + W - 1 - c)) <= 1
    /\ (W % 2 = 1 => (c - n = n + W - 1 - c /\ Cardinality(acc[k].centre) = 1))
InvWindowMeanDefinition ==
  \A k \in 1..Len(acc) : \A i \in 1..cfg.N : \A c \in 1..cfg.C :
    LET fr == WindowFrames(k - 1, W)
        s  == SumSeq([g \in 1..cfg.T |-> IF (g - 1) \in fr THEN cfg.prop[g][i][c] ELSE 0])
    IN  /\ Cardinality(fr) = W
        /\ acc[k].mean[i][c] = RNorm(s, Cardinality(fr))
\* an undefined frame makes exactly the windows that contain it undefined (for that particle), no other
InvUndefinedIsLocal ==
  \A k \in 1..Len(acc) : \A i \in 1..cfg.N :
    acc[k].def[i] <=> ({f \in WindowFrames(k - 1, W) : <<f, i>> \in cfg.undef} = {})
InvRowsAtMostComplete == Len(acc) <= cfg.T - W + 1
\* the mean of integer-valued data is the exact rational, not its integer part: wherever the window sum
\* is not a multiple of w the mean has denominator > 1; a 0/1-valued property averages to the fraction of ones
InvWindowMeanIsRational ==
  \A k \in 1..Len(acc) : \A i \in 1..cfg.N : \A c \in 1..cfg.C :
    LET s == WindowSum(cfg.prop, k - 1, W, i, c)  m == acc[k].mean[i][c] IN
    /\ m[1] * W = s * m[2]
    /\ (s % W # 0) => m[2] > 1
    /\ cfg.kind = "bool" => (m[1] >= 0 /\ m[1] <= m[2])

WindowDone == pc + W > cfg.T
WindowCase ==
  [m |-> "window", T |-> cfg.T, N |-> cfg.N, C |-> cfg.C, kind |-> cfg.kind, ts |-> cfg.ts, dt |-> cfg.dt, period |-> cfg.period,
   w |-> W, rows |-> SortedSeq(RowsSet(cfg.T, W)), prop |-> cfg.prop,
   undef |-> [f \in 1..cfg.T |-> [i \in 1..cfg.N |-> IF <<f - 1, i>> \in cfg.undef THEN 1 ELSE 0]],
   exp |-> [k \in 1..Len(acc) |-> [mean |-> acc[k].mean, centre |-> SortedSeq(acc[k].centre),
                                   def |-> [i \in 1..cfg.N |-> IF acc[k].def[i] THEN 1 ELSE 0]]]]

(***************************************************************************)
Init ==
  CASE Mode = "grid"    -> InitGrid
    [] Mode = "blur"    -> InitBlur
    [] Mode = "spatial" -> InitSpatial
    [] Mode = "window"  -> InitWindow

Next ==
  \/ Visit
  \/ VisitB
  \/ NextFrame
  \/ AvgFrame
  \/ Window

Spec == Init /\ [][Next]_vars

\* ---- emission (direction A): one case per finished behaviour ----
Emit ==
  Gen =>
    CASE Mode = "blur"    -> (BlurDone => PrintT(ToJson(BlurCase)))
      [] Mode = "spatial" -> (Len(acc) = cfg.F => PrintT(ToJson(SpatialCase)))
      [] Mode = "window"  -> (WindowDone => PrintT(ToJson(WindowCase)))
      [] OTHER            -> TRUE
=============================================================================
