--------------------------- MODULE MC_CoarseGrain ---------------------------
(***************************************************************************)
(* Models of property C16.  One module, four modes (constant Mode):        *)
(*   "grid"    the loop nest of gaussian_blurring as a state machine, one  *)
(*             action Visit per grid point, for every grid shape in scope  *)
(*   "blur"    the same machine on concrete configurations; at the end of  *)
(*             the enumeration the slot values are stated as Real terms    *)
(*   "spatial" spatial_average: one action per frame, cursor on the file   *)
(*   "window"  time_average: one action per window                         *)
(* Variables: cfg (the input chosen in Init, constant afterwards), pc (loop*)
(* position), acc (what the loop has produced so far).  The clauses of the *)
(* property are the INVARIANTs named Inv*.  With Gen = TRUE one JSON case  *)
(* is printed per finished behaviour (direction A).                        *)
(***************************************************************************)
EXTENDS CoarseGrain, TLC, Json

CONSTANTS Tier, Mode, Gen, SHARD, NSHARDS

VARIABLES cfg, pc, acc
vars == <<cfg, pc, acc>>

Quick == Tier = "quick"

(***************************************************************************)
(* grid / blur: the Visit machine.  pc = next grid point (<< >> when the   *)
(* loop nest has finished), acc = [slots, nvis].                           *)
(***************************************************************************)
GridShapes ==
  IF Quick THEN [1..2 -> 1..5] \cup [1..3 -> 1..4]
  ELSE [1..2 -> 1..7] \cup [1..3 -> 1..5]

Visit ==
  /\ pc # << >>
  /\ acc' = [slots |-> VisitSlots(cfg.ng, acc.slots, pc), nvis |-> acc.nvis + 1]
  /\ pc'  = NextPoint(cfg.ng, pc)
  /\ UNCHANGED cfg

InitGrid ==
  /\ \E ngv \in GridShapes :
       /\ (SumSeq(ngv) + 3 * ngv[1] + Len(ngv)) % NSHARDS = SHARD
       /\ cfg = [ng |-> ngv]
       /\ pc = FirstPoint(ngv)
       /\ acc = [slots |-> EmptySlots(ngv), nvis |-> 0]

\* every Visit fills a slot that was empty (no slot is written twice)
InvWriteOnce == Cardinality(Written(acc.slots)) = acc.nvis
\* at the end: each grid point exactly once, every slot written
InvFlatIndexIsBijection == pc = << >> => (acc.nvis = NPoints(cfg.ng) /\ IsBijection(cfg.ng, acc.slots))
\* slot order = lexicographic order of (i, j, k): x slowest, last axis fastest
InvXSlowest == IsXSlowest(acc.slots)
InvSlotIsUnflat == \A s \in Written(acc.slots) : acc.slots[s] = Unflat(cfg.ng, s)
\* points are visited in lexicographic order
InvVisitOrder == pc # << >> => \A s \in Written(acc.slots) : LexLess(acc.slots[s], pc)

(***************************************************************************)
(* blur scope                                                              *)
(***************************************************************************)
Cell2(a, t, b, xlo, ylo) ==
  [H |-> << <<a, 0>>, <<t, b>> >>,
   bounds |-> << <<xlo + Min2(0, t), xlo + a + Max2(0, t)>>, <<ylo, ylo + b>> >>,
   lo |-> <<xlo, ylo>>]
CgMin4(a, b, c, d) == Min2(Min2(a, b), Min2(c, d))
CgMax4(a, b, c, d) == Max2(Max2(a, b), Max2(c, d))
Cell3(a, b, c, xy, xz, yz, xlo, ylo, zlo) ==
  [H |-> << <<a, 0, 0>>, <<xy, b, 0>>, <<xz, yz, c>> >>,
   bounds |-> << <<xlo + CgMin4(0, xy, xz, xy + xz), xlo + a + CgMax4(0, xy, xz, xy + xz)>>,
                 <<ylo + Min2(0, yz), ylo + b + Max2(0, yz)>>,
                 <<zlo, zlo + c>> >>,
   lo |-> <<xlo, ylo, zlo>>]

BlurCells ==
  << Cell2(4, 0, 4, 0, 0), Cell2(8, 0, 4, 0 - 2, 1), Cell2(4, 1, 4, 0, 0), Cell2(6, 0 - 2, 4, 0 - 1, 0),
     Cell3(4, 4, 4, 0, 0, 0, 0, 0, 0), Cell3(4, 6, 8, 0, 0, 0, 0 - 2, 0, 1), Cell3(4, 4, 4, 1, 0 - 1, 2, 0, 0, 0) >>

\* particle positions relative to the cell origin, per frame
PosSets ==
  << << << <<0, 0>>, <<1, 2>>, <<3, 1>> >>, << <<2, 2>>, <<0, 3>>, <<3, 3>> >> >>,
     << << <<1, 1>>, <<2, 3>>, <<0 - 1, 4>>, <<5, 2>> >> >>,
     << << <<0, 0, 0>>, <<1, 2, 3>>, <<3, 1, 2>>, <<2, 3, 1>> >>,
        << <<1, 1, 1>>, <<3, 3, 0>>, <<0, 2, 2>>, <<2, 0, 5>> >> >> >>

SigCuts ==
  IF Quick THEN << <<<<1, 1>>, <<2, 1>>>>, <<<<1, 2>>, <<3, 2>>>>, <<<<2, 1>>, <<6, 1>>>> >>
  ELSE << <<<<1, 1>>, <<2, 1>>>>, <<<<1, 2>>, <<3, 2>>>>, <<<<2, 1>>, <<6, 1>>>>,
          <<<<3, 2>>, <<5, 2>>>>, <<<<1, 1>>, <<3, 1>>>> >>

BlurMasks(d) ==
  IF d = 2 THEN (IF Quick THEN {<<1, 1>>, <<1, 0>>, <<0, 0>>} ELSE [1..2 -> {0, 1}])
  ELSE (IF Quick THEN {<<1, 1, 1>>, <<1, 1, 0>>, <<0, 0, 0>>}
        ELSE {<<1, 1, 1>>, <<1, 1, 0>>, <<0, 0, 0>>, <<0, 1, 1>>, <<1, 0, 1>>})

BlurGrids ==
  IF Quick
  THEN [1..2 -> 2..5]
       \cup {<<2, 3, 4>>, <<4, 3, 2>>, <<3, 2, 2>>, <<2, 2, 3>>, <<3, 3, 3>>, <<5, 2, 3>>, <<2, 5, 2>>}
  ELSE [1..2 -> 1..6] \cup [1..3 -> 2..4]
       \cup {<<5, 2, 3>>, <<2, 5, 2>>, <<3, 2, 5>>, <<1, 3, 2>>, <<3, 1, 4>>}

InitBlur ==
  \E ngv \in BlurGrids, ci \in 1..Len(BlurCells), pi \in 1..Len(PosSets), sc \in 1..Len(SigCuts) :
    LET d == Len(ngv) IN
    /\ Len(BlurCells[ci].H) = d
    /\ Len(PosSets[pi][1][1]) = d
    /\ \E m \in BlurMasks(d) :
         /\ (7 * SumSeq(ngv) + ngv[1] + 3 * ci + SumSeq(m) + pi + 5 * sc) % NSHARDS = SHARD
         /\ cfg = [ng |-> ngv, H |-> BlurCells[ci].H, bounds |-> BlurCells[ci].bounds, ppp |-> m,
                   pos |-> [f \in 1..Len(PosSets[pi]) |->
                              [j \in 1..Len(PosSets[pi][f]) |-> VAdd(PosSets[pi][f][j], BlurCells[ci].lo)]],
                   sig |-> SigCuts[sc][1], cut |-> SigCuts[sc][2]]
         /\ pc = FirstPoint(ngv)
         /\ acc = [slots |-> EmptySlots(ngv), nvis |-> 0]

\* spec sanity: the product form CgImages is Cell!MinImage (checked on the first
\* grid point of every configuration, against every particle of every frame)
InvImagesAreMinImage ==
  acc.nvis = 0 =>
    \A f \in 1..Len(cfg.pos) : \A j \in 1..Len(cfg.pos[f]) :
      LET M  == GridScale(cfg.ng)
          Hs == [i \in 1..Len(cfg.H) |-> VScale(M, cfg.H[i])]
          v  == VSub(ScaledPoint(cfg.ng, cfg.bounds, pc), VScale(M, cfg.pos[f][j]))
      IN  CgImages(Hs, v, cfg.ppp) = MinImage(Hs, v, cfg.ppp)

IsPow2(n) == n \in {1, 2, 4, 8, 16}
BlurSlot(pt) ==
  [pt  |-> pt,
   pos |-> PointPos(cfg.ng, cfg.bounds, pt),
   fr  |-> [f \in 1..Len(cfg.pos) |->
      LET cl    == Classify(cfg.ng, cfg.bounds, cfg.H, cfg.ppp, pt, cfg.pos[f], cfg.cut)
          ins   == SelectedIn(cl, {"in"})
          both  == SelectedIn(cl, {"in", "edge"})
      IN  [amb   |-> AmbiguousIn(cl),
           nin   |-> Len(ins),
           nedge |-> Len(both) - Len(ins),
           lo    |-> BlurTermOf(cl, cfg.sig, ins),
           hi    |-> IF Len(both) = Len(ins) THEN << >> ELSE BlurTermOf(cl, cfg.sig, both)]]]
BlurCase ==
  [m |-> "blur", ng |-> cfg.ng, H |-> cfg.H, bounds |-> cfg.bounds, ppp |-> cfg.ppp, pos |-> cfg.pos,
   sig |-> cfg.sig, cut |-> cfg.cut,
   exactgrid |-> \A k \in 1..Len(cfg.ng) : IsPow2(Max2(cfg.ng[k] - 1, 1)),
   slots |-> [s \in 1..NPoints(cfg.ng) |-> BlurSlot(acc.slots[s - 1])]]

(***************************************************************************)
(* spatial: pc = cursor (frames of the neighbour file consumed so far),    *)
(* acc = results of the frames averaged so far.                            *)
(***************************************************************************)
NShapes == 6
Shapes == << << >>, <<1>>, <<2, 1>>, <<1, 2, 3>>, <<3, 1>>, <<1, 1>> >>   \* offsets to the listed ids
RowOf(i, shape, N) == [k \in 1..Len(shape) |-> ((i + ((shape[k] - 1) % (N - 1))) % N) + 1]
FrameOf(a, b, N) == [i \in 1..N |-> RowOf(i, Shapes[((a + b * i) % NShapes) + 1], N)]
PropVal(f, i, c, pat) == ((f * 7 + i * i * 3 + c * 5 + i * c + pat) % 11) - 5
RECURSIVE CgPow(_, _)
CgPow(b, e) == IF e = 0 THEN 1 ELSE b * CgPow(b, e - 1)

InitSpatial ==
  \E N \in (IF Quick THEN {3, 4} ELSE {3, 4, 5}), F \in 1..3, a1 \in 0..5, b1 \in 0..5, a2 \in 0..5,
     nmax \in (IF Quick THEN {2, 30} ELSE {1, 2, 30}) :
    LET b2   == IF Quick THEN (b1 + 1) % NShapes ELSE (b1 + a2 + 1) % NShapes
        rank == (a1 + b1) % 3
        d    == 2 + (a1 % 2)
        C    == CgPow(d, rank)
        fl   == << FrameOf(a1, b1, N), FrameOf(a2, b2, N), FrameOf(a1 + a2 + 1, b2 + 2, N) >>
    IN
    /\ (F = 1 => a2 = 0)
    /\ (N + F + a1 + 2 * b1 + 3 * a2 + nmax) % NSHARDS = SHARD
    /\ cfg = [N |-> N, F |-> F, nmax |-> nmax, rank |-> rank, d |-> d,
              file |-> SubSeq(fl, 1, F),
              prop |-> [f \in 1..F |-> [i \in 1..N |-> [c \in 1..C |-> PropVal(f, i, c, a1 + nmax)]]]]
    /\ pc = 0
    /\ acc = << >>

\* linearization point: read_neighbors returned the frame under the cursor and
\* frame Len(acc)+1 of the property has been averaged with it
AvgFrame ==
  /\ Mode = "spatial"
  /\ Len(acc) < cfg.F
  /\ acc' = Append(acc, SpatialStep(cfg.file, pc, cfg.prop[Len(acc) + 1], cfg.nmax))
  /\ pc'  = pc + 1
  /\ UNCHANGED cfg

InvCursorFollowsFrames == pc = Len(acc)
InvSpatialMeanDefinition ==
  \A f \in 1..Len(acc) : \A i \in 1..cfg.N : \A c \in 1..Len(cfg.prop[f][i]) :
    /\ SpatialDenW(cfg.prop[f], cfg.file[f], cfg.nmax, i) = SpatialDen(cfg.file[f], cfg.nmax, i)
    /\ acc[f][i][c] = RNorm(SpatialNumW(cfg.prop[f], cfg.file[f], cfg.nmax, i, c),
                            SpatialDenW(cfg.prop[f], cfg.file[f], cfg.nmax, i))
InvSpatialConvex ==
  \A f \in 1..Len(acc) : \A i \in 1..cfg.N : \A c \in 1..Len(cfg.prop[f][i]) :
    LET part == {j \in 1..cfg.N : Weight(cfg.file[f], cfg.nmax, i, j) > 0}
        v    == acc[f][i][c]
    IN  /\ \E j \in part : cfg.prop[f][j][c] * v[2] <= v[1]
        /\ \E j \in part : cfg.prop[f][j][c] * v[2] >= v[1]
InvSpatialConstant ==
  \A f \in 1..Len(acc) :
    LET k7 == [i \in 1..cfg.N |-> <<7>>] IN
    \A i \in 1..cfg.N : SpatialAvgFrame(k7, cfg.file[f], cfg.nmax)[i][1] = <<7, 1>>
InvNoSelfCountedTwice ==     \* scope sanity: the lists of the scope never contain the particle itself
  \A f \in 1..cfg.F : \A i \in 1..cfg.N : Mult(cfg.file[f][i], i) = 0

SpatialCase ==
  [m |-> "spatial", N |-> cfg.N, F |-> cfg.F, nmax |-> cfg.nmax, rank |-> cfg.rank, d |-> cfg.d,
   file |-> cfg.file, prop |-> cfg.prop, exp |-> acc]

(***************************************************************************)
(* window: pc = n (start of the next window, frames numbered from 0),      *)
(* acc = rows produced so far.                                             *)
(***************************************************************************)
InitWindow ==
  \E T \in (IF Quick THEN 3..6 ELSE 3..9), N \in 1..2, C \in 1..2,
     dts \in {1, 10}, dti \in 1..3 :
    LET dt == << <<1, 2>>, <<1, 8>>, <<3, 4>> >>[dti] IN
    \E m4 \in 4..(4 * (T - 1) + 3) :
      /\ (Quick => (N + C + dts + dti) % 2 = 0)
      /\ (T + N + C + dts + dti + m4) % NSHARDS = SHARD
      /\ cfg = [T |-> T, N |-> N, C |-> C, dts |-> dts, dt |-> dt, m4 |-> m4,
                period |-> RMul(Interval(dts, dt), <<m4, 4>>),
                ts |-> [f \in 1..T |-> 1000 + (f - 1) * dts],
                prop |-> [f \in 1..T |-> [i \in 1..N |-> [c \in 1..C |-> PropVal(f, i, c, m4)]]]]
      /\ pc = 0
      /\ acc = << >>

W == WindowLen(cfg.dts, cfg.dt, cfg.period)

Window ==
  /\ Mode = "window"
  /\ pc + W <= cfg.T
  /\ acc' = Append(acc, [mean   |-> [i \in 1..cfg.N |-> [c \in 1..cfg.C |-> WindowMean(cfg.prop, pc, W, i, c)]],
                         centre |-> CentreSet(pc, W)])
  /\ pc' = pc + 1
  /\ UNCHANGED cfg

InvWindowLenIsFloor ==
  LET iv == Interval(cfg.dts, cfg.dt) IN
  /\ RLeq(RMul(<<W, 1>>, iv), cfg.period)
  /\ RLt(cfg.period, RMul(<<W + 1, 1>>, iv))
InvExactMultiple == cfg.m4 % 4 = 0 => W = cfg.m4 \div 4
InvWindowComplete == \A k \in 1..Len(acc) : WindowFrames(k - 1, W) \subseteq 0..(cfg.T - 1)
InvWindowCentre ==
  \A k \in 1..Len(acc) : \A c \in acc[k].centre :
    LET n == k - 1 IN
    /\ c \in WindowFrames(n, W)
    /\ Abs((c - n) - (n + W - 1 - c)) <= 1
    /\ (W % 2 = 1 => (c - n = n + W - 1 - c /\ Cardinality(acc[k].centre) = 1))
InvWindowMeanDefinition ==
  \A k \in 1..Len(acc) : \A i \in 1..cfg.N : \A c \in 1..cfg.C :
    LET fr == WindowFrames(k - 1, W)
        s  == SumSeq([g \in 1..cfg.T |-> IF (g - 1) \in fr THEN cfg.prop[g][i][c] ELSE 0])
    IN  /\ Cardinality(fr) = W
        /\ acc[k].mean[i][c] = RNorm(s, Cardinality(fr))
InvRowsAtMostComplete == Len(acc) <= cfg.T - W + 1

WindowDone == pc + W > cfg.T
WindowCase ==
  [m |-> "window", T |-> cfg.T, N |-> cfg.N, C |-> cfg.C, ts |-> cfg.ts, dt |-> cfg.dt, period |-> cfg.period,
   w |-> W, rows |-> SortedSeq(RowsSet(cfg.T, W)), prop |-> cfg.prop,
   exp |-> [k \in 1..Len(acc) |-> [mean |-> acc[k].mean, centre |-> SortedSeq(acc[k].centre)]]]

(***************************************************************************)
Init ==
  CASE Mode = "grid"    -> InitGrid
    [] Mode = "blur"    -> InitBlur
    [] Mode = "spatial" -> InitSpatial
    [] Mode = "window"  -> InitWindow

Next ==
  \/ (Mode \in {"grid", "blur"} /\ Visit)
  \/ AvgFrame
  \/ Window

Spec == Init /\ [][Next]_vars

\* ---- emission (direction A): one case per finished behaviour ----
Emit ==
  Gen =>
    CASE Mode = "blur"    -> (pc = << >> => PrintT(ToJson(BlurCase)))
      [] Mode = "spatial" -> (Len(acc) = cfg.F => PrintT(ToJson(SpatialCase)))
      [] Mode = "window"  -> (WindowDone => PrintT(ToJson(WindowCase)))
      [] OTHER            -> TRUE
=============================================================================
