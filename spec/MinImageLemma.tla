-------------------------- MODULE MinImageLemma --------------------------
(* Checked with APALACHE (symbolic, unbounded integers; TLC cannot: its     *)
(* integers are enumerated).  harness/c02.py runs                           *)
(*   apalache-mc check --init=Init --inv=<lemma> --length=0                 *)
(* for every lemma below, expects NoError, and expects a counterexample for *)
(* the deliberately false HalfCellStrict (non-vacuity of the encoding).     *)
(* MC_Cell!InvNearestIsLemmaSet ties the set used by TLC (Exact!NearestSet, *)
(* written with \div) to the Characterisation proved here, on every state   *)
(* of the bounded scope.                                                    *)
(*                                                                          *)
(* Unbounded one-axis lemma behind Cell!MinImage (property C02): for every  *)
(* integer numerator n and positive denominator d, every member k of        *)
(* NearestSet(n, d) leaves a remainder n - k d with 2 |n - k d| <= d, the    *)
(* set has one member off ties and two on a tie, it is invariant under       *)
(* n -> n + m d up to the shift k -> k + m, and the image is a fixed point.  *)
EXTENDS Integers

VARIABLES
  \* @type: Int;
  f0,       \* the floor of n/d (its existence is the Euclidean division axiom; Init picks it)
  \* @type: Int;
  n,
  \* @type: Int;
  d,
  \* @type: Int;
  m

\* floor division written out (Apalache's \div truncates like TLC's for positive divisors only)
\* f is THE integer with f d <= n < (f + 1) d
IsFloor(f, nn, dd) == f * dd <= nn /\ nn < (f + 1) * dd

\* @type: (Int, Int, Int) => Bool;
InNearest(k, nn, dd) ==
  \E f \in {k - 1, k} : IsFloor(f, nn, dd) /\      \* the floor of nn/dd can only be k or k - 1 when k is a nearest integer
     LET rem == nn - f * dd IN
       \/ (2 * rem < dd /\ k = f)
       \/ (2 * rem > dd /\ k = f + 1)
       \/ (2 * rem = dd /\ (k = f \/ k = f + 1))

Abs(x) == IF x < 0 THEN -x ELSE x

Init == n \in Int /\ d \in Int /\ m \in Int /\ d > 0 /\ f0 \in Int /\ IsFloor(f0, n, d)
Next == UNCHANGED <<n, d, m, f0>>

HalfCell == \A k \in Int : InNearest(k, n, d) => 2 * Abs(n - k * d) <= d
\* deliberately false (strict): must be refuted - guards against a vacuous encoding
HalfCellStrict == \A k \in Int : InNearest(k, n, d) => 2 * Abs(n - k * d) < d
\* some member always exists, and two members differ by at most one (exactly on a tie)
NonEmpty == InNearest(f0, n, d) \/ InNearest(f0 + 1, n, d)
\* the set is exactly the closed half-cell condition
Characterisation == \A k \in Int : InNearest(k, n, d) <=> (0 - d <= 2 * (n - k * d) /\ 2 * (n - k * d) <= d)
AtMostTwo == \A k1, k2 \in Int : (InNearest(k1, n, d) /\ InNearest(k2, n, d)) =>
               (k1 = k2 \/ ((k1 = k2 + 1 \/ k2 = k1 + 1) /\ 2 * Abs(n - k1 * d) = d))
\* adding m lattice vectors shifts the image count by m and leaves the remainder unchanged
ShiftInvariant == \A k \in Int : InNearest(k, n, d) <=> InNearest(k + m, n + m * d, d)
\* applying twice = applying once: 0 is admissible for the remainder
Idempotent == \A k \in Int : InNearest(k, n, d) => InNearest(0, n - k * d, d)
\* off ties the remainder is the unique shortest representative: any other image is longer
Shortest == \A k, j \in Int : InNearest(k, n, d) => Abs(n - k * d) <= Abs(n - j * d)
=============================================================================
