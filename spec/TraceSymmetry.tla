--------------------------- MODULE TraceSymmetry ---------------------------
(***************************************************************************)
(* Trace validation for C07 (direction B): discrete outputs recorded from  *)
(* the real code on (sub-samples of) the repository's sample trajectories, *)
(* before and after a word of generators, are accepted or rejected by the  *)
(* specification.  The id permutation and the species map are re-derived   *)
(* HERE from the logged generator parameters with Symmetry!PermOf /        *)
(* Symmetry!SwapOf (particle numbers of a few hundred, where the small     *)
(* scope of MC_Symmetry does not reach); the driver's own permutation is   *)
(* not trusted.                                                            *)
(*                                                                         *)
(* Records:                                                                *)
(*  [op |-> "sets", N, word, base, img, skip]                              *)
(*     base[i] / img[i] = neighbour ids (1-based) listed for particle i    *)
(*     before / after; skip = ids whose decision is float-fragile (tie).   *)
(*     Accepted iff  img[pi(i)] = pi(base[i])  as sets for every other i.  *)
(*  [op |-> "hist", K, word, base, img, skip]                              *)
(*     base[q][k] / img[q][k] = ordered-pair count of column q (order of   *)
(*     PairHist!ColSeq(K)) in bin k; skip = fragile bins.  Accepted iff    *)
(*     the column of species pair (a,b) reappears as the column of         *)
(*     (sigma a, sigma b).                                                 *)
(***************************************************************************)
EXTENDS Symmetry, Json, IOUtils

Tr == ndJsonDeserialize(IOEnv.TRACE_FILE)

VARIABLES l, bad
vars == <<l, bad>>

RECURSIVE PiFrom(_, _, _, _)
PiFrom(wd, k, n, acc) ==
  IF k > Len(wd) THEN acc
  ELSE IF wd[k].kind = "relabel"
       THEN LET p == TLCEval(PermOf(wd[k], n)) IN PiFrom(wd, k + 1, n, TLCEval([i \in 1..n |-> p[acc[i]]]))
       ELSE PiFrom(wd, k + 1, n, acc)
PiWord(wd, n) == PiFrom(wd, 1, n, IdPerm(n))

RECURSIVE SigFrom(_, _, _, _)
SigFrom(wd, k, K, acc) ==
  IF k > Len(wd) THEN acc
  ELSE IF wd[k].kind = "swap"
       THEN LET s == SwapOf(wd[k], K) IN SigFrom(wd, k + 1, K, [a \in 1..K |-> s[acc[a]]])
       ELSE SigFrom(wd, k + 1, K, acc)
SigWord(wd, K) == SigFrom(wd, 1, K, IdPerm(K))

RelabelsOK(wd, n) == \A k \in 1..Len(wd) : wd[k].kind = "relabel" => RelabelOK(wd[k], n)
SwapsOK(wd, K)    == \A k \in 1..Len(wd) : wd[k].kind = "swap" => (wd[k].a \in 1..K /\ wd[k].b \in 1..K /\ wd[k].a # wd[k].b)

WhySets(rec) ==
  IF ~RelabelsOK(rec.word, rec.N) THEN "RelabelNotBijective"
  ELSE LET pi == PiWord(rec.word, rec.N)
           sk == Range(rec.skip)
       IN  IF Len(rec.base) # rec.N \/ Len(rec.img) # rec.N THEN "Shape"
           ELSE IF Range(pi) # 1..rec.N THEN "RelabelNotBijective"
           ELSE IF \E i \in (1..rec.N) \ sk : {pi[j] : j \in Range(rec.base[i])} # Range(rec.img[pi[i]])
                THEN "NeighbourSetsFollowIds"
                ELSE ""

WhyHist(rec) ==
  IF ~SwapsOK(rec.word, rec.K) THEN "SwapOutOfRange"
  ELSE LET sig  == SigWord(rec.word, rec.K)
           cols == PH!ColSeq(rec.K)
           sk   == Range(rec.skip)
       IN  IF Len(rec.base) # Len(cols) \/ Len(rec.img) # Len(cols) THEN "Columns"
           ELSE IF \E q \in 1..Len(cols) : Len(rec.img[q]) # Len(rec.base[q]) THEN "NumberOfBins"
           ELSE IF \E q \in 1..Len(cols) : \E k \in (1..Len(rec.base[q])) \ sk :
                     rec.img[ColIndex(rec.K, MapCol(sig, cols[q]))][k] # rec.base[q][k]
                THEN "PartialColumnsFollowLabels"
                ELSE ""

Why(rec) == IF rec.op = "sets" THEN WhySets(rec) ELSE IF rec.op = "hist" THEN WhyHist(rec) ELSE "UnknownRecord"

Init == l = 1 /\ bad = ""
Step == /\ l <= Len(Tr) /\ bad = ""
        /\ LET wy == Why(Tr[l]) IN
           IF wy = "" THEN l' = l + 1 /\ bad' = "" ELSE l' = l /\ bad' = wy
Spec == Init /\ [][Step]_vars
Accepted == bad = ""
=============================================================================
