---------------------------- MODULE MC_Neighbors ----------------------------
(***************************************************************************)
(* Models for property C05.                                                *)
(*  "lattice"  exhaustive: 4 particles in an 8 x 8 cell (orthogonal and    *)
(*             triclinic), three on the even sub-lattice, one on odd       *)
(*             sites, all masks, two species assignments                   *)
(*  "hash"     N in {5, 9}, 2-D/3-D, 4 cells, 3 masks, 1 or 3 frames,      *)
(*             K = 1..3 species, hashed half-integer positions             *)
(*  "reader"   the reader as a state machine: one Read(nmax) action per    *)
(*             call on one open handle over a set of abstract files        *)
(* Each configuration carries its operations (N-nearest, global cut-off,   *)
(* type-pair cut-off matrices); the C05 clauses are INVARIANTs on the      *)
(* canonical lists; Gen prints the inputs, which the harness runs through  *)
(* the real writers/reader and hands back as a trace (TraceNeighbors).     *)
(***************************************************************************)
EXTENDS Neighbors, Json

CONSTANTS Tier, Mode, Gen, SHARD, NSHARDS, SAMPLE, SALT

VARIABLES c
vars == <<c>>

Tri2(a, t, b) == << <<a, 0>>, <<t, b>> >>
Tri3(a, b, cc, xy, xz, yz) == << <<a, 0, 0>>, <<xy, b, 0>>, <<xz, yz, cc>> >>

\* ------------------------------------------------------------- lattice
Even == {0, 2, 4, 6}
Odd  == {1, 3, 5, 7}
LatConfigs ==
  { [H |-> h, ppp |-> p, S |-> 1, types |-> t, sharp |-> 1,
     frames |-> << << <<0, 0>>, p2, p3, p4 >> >>] :
      h \in {Tri2(8, 0, 8), Tri2(8, 3, 8)}, p \in [1..2 -> {0, 1}],
      t \in {<<1, 1, 1, 1>>, <<1, 2, 2, 1>>},
      p2 \in Even \X Even,
      p3 \in (IF Tier = "quick" THEN Even \X {0, 4} ELSE Even \X Even),
      p4 \in (IF Tier = "quick" THEN {1, 5} \X {1} ELSE Odd \X {1, 5}) }
LatOps(t) ==
  << [kind |-> "nn", n |-> 1], [kind |-> "nn", n |-> 2], [kind |-> "nn", n |-> 3],
     [kind |-> "cut", rn |-> 2], [kind |-> "cut", rn |-> 3], [kind |-> "cut", rn |-> 4], [kind |-> "cut", rn |-> 5],
     [kind |-> "cuttype", R |-> IF Range(t) = {1} THEN << <<4>> >> ELSE << <<3, 5>>, <<2, 4>> >>] >>

\* ------------------------------------------------------------- hash
Cells2 == << Tri2(16, 0, 16), Tri2(16, 0, 12), Tri2(16, 5, 12), Tri2(16, 0 - 6, 16) >>
Cells3 == << Tri3(8, 8, 8, 0, 0, 0), Tri3(8, 12, 8, 0, 0, 0), Tri3(8, 8, 8, 3, 0 - 2, 1), Tri3(12, 8, 8, 0 - 5, 3, 0 - 3) >>
MasksOf(d) == IF d = 2 THEN << <<1, 1>>, <<0, 0>>, <<1, 0>> >> ELSE << <<1, 1, 1>>, <<0, 0, 0>>, <<0, 1, 1>> >>
P == 46337
Scr(x) == ((x % P) * (x % P) + 3 * (x % P) + 7) % P
Hash(seed, f, i, k) == Scr(Scr(7919 * seed + 4733 * f + 3571 * i + 2909 * k) + seed)
HPos(seed, f, i, k, L) == (Hash(seed, f, i, k) % (2 * L)) - (L \div 2)
HTypes(seed, n, K) == [i \in 1..n |-> IF i <= K THEN i ELSE 1 + (Scr(seed + 31 * i) % K)]
Reps == IF Tier = "quick" THEN 1 ELSE 12
NHash == 2 * 2 * 4 * 3 * 2 * 3 * Reps
HashConfig(s) ==
  LET ni == s % 2
      d  == 2 + ((s \div 2) % 2)
      ci == 1 + ((s \div 4) % 4)
      mi == 1 + ((s \div 16) % 3)
      nf == IF (s \div 48) % 2 = 0 THEN 1 ELSE 3
      K  == 1 + ((s \div 96) % 3)
      h  == IF d = 2 THEN Cells2[ci] ELSE Cells3[ci]
      n  == IF ni = 0 THEN 5 ELSE 9
      \* three-frame members with two species: the cell is sheared from frame to frame (tilts change,
      \* edge lengths do not), as in a simple-shear run
      Sh(a, b) == [k \in 1..d |-> [j \in 1..d |-> IF j < k THEN h[k][j] + (IF (k + j) % 2 = 1 THEN a ELSE b) ELSE h[k][j]]]
      base == [ H |-> h, ppp |-> MasksOf(d)[mi], S |-> 2, types |-> HTypes(s, n, K),
                frames |-> [f \in 1..nf |-> [i \in 1..n |-> [k \in 1..d |-> HPos(s, f, i, k, h[k][k])]]],
                sharp |-> (IF DyadicCell(h) THEN 1 ELSE 0), id |-> s ]
      \* three-frame members with more than one species also carry per-frame species labels: the labels move
      \* between the particles at constant composition (identity-swap moves), so the type-pair cut-off of a
      \* pair is decided by the labels of THAT frame
      ty0  == HTypes(s, n, K)
      Rot(t, r) == [i \in 1..n |-> t[((i - 1 + r) % n) + 1]]
      withH == IF nf = 3 /\ K = 2 THEN base @@ [Hs |-> <<h, Sh(3, 0 - 2), Sh(0 - 5, 4)>>] ELSE base
  IN  IF nf = 3 /\ K >= 2 THEN withH @@ [tys |-> <<ty0, Rot(ty0, 2), Rot(ty0, 5)>>] ELSE withH
RMat(K) == IF K = 1 THEN << <<7>> >>
           ELSE IF K = 2 THEN << <<6, 9>>, <<4, 8>> >>
           ELSE << <<6, 9, 5>>, <<4, 8, 10>>, <<7, 3, 6>> >>
HashOps(cfg) ==
  << [kind |-> "nn", n |-> 1], [kind |-> "nn", n |-> 3], [kind |-> "nn", n |-> NPart(cfg) - 1],
     [kind |-> "cut", rn |-> 6], [kind |-> "cut", rn |-> 9],
     [kind |-> "cuttype", R |-> RMat(NSpecies(cfg))] >>

Ops(cfg) == IF Mode = "lattice" THEN LatOps(cfg.types) ELSE HashOps(cfg)

\* ------------------------------------------------------------- reader
\* rows of abstract frames for 3 particles (ids or integer weights)
R0(i)     == [id |-> i, cn |-> 0, ids |-> << >>]
R1(i, a)  == [id |-> i, cn |-> 1, ids |-> <<a>>]
R2(i, a, b) == [id |-> i, cn |-> 2, ids |-> <<a, b>>]
R3(i, a, b, d) == [id |-> i, cn |-> 3, ids |-> <<a, b, d>>]
FrameSet == { << R2(1, 2, 3), R2(2, 3, 1), R2(3, 1, 2) >>,
              << R1(1, 3), R0(2), R1(3, 1) >>,
              << R3(1, 3, 2, 3), R1(2, 1), R2(3, 2, 1) >>,
              << R0(1), R0(2), R0(3) >>,
              << R3(1, 2, 3, 2), R3(2, 1, 3, 1), R3(3, 2, 1, 1) >>,
              << R1(1, 2), R2(2, 1, 3), R1(3, 2) >> }
Files == {<<a>> : a \in FrameSet} \cup {<<a, b>> : a \in FrameSet, b \in FrameSet}
         \cup {<<a, b, a>> : a \in FrameSet, b \in FrameSet}
NmaxSet == {1, 2, 5}

Init ==
  \/ /\ Mode = "lattice"
     /\ c \in LatConfigs
     /\ (c.frames[1][2][1] + 3 * c.frames[1][3][2] + 5 * c.frames[1][2][2] + 7 * c.frames[1][4][1]) % NSHARDS = SHARD
  \/ /\ Mode = "hash"
     /\ \E s \in 0..(NHash - 1) : s % NSHARDS = SHARD /\ c = HashConfig(s)
  \/ /\ Mode = "reader"
     /\ \E fl \in Files, sh \in {0, 1} :
          c = [file |-> fl, shift |-> sh, cursor |-> 0, last |-> << >>, hist |-> << >>]
     /\ (Len(c.file) + c.shift + c.file[1][1].cn + 3 * c.file[Len(c.file)][3].cn) % NSHARDS = SHARD

\* linearization point: return of read_neighbors(f, 3, nmax) on the shared handle
Read(nmax) ==
  /\ Mode = "reader"
  /\ c.cursor < Len(c.file)
  /\ c' = [c EXCEPT !.cursor = @ + 1,
                    !.last = ReadFrame(c.file[c.cursor + 1], 3, nmax, c.shift),
                    !.hist = Append(@, nmax)]
Next == \E nmax \in NmaxSet : Read(nmax)
Spec == Init /\ [][Next]_vars

IsConfig == Mode # "reader"
Frames   == 1..Len(c.frames)
OpSet    == Range(Ops(c))

\* every clause quantifies over the frames and operations of the configuration; the distance
\* table and the expected lists are evaluated once per frame / per (frame, operation)
ForAllFrameOps(Clause(_, _, _)) ==
  IsConfig => \A f \in Frames : LET T == DT(c, f) IN
               \A op \in OpSet : LET E == ET(T, TypesAt(c, f), c.sharp, op) IN Clause(T, E, op)
InvNoSelf     == ForAllFrameOps(LAMBDA T, E, op : NoSelf(T, E))
InvSorted     == ForAllFrameOps(LAMBDA T, E, op : SortedByDistance(T, E))
InvNClosest   == ForAllFrameOps(LAMBDA T, E, op : ExactlyNClosest(T, E, op))
InvCutoff     == ForAllFrameOps(LAMBDA T, E, op : CutoffInclusive(T, E, c.sharp, op))
InvSymmetric  == ForAllFrameOps(LAMBDA T, E, op : GlobalCutoffSymmetric(T, E, c.sharp, op))
InvAccepts    == ForAllFrameOps(LAMBDA T, E, op : AcceptsCanonical(T, E) /\ RejectsSwap(T, E))
InvReadBack   == ForAllFrameOps(LAMBDA T, E, op : \A nmax \in NmaxSet : ReadBackIsWrittenModuloTruncation(T, E, nmax))

\* reader state machine
InvCnBounded  == (Mode = "reader" /\ c.cursor > 0) =>
                   \A i \in 1..3 : c.last[i][1] <= c.hist[c.cursor] /\ c.last[i][1] <= c.file[c.cursor][i].cn
InvPaddingZero == (Mode = "reader" /\ c.cursor > 0) =>
                   \A i \in 1..3 : \A k \in 2..Len(c.last[i]) : k - 1 > c.last[i][1] => c.last[i][k] = 0
InvWidth      == (Mode = "reader" /\ c.cursor > 0) =>
                   \A i \in 1..3 : Len(c.last[i]) = Min2(MaxCn(c.file[c.cursor]), c.hist[c.cursor]) + 1
FramesInOrder == [][c'.cursor = c.cursor + 1 /\ c'.file = c.file]_vars

Key == IF Mode = "lattice"
       THEN LET f == c.frames[1] IN f[2][1] + 5 * f[2][2] + 11 * f[3][1] + 17 * f[3][2] + 23 * f[4][1] + 29 * f[4][2]
                                    + 31 * c.ppp[1] + 37 * c.ppp[2] + 41 * c.H[2][1] + 43 * c.types[2]
       ELSE 0
Selected == Key % SAMPLE = SALT % SAMPLE
Emit ==
  Gen =>
    IF IsConfig THEN (Selected => PrintT(ToJson([cfg |-> c, ops |-> Ops(c)])))
    ELSE (c.cursor = Len(c.file) => PrintT(ToJson([file |-> c.file, shift |-> c.shift, nmaxs |-> c.hist])))
=============================================================================
