------------------------------ MODULE Geometry ------------------------------
(***************************************************************************)
(* PyMatterSim/utils/geometry.py (growth check X01; no listed property:    *)
(* the reference is the docstring and docs/utils.md).                      *)
(*                                                                         *)
(*  triangle_area(positions, hmatrix, ppp)   Heron's formula on the three  *)
(*        minimum-image side lengths |p1-p2|, |p1-p3|, |p2-p3|             *)
(*  triangle_angle(a, b, c)                  the angle opposite to side c  *)
(*        (law of cosines)                                                 *)
(*  lines_intersection(P1, P2, P3, P4)       intersection of the lines     *)
(*        through P1,P2 and through P3,P4 (2-D, Cramer's rule)             *)
(*  LineWithinSquare(P1..P4, R0, vector)     the point where the ray from  *)
(*        the interior point R0 towards R1 = R0 - vector leaves the convex *)
(*        quadrilateral P1 P2 P3 P4 (corners listed anti-clockwise)        *)
(*                                                                         *)
(* Points are integer vectors in units of 1/S (S chosen by the model).     *)
(* Everything discrete (which image, whether the wrapped sides close,      *)
(* which edge the ray leaves through, the intersection point as an exact   *)
(* rational) is decided here; areas and angles are stated as Real terms.   *)
(***************************************************************************)
EXTENDS Cell, Real, TLC

\* ------------------------------------------------------------ triangle_area
\* the three differences in the order the routine forms them
TriDiffs(P) == <<VSub(P[1], P[2]), VSub(P[1], P[3]), VSub(P[2], P[3])>>

\* admissible triples of wrapped side vectors (a singleton off half-cell ties).
\* The three sides are wrapped INDEPENDENTLY: with periodic boundaries they need not
\* close to a triangle (R12 + R23 # R13); the routine then still returns Heron's
\* expression of the three wrapped lengths, and this is what the specification says.
TriWrapped(H, P, ppp) ==
  LET d == TriDiffs(P) IN
  {<<w1, w2, w3>> : w1 \in MinImage(H, d[1], ppp), w2 \in MinImage(H, d[2], ppp),
                    w3 \in MinImage(H, d[3], ppp)}
Closes(w)  == VAdd(w[1], w[3]) = w[2]                 \* R12 + R23 = R13
Side2(w)   == <<Norm2(w[1]), Norm2(w[2]), Norm2(w[3])>>
TriSide2Set(H, P, ppp) == {Side2(w) : w \in TriWrapped(H, P, ppp)}

\* 16 A^2 = (a+b+c)(-a+b+c)(a-b+c)(a+b-c) in squared side lengths (an exact integer)
Heron16(s2) == 2 * (s2[1] * s2[2] + s2[2] * s2[3] + s2[3] * s2[1])
               - (s2[1] * s2[1] + s2[2] * s2[2] + s2[3] * s2[3])
\* |u x v|^2 (2-D: the square of the scalar cross product)
Cross2D(u, v) == u[1] * v[2] - u[2] * v[1]
CrossNorm2(u, v) ==
  IF Len(u) = 2 THEN Cross2D(u, v) * Cross2D(u, v)
  ELSE LET cx == u[2] * v[3] - u[3] * v[2]
           cy == u[3] * v[1] - u[1] * v[3]
           cz == u[1] * v[2] - u[2] * v[1]
       IN  cx * cx + cy * cy + cz * cz

\* Heron's formula as the routine documents it, on three length terms
HeronRadicandT(a, b, c) ==
  LET p == Div(Add(<<a, b, c>>), I(2)) IN Mul(<<p, Sub(p, a), Sub(p, b), Sub(p, c)>>)
\* ... with the data filled in: lengths sqrt(s2[k]) / S
LenTerm(n2, S) == Div(Sqrt(I(n2)), I(S))
HeronRadicand(s2, S) == HeronRadicandT(LenTerm(s2[1], S), LenTerm(s2[2], S), LenTerm(s2[3], S))
HeronTerm(s2, S) == Sqrt(HeronRadicand(s2, S))

\* model-level clauses
\* (1) when the wrapped sides close, Heron's value is the cross-product area: 16 A^2 = 4 |R12 x R13|^2
HeronIsCrossWhenClosed(H, P, ppp) ==
  \A w \in TriWrapped(H, P, ppp) : Closes(w) => Heron16(Side2(w)) = 4 * CrossNorm2(w[1], w[2])
\* (2) in an orthogonal cell the wrapped lengths always satisfy the triangle inequality
\*     (the minimum image is the shortest image), so the radicand is never negative
RadicandNonNegOrthogonal(H, P, ppp) ==
  IsDiagonal(H) => \A w \in TriWrapped(H, P, ppp) : Heron16(Side2(w)) >= 0
\* (3) without periodicity the sides always close
ClosesWithoutPbc(H, P, ppp) ==
  (\A k \in 1..Len(ppp) : ppp[k] = 0) => \A w \in TriWrapped(H, P, ppp) : Closes(w)
\* (4) the area does not depend on the order of the three points
TriPerms == {<<2, 1, 3>>, <<1, 3, 2>>}          \* two transpositions generate all six orders
SortedTriple(s) ==
  LET lo == Min2(s[1], Min2(s[2], s[3]))
      hi == Max2(s[1], Max2(s[2], s[3]))
  IN  <<lo, s[1] + s[2] + s[3] - lo - hi, hi>>
PermutationInvariantOffTies(H, P, ppp) ==
  (\A k \in 1..3 : ~HasTie(H, TriDiffs(P)[k], ppp)) =>
    \A pi \in TriPerms :
      {SortedTriple(s) : s \in TriSide2Set(H, <<P[pi[1]], P[pi[2]], P[pi[3]]>>, ppp)}
        = {SortedTriple(s) : s \in TriSide2Set(H, P, ppp)}

\* ------------------------------------------------------------ triangle_angle
\* cos C = (a^2 + b^2 - c^2) / (2 a b) as an exact rational for integer sides
AngleCos(a, b, c) == RNorm(a * a + b * b - c * c, 2 * a * b)
\* the documented value for side lengths given as terms
AngleTerm(a, b, c) ==
  Acos(Div(Add(<<Mul2(a, a), Mul2(b, b), Neg(Mul2(c, c))>>), Mul3(I(2), a, b)))
IsTriangle(a, b, c) == a + b >= c /\ a + c >= b /\ b + c >= a
\* The three angles of a triangle sum to pi, stated exactly on the cosines: cos C = -cos(A + B), i.e.
\*   cos C + cos A cos B = sin A sin B   with sin A sin B >= 0.
\* With x = b^2+c^2-a^2, y = a^2+c^2-b^2, z = a^2+b^2-c^2 (cos A = x/2bc, cos B = y/2ac, cos C = z/2ab)
\* and h = 16 Area^2:  sin^2 A = (4b^2c^2 - x^2)/(4b^2c^2) = h/(4b^2c^2), sin^2 B = h/(4a^2c^2), so
\* sin A sin B = h/(4abc^2), while cos C + cos A cos B = (2c^2 z + x y)/(4abc^2).  The clause is therefore
\* the integer identity 2c^2 z + x y = h together with the two sine identities and h >= 0.
AnglesSumToPi(a, b, c) ==
  LET xx == b * b + c * c - a * a
      yy == a * a + c * c - b * b
      zz == a * a + b * b - c * c
      h  == Heron16(<<a * a, b * b, c * c>>)
  IN  /\ h >= 0
      /\ 4 * b * b * c * c - xx * xx = h
      /\ 4 * a * a * c * c - yy * yy = h
      /\ 2 * c * c * zz + xx * yy = h
CosInRange(a, b, c) == LET q == AngleCos(a, b, c) IN Abs(q[1]) <= q[2]
\* angles known in closed form: "right" (pi/2), "equi" (pi/3), "flat" (pi), "zero" (0), else ""
AngleClosedForm(a, b, c) ==
  LET q == AngleCos(a, b, c) IN
  IF q[1] = 0 THEN "right" ELSE IF q = <<1, 2>> THEN "equi"
  ELSE IF q = <<0 - 1, 1>> THEN "flat" ELSE IF q = <<1, 1>> THEN "zero" ELSE ""
ClosedFormTerm(name) ==
  IF name = "right" THEN Div(Pi, I(2)) ELSE IF name = "equi" THEN Div(Pi, I(3))
  ELSE IF name = "flat" THEN Pi ELSE I(0)

\* ------------------------------------------------------------ lines_intersection
LinD(A, B, C, E) == (A[1] - B[1]) * (C[2] - E[2]) - (A[2] - B[2]) * (C[1] - E[1])
LinNumX(A, B, C, E) ==
  (A[1] * B[2] - A[2] * B[1]) * (C[1] - E[1]) - (A[1] - B[1]) * (C[1] * E[2] - C[2] * E[1])
LinNumY(A, B, C, E) ==
  (A[1] * B[2] - A[2] * B[1]) * (C[2] - E[2]) - (A[2] - B[2]) * (C[1] * E[2] - C[2] * E[1])
\* the intersection point as a pair of exact rationals; domain: LinD # 0 (parallel lines excluded)
LinPoint(A, B, C, E) ==
  <<RNorm(LinNumX(A, B, C, E), LinD(A, B, C, E)), RNorm(LinNumY(A, B, C, E), LinD(A, B, C, E))>>
\* a rational point q lies on the line through the integer points A, B
OnLine(A, B, q) ==
  REq(RMul(RInt(B[1] - A[1]), RSub(q[2], RInt(A[2]))), RMul(RInt(B[2] - A[2]), RSub(q[1], RInt(A[1]))))
PointOnBothLines(A, B, C, E) ==
  LET q == LinPoint(A, B, C, E) IN OnLine(A, B, q) /\ OnLine(C, E, q)
SwapSymmetric(A, B, C, E) ==
  LET q == LinPoint(A, B, C, E) IN
  /\ LinPoint(C, E, A, B) = q /\ LinPoint(B, A, C, E) = q
  /\ LinPoint(A, B, E, C) = q /\ LinPoint(E, C, B, A) = q

\* ------------------------------------------------------------ LineWithinSquare
\* Qd = <<P1, P2, P3, P4>> anti-clockwise, R0 strictly inside, u = -vector # 0 the direction of the ray.
Succ4(k) == (k % 4) + 1
ConvexCCW(Qd) ==
  \A k \in 1..4 : Cross2D(VSub(Qd[Succ4(k)], Qd[k]), VSub(Qd[Succ4(Succ4(k))], Qd[Succ4(k)])) > 0
StrictlyInside(Qd, R0) ==
  \A k \in 1..4 : Cross2D(VSub(Qd[Succ4(k)], Qd[k]), VSub(R0, Qd[k])) > 0
\* edge k runs from Qd[k] to Qd[k+1]; the ray leaves through it iff u lies in the cone spanned by the
\* two corner directions (the cone is narrower than pi because R0 is strictly inside).  A ray exactly
\* through a corner is admissible for both adjacent edges (they give the same point).
ExitEdges(Qd, R0, u) ==
  {k \in 1..4 : /\ Cross2D(VSub(Qd[k], R0), u) >= 0
                /\ Cross2D(u, VSub(Qd[Succ4(k)], R0)) >= 0}
ExitPointVia(Qd, R0, u, k) == LinPoint(Qd[k], Qd[Succ4(k)], R0, VAdd(R0, u))
ExitPoint(Qd, R0, u) == ExitPointVia(Qd, R0, u, CHOOSE k \in ExitEdges(Qd, R0, u) : TRUE)

\* a rational point q on the closed segment A B (it is on the line and its projection parameter is in [0,1])
OnSegment(A, B, q) ==
  LET dx == RInt(B[1] - A[1])
      dy == RInt(B[2] - A[2])
      t  == RAdd(RMul(dx, RSub(q[1], RInt(A[1]))), RMul(dy, RSub(q[2], RInt(A[2]))))   \* (q-A).(B-A)
  IN  OnLine(A, B, q) /\ RLeq(<<0, 1>>, t) /\ RLeq(t, RInt(Norm2(VSub(B, A))))
\* q = R0 + t u with t > 0
OnRay(R0, u, q) ==
  LET ex == RSub(q[1], RInt(R0[1]))
      ey == RSub(q[2], RInt(R0[2]))
  IN  /\ REq(RMul(RInt(u[1]), ey), RMul(RInt(u[2]), ex))
      /\ RLt(<<0, 1>>, RAdd(RMul(RInt(u[1]), ex), RMul(RInt(u[2]), ey)))
ExitOneOrTwoAdjacent(Qd, R0, u) ==
  LET E == ExitEdges(Qd, R0, u) IN
  \/ Cardinality(E) = 1
  \/ Cardinality(E) = 2 /\ \E k \in E : Succ4(k) \in E /\ Cross2D(u, VSub(Qd[Succ4(k)], R0)) = 0
ExitSamePointAtTies(Qd, R0, u) ==
  \A j, k \in ExitEdges(Qd, R0, u) : ExitPointVia(Qd, R0, u, j) = ExitPointVia(Qd, R0, u, k)
ExitOnBoundaryAndRay(Qd, R0, u) ==
  \A k \in ExitEdges(Qd, R0, u) :
    LET q == ExitPointVia(Qd, R0, u, k) IN OnSegment(Qd[k], Qd[Succ4(k)], q) /\ OnRay(R0, u, q)

\* The routine decides the edge by comparing arctan2 angles.  Angles of integer directions are
\* compared exactly: rank of the half-turn first, orientation inside an open half-plane.
\*   rank -1 : angle -pi (only arctan2(-0.0, x < 0): the routine negates a float `vector`, and -(+0.0) = -0.0)
\*   rank  0 : (-pi, 0)   rank 1 : 0   rank 2 : (0, pi)   rank 3 : pi
AngRank(v) == IF v[2] < 0 THEN 0 ELSE IF v[2] > 0 THEN 2 ELSE IF v[1] > 0 THEN 1 ELSE 3
AngLtR(ru, u, rv, v) == ru < rv \/ (ru = rv /\ ru \in {0, 2} /\ Cross2D(u, v) > 0)
AngEqR(ru, u, rv, v) == ru = rv /\ (ru \in {0, 2} => Cross2D(u, v) = 0)
AngLeqR(ru, u, rv, v) == AngLtR(ru, u, rv, v) \/ AngEqR(ru, u, rv, v)
\* the routine's case analysis; negzero = TRUE models theta = arctan2(-0.0, u[1]) for u[2] = 0
AtanEdge(Qd, R0, u, negzero) ==
  LET rt == IF negzero /\ u[2] = 0 /\ u[1] < 0 THEN 0 - 1 ELSE AngRank(u)
      c(k) == VSub(Qd[k], R0)
      Between(j, k) == /\ AngLtR(AngRank(c(j)), c(j), rt, u)
                       /\ AngLeqR(rt, u, AngRank(c(k)), c(k))
  IN  IF Between(1, 2) THEN 1 ELSE IF Between(2, 3) THEN 2 ELSE IF Between(3, 4) THEN 3 ELSE 4
\* the edge over which the corner angles jump back across +-pi (exactly one for an interior point)
WrapEdges(Qd, R0) ==
  {k \in 1..4 : LET a == VSub(Qd[k], R0)
                    b == VSub(Qd[Succ4(k)], R0)
                IN  ~AngLtR(AngRank(a), a, AngRank(b), b)}
\* WHEN THE TWO AGREE: the comparison of angles is right for every direction iff the wrap-around
\* edge is the last one (P4 -> P1), e.g. a rectangle listed from its lower-left corner.
AtanAgreesWhenWrapIsLast(Qd, R0, u) ==
  WrapEdges(Qd, R0) = {4} =>
    \A nz \in {TRUE, FALSE} : AtanEdge(Qd, R0, u, nz) \in ExitEdges(Qd, R0, u)
ExactlyOneWrapEdge(Qd, R0) == Cardinality(WrapEdges(Qd, R0)) = 1
\* and for any other starting corner some direction is sent to a wrong edge
AtanDisagreesOtherwise(Qd, R0, Dirs) ==
  WrapEdges(Qd, R0) # {4} => \E u \in Dirs : AtanEdge(Qd, R0, u, FALSE) \notin ExitEdges(Qd, R0, u)
=============================================================================
