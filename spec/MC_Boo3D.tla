------------------------------ MODULE MC_Boo3D ------------------------------
(***************************************************************************)
(* Model of property C09.  Three modes (one TLC run each, sharded):        *)
(*  "ref"  - the five reference environments (sc, fcc, bcc, hcp, ico) as   *)
(*           13..15 atom clusters (non-periodic), degree l                 *)
(*  "xtal" - periodic perfect crystals built from integer lattice sites    *)
(*           (fcc 32 atoms, sc 27, bcc 54): neighbours found through the   *)
(*           minimum image                                                 *)
(*  "cfg"  - small integer configurations: N = 4..5 particles, cells incl. *)
(*           triclinic with tilts of both signs (odd edge lengths: no      *)
(*           half-cell ties), all masks, neighbour topologies with unequal *)
(*           coordination, duplicates, weights none / equal / unequal,     *)
(*           1..3 frames whose lists differ from frame to frame, reader    *)
(*           truncation Nmax.  Scope "exact": cell 3x3x3 / bonds in        *)
(*           {-1,0,1}^3, where the addition-theorem values are exact       *)
(*           rationals and TLC decides bounds and thresholded counts.      *)
(*           Frame attributes vary independently: a.hi = 2 gives every     *)
(*           frame its own cell (tilts change at constant edge lengths: a  *)
(*           sheared run), a.oi = 2 its own line order in the neighbour /  *)
(*           weight files; positions, lists (hence the padded width of the *)
(*           list) and weights rotate per frame.  Every case carries a     *)
(*           session: all methods x flags x thresholds on ONE object in an *)
(*           order selected by the state's hash.                           *)
(* Gen = FALSE: check the clauses as invariants on every state of the      *)
(* scope; Gen = TRUE: print one JSON case per selected state.              *)
(***************************************************************************)
EXTENDS Boo3D, Json

CONSTANTS Tier, Mode, Scope, Gen, Seed, Stride, SHARD, NSHARDS

VARIABLES l, a          \* degree; a = record of scope indices
vars == <<l, a>>

Tri3(x, y, z, xy, xz, yz) == << <<x, 0, 0>>, <<xy, y, 0>>, <<xz, yz, z>> >>

\* ------------------------------------------------------------------ "cfg" catalogues
CellsGeneric == << Tri3(5, 5, 7, 0, 0, 0), Tri3(5, 7, 5, 2, 0 - 1, 3), Tri3(7, 5, 5, 0 - 3, 2, 0 - 2) >>
CellsExact   == << Tri3(3, 3, 3, 0, 0, 0), Tri3(3, 3, 3, 1, 0 - 1, 1) >>
CellsOf      == IF Scope = "exact" THEN CellsExact ELSE CellsGeneric
\* sheared trajectories: tilt factors <<xy, xz, yz>> of frames 2, 3 (frame 1 keeps the catalogue cell), edge lengths
\* unchanged; a sheared run may pass through the orthogonal cell (generic cell 2, frame 3)
ShearGeneric == << << <<2, 0, 0 - 1>>, <<0 - 1, 2, 3>> >>,
                   << <<0 - 2, 1, 3>>, <<0, 0, 0>> >>,
                   << <<1, 2, 0 - 2>>, <<3, 0 - 1, 1>> >> >>
ShearExact   == << << <<1, 0, 0 - 1>>, <<0, 1, 1>> >>,
                   << <<0 - 1, 1, 0>>, <<0, 0, 0>> >> >>
ShearOf      == IF Scope = "exact" THEN ShearExact ELSE ShearGeneric
Sheared(H, t) == Tri3(H[1][1], H[2][2], H[3][3], t[1], t[2], t[3])

Masks == << <<1, 1, 1>>, <<0, 0, 0>>, <<1, 1, 0>>, <<1, 0, 1>>, <<0, 1, 1>>, <<1, 0, 0>>, <<0, 1, 0>>, <<0, 0, 1>> >>
NMasks == IF Tier = "quick" /\ ~Gen THEN 3 ELSE 8

\* position lists (generic scope): particles near the faces so that images matter, a bond along z (pole),
\* positions outside the box; N = 4 and N = 5
PosGeneric ==
  << << <<0, 0, 0>>, <<4, 4, 6>>, <<1, 3, 2>>, <<2, 0, 5>> >>,
     << <<1, 1, 1>>, <<1, 1, 4>>, <<3, 0, 2>>, <<0, 4, 0>> >>,
     << <<2, 1, 0>>, <<0 - 1, 3, 5>>, <<6, 2, 2>>, <<3, 3, 3>> >>,
     << <<4, 0, 0>>, <<0, 0, 0>>, <<0, 4, 3>>, <<2, 3, 6>> >>,
     << <<0, 2, 3>>, <<4, 2, 3>>, <<2, 2, 0>>, <<3, 4, 6>>, <<1, 0, 1>> >>,
     << <<0, 0, 1>>, <<3, 1, 4>>, <<1, 4, 2>>, <<4, 3, 6>>, <<2, 2, 5>> >> >>
\* later frames of a trajectory take the next list with the same number of particles (lists 1..4: N = 4, 5..6: N = 5)
PosGenericIdx(pi, f) == IF pi <= 4 THEN ((pi + f - 2) % 4) + 1 ELSE ((pi + f - 2) % 2) + 5
\* exact scope: particle 1 at the origin, three more sites of {0,1,2}^3
PtsExact == IF Tier = "quick"
            THEN {<<1, 0, 0>>, <<0, 1, 2>>, <<2, 2, 1>>, <<1, 1, 0>>, <<0, 0, 2>>, <<2, 1, 2>>}
            ELSE {<<1, 0, 0>>, <<0, 1, 2>>, <<2, 2, 1>>, <<1, 1, 0>>, <<0, 0, 2>>, <<2, 1, 2>>, <<1, 2, 1>>,
                  <<0, 2, 0>>, <<2, 0, 1>>, <<1, 1, 1>>, <<2, 2, 2>>}
PKey(p) == 9 * p[1] + 3 * p[2] + p[3]
PFromKey(k) == <<k \div 9, (k % 9) \div 3, k % 3>>
PosExactSets == {S \in SUBSET {PKey(p) : p \in PtsExact} : Cardinality(S) = 3}
PosOfSet(S)  == << <<0, 0, 0>> >> \o [k \in 1..3 |-> PFromKey(SortedSeq(S)[k])]

\* neighbour topologies, generic in N (1-based ids)
AllBut(N, i)   == SelectSeq([j \in 1..N |-> j], LAMBDA j : j # i)
Rev(s)         == [k \in 1..Len(s) |-> s[Len(s) + 1 - k]]
Next1(N, i)    == (i % N) + 1
Prev1(N, i)    == ((i + N - 2) % N) + 1
Topo(t, N, i)  ==
  IF t = 1 THEN AllBut(N, i)                                        \* everybody, ascending
  ELSE IF t = 2 THEN <<Next1(N, i)>>                                \* ring, one bond each
  ELSE IF t = 3 THEN (IF i % 2 = 1 THEN <<Next1(N, i), Prev1(N, i)>> ELSE <<Prev1(N, i)>>)   \* unequal coordination
  ELSE Rev(AllBut(N, i)) \o <<Next1(N, i)>>                         \* descending, one neighbour listed twice
NTopo == 4
\* bond weights: 1 none, 2 equal, 3 unequal (2-3-smooth row sums are not needed outside the exact scope)
Wts(wi, f, N, i, n) ==
  IF wi = 1 THEN << >>
  ELSE IF wi = 2 THEN [k \in 1..n |-> 3]
  ELSE IF Scope = "exact" THEN [k \in 1..n |-> IF n = 2 THEN (IF k = 1 THEN 3 ELSE 1) ELSE 1 + ((i + k + f) % 3)]
  ELSE [k \in 1..n |-> 1 + ((i + 2 * k + f) % 5)]
ExactRowSumsSmooth(fr, nmax) ==      \* exact scope: keep denominators 2-3-smooth
  \A i \in 1..Len(fr.pos) : LET s == SumTo(fr.w[i], Cn(fr, i, nmax)) IN s \in {1, 2, 3, 4, 6, 8, 9, 12}

Timesteps == << <<0, 10, 20>>, <<0, 10, 40>> >>      \* evenly spaced / not evenly spaced
NmaxOf(ni) == IF ni = 1 THEN 30 ELSE 2

\* frame f of the case described by a: positions and topology rotate through the catalogues
PosList(f) ==
  IF Scope = "exact" THEN (IF f = 1 THEN PosOfSet(a.ps) ELSE LET p == PosOfSet(a.ps) IN << p[1], p[f + 1], p[(f % 3) + 2], p[((f + 1) % 3) + 2] >>)
  ELSE PosGeneric[PosGenericIdx(a.pi, f)]
\* the cell of frame f: a.hi = 1 one cell for the whole trajectory, a.hi = 2 a sheared run
HAt(f) == IF a.hi = 1 \/ f = 1 THEN CellsOf[a.ci] ELSE Sheared(CellsOf[a.ci], ShearOf[a.ci][f - 1])
\* order of the lines of the neighbour file (kind 0) / weight file (kind 1) of frame f: a.oi = 1 ascending ids,
\* a.oi = 2 a different order in every frame and in the two files (reversed and rotated)
OrdOf(f, N, kind) ==
  IF a.oi = 1 THEN [k \in 1..N |-> k]
  ELSE IF (f + kind) % 2 = 1 THEN [k \in 1..N |-> ((N - k + f) % N) + 1]
  ELSE [k \in 1..N |-> ((k + f + kind) % N) + 1]
FrameOf(f) ==
  LET pos == PosList(f)
      N   == Len(pos)
      t   == ((a.ti + f - 2) % NTopo) + 1
      nl  == [i \in 1..N |-> Topo(t, N, i)]
  IN  [pos |-> pos, nl |-> nl,
       w   |-> IF a.wi = 1 THEN << >> ELSE [i \in 1..N |-> Wts(a.wi, f, N, i, Len(nl[i]))],
       H   |-> HAt(f), ord |-> OrdOf(f, N, 0), word |-> IF a.wi = 1 THEN << >> ELSE OrdOf(f, N, 1)]
Frames == [f \in 1..a.nf |-> FrameOf(f)]
HOf    == CellsOf[a.ci]
PppOf  == Masks[a.mi]
NmaxC  == NmaxOf(a.ni)

\* ------------------------------------------------------------------ degrees and thresholds
LsGen   == IF Mode = "ref" THEN (IF Tier = "quick" THEN {4, 6} ELSE {2, 3, 4, 5, 6, 8, 10, 12})
           ELSE IF Mode = "xtal" THEN (IF Tier = "quick" THEN {6} ELSE {4, 6, 8})
           ELSE IF Scope = "exact" THEN {2, 4, 6}
           ELSE 2..12
LsCheck == IF Mode = "cfg" THEN (IF Scope = "exact" THEN (IF Tier = "quick" THEN {2, 4} ELSE {2, 4, 6}) ELSE {2})
           ELSE IF Mode = "xtal" /\ Tier = "quick" THEN {6}
           ELSE {4, 6}
Ls      == IF Gen THEN LsGen ELSE LsCheck
Thresholds == << <<7, 10>>, <<1, 2>>, <<0, 1>>, <<0 - 1, 2>> >>      \* c = 0.7 (default), 0.5, 0, -0.5
\* w_l is emitted for the tabulated degrees and for one degree above 10 (l = 12: 469 triples; w_l of an odd degree
\* vanishes identically)
WithW   == l <= 6 \/ l = 12 \/ (Mode = "cfg" /\ a.ci = 1 /\ a.mi = 1 /\ a.nf = 1)

\* ------------------------------------------------------------------ state space
RefNames  == <<"sc", "fcc", "bcc", "hcp", "ico", "bcc8">>
XtalNames == IF Tier = "quick" THEN <<"fcc", "sc">> ELSE <<"fcc", "sc", "bcc">>

CfgSpace ==
  IF Scope = "exact"
  THEN [ps : PosExactSets, ci : 1..Len(CellsExact), mi : 1..NMasks, ti : 1..NTopo, wi : 1..3,
        nf : (IF Gen THEN 1..2 ELSE {1}), ni : 1..2, tsi : {1}, hi : (IF Gen THEN 1..2 ELSE {1}), oi : (IF Gen THEN 1..2 ELSE {1})]
  ELSE [pi : 1..Len(PosGeneric), ci : 1..Len(CellsGeneric), mi : 1..NMasks, ti : 1..NTopo, wi : 1..3,
        nf : (IF Gen THEN 1..3 ELSE {1, 3}), ni : 1..2, tsi : (IF Gen THEN 1..2 ELSE {1}), hi : 1..2,
        oi : (IF Gen THEN 1..2 ELSE {1})]
\* a unique index of the state within its scope (mixed radix), used for sharding and seeded sampling
PsId(S) == LET q == SortedSeq(S) IN (q[1] * 27 + q[2]) * 27 + q[3]
Uid ==
  IF Mode # "cfg" THEN a.k
  ELSE (((((((IF Scope = "exact" THEN PsId(a.ps) ELSE a.pi) * 3 + a.ci) * 8 + a.mi) * 4 + a.ti) * 3 + a.wi) * 3 + a.nf) * 4
       + 2 * a.ni + a.tsi) * 4 + 2 * (a.hi - 1) + (a.oi - 1)
HashA == ((Uid % 46337) * 31337 + l * 7919) % 65537
\* sentinels are always emitted: the first cell/mask/topology with every weight kind
SentinelPs == CHOOSE S \in PosExactSets : \A T \in PosExactSets : SumSeq(SortedSeq(S)) <= SumSeq(SortedSeq(T))
\* ... and sheared trajectories of maximal length with per-frame line orders: every cell, without weights and with
\* unequal ones, a tabulated degree and (generic scope) one above 10
MaxNf == IF Scope = "exact" THEN 2 ELSE 3
Sentinel == Mode # "cfg"
            \/ (l \in {2, 6, 11} /\ a.ci = 1 /\ a.mi = 1 /\ a.ti = 1 /\ a.nf = 1 /\ a.ni = 1 /\ a.tsi = 1 /\ a.hi = 1 /\ a.oi = 1
                /\ (IF Scope = "exact" THEN a.ps = SentinelPs ELSE a.pi = 1))
            \/ (l \in (IF Scope = "exact" THEN {4} ELSE {6, 12}) /\ a.hi = 2 /\ a.oi = 2 /\ a.nf = MaxNf /\ a.wi \in {1, 3}
                /\ a.mi = 1 /\ a.ti = 1 /\ a.ni = 1 /\ a.tsi = 1
                /\ (IF Scope = "exact" THEN a.ps = SentinelPs ELSE a.pi = a.ci))
Selected == ~Gen \/ Stride = 1 \/ Sentinel \/ ((HashA + Seed * 10007) % 65537) % Stride = 0

Init ==
  /\ l \in Ls
  /\ a \in (IF Mode = "ref" THEN [k : 1..Len(RefNames)]
            ELSE IF Mode = "xtal" THEN [k : 1..Len(XtalNames)]
            ELSE CfgSpace)
  /\ Mode = "cfg" => (a.ni = 2 => a.ti \in {1, 4})          \* truncation only matters for long lists
  /\ Mode = "cfg" => (a.nf = 1 => a.hi = 1)                \* a single frame has a single cell
  /\ Selected
  /\ HashA % NSHARDS = SHARD
  /\ (Mode = "cfg" /\ Scope = "exact" /\ a.wi = 3) => \A f \in 1..a.nf : ExactRowSumsSmooth(Frames[f], NmaxC)
Next == UNCHANGED vars
Spec == Init /\ [][Next]_vars

\* ------------------------------------------------------------------ crystals (mode "xtal")
XName == XtalNames[a.k]
XL    == IF XName = "fcc" THEN 4 ELSE IF XName = "sc" THEN 3 ELSE 6
XSites ==
  LET G == {<<x, y, z>> : x \in 0..(XL - 1), y \in 0..(XL - 1), z \in 0..(XL - 1)} IN
  IF XName = "fcc" THEN {p \in G : (p[1] + p[2] + p[3]) % 2 = 0}
  ELSE IF XName = "sc" THEN G
  ELSE {p \in G : p[1] % 2 = p[2] % 2 /\ p[2] % 2 = p[3] % 2}
\* the sites of the same crystal in a cell of any edge L (L even for fcc / bcc: the parity rule must close periodically)
XSitesOf(L) ==
  LET G == {<<x, y, z>> : x \in 0..(L - 1), y \in 0..(L - 1), z \in 0..(L - 1)} IN
  IF XName = "fcc" THEN {p \in G : (p[1] + p[2] + p[3]) % 2 = 0}
  ELSE IF XName = "sc" THEN G
  ELSE {p \in G : p[1] % 2 = p[2] % 2 /\ p[2] % 2 = p[3] % 2}
\* Size independence: in a cell of edge L the sites are closed under the shell vectors (taken modulo L), and distinct shell
\* vectors lead to distinct sites - so EVERY site of a crystal of ANY such size has the full shell of the reference
\* environment, and q_l = Q_l = the reference value whatever the number of particles.  Checked for the emitted size and two
\* larger ones; the harness then builds a crystal of more than 2^18 bonds with the emitted shell vectors (index arithmetic).
XClosed(L, V) ==
  LET Sx == XSitesOf(L) IN
  \A p \in Sx : /\ \A v \in V : [c \in 1..3 |-> (p[c] + v[c]) % L] \in Sx
                 /\ Cardinality({[c \in 1..3 |-> (p[c] + u[c]) % L] : u \in V}) = Cardinality(V)
XKey(p) == (p[1] * XL + p[2]) * XL + p[3]
XPos  == LET ks == SortedSeq({XKey(p) : p \in XSites})
         IN  [i \in 1..Len(ks) |-> <<ks[i] \div (XL * XL), (ks[i] \div XL) % XL, ks[i] % XL>>]
XH    == Tri3(XL, XL, XL, 0, 0, 0)
XVecs == {[c \in 1..3 |-> v[c][1]] : v \in Range(RefEnv(XName).nb)}       \* integer neighbour vectors
\* the crystal as one frame, evaluated once per state (TLCEval): neighbours of i = sites whose minimum image is a shell vector
XFrameV ==
  LET P  == TLCEval(XPos)
      A  == TLCEval(Adj(XH))
      d  == Det(XH)
      V  == TLCEval(XVecs)
      nl == TLCEval([i \in 1..Len(P) |->
              TLCEval(SelectSeq([j \in 1..Len(P) |-> j],
                                LAMBDA j : j # i /\ ImageOfA(XH, A, d, VSub(P[j], P[i]), <<1, 1, 1>>) \in V))])
  IN  [pos |-> P, nl |-> nl, w |-> << >>]

\* ------------------------------------------------------------------ invariants
\* reference environments: tabulated q4, q6 bracketed, cosines rational, 0 <= q_l^2 <= 1
InvRefValues == Mode = "ref" => (RefNames[a.k] # "bcc8" => RefValuesHold(RefNames[a.k]))
InvRefBounds == Mode = "ref" =>
  LET q2 == RefQl2(RefEnv(RefNames[a.k]), l) IN RLeq(<<0, 1>>, q2) /\ RLeq(q2, <<1, 1>>)
InvRefEqualLengths == Mode = "ref" =>
  LET env == RefEnv(RefNames[a.k]) IN
  RefNames[a.k] # "bcc" => RefEqualLengths(env, 1..Len(env.nb))
\* periodic crystal: every site has the full shell, and its q_l^2 (through the minimum image) is the reference value
InvXtalSizeIndependent == Mode = "xtal" =>
  LET V == XVecs IN /\ XSitesOf(XL) = XSites /\ XClosed(XL, V) /\ XClosed(XL + 2, V) /\ XClosed(XL + 4, V)
InvXtal == Mode = "xtal" =>
  LET fr == XFrameV
      q2 == AExact(XH, <<1, 1, 1>>, fr, l, 1, 1, 30)
  IN  /\ \A i \in 1..Len(fr.pos) : Len(fr.nl[i]) = Len(RefEnv(XName).nb)
      /\ ~FrameHasTie(XH, <<1, 1, 1>>, fr, 30)
      /\ q2 = RefQl2(RefEnv(XName), l)
      /\ l \in {4, 6} => Brackets(q2, IF l = 4 THEN RefTable(XName).q4 ELSE RefTable(XName).q6)
\* small configurations
\* (every frame of a "cfg" case carries its own cell fr.H)
CfgOK(fr) == ~FrameHasTie(fr.H, PppOf, fr, NmaxC) /\ ~FrameHasZeroBond(fr.H, PppOf, fr, NmaxC)
\* exact rational evaluation stays inside 32 bits when every bond has components in {-1, 0, 1} (norms 1, 2, 3)
SmallBonds(fr) == LET B == BondsOf(fr.H, PppOf, fr, NmaxC) IN
                  \A i \in 1..Len(fr.pos) : \A k \in 1..Len(B[i]) : Norm2(B[i][k]) <= 3
ExactHere == Mode = "cfg" /\ Scope = "exact" /\ l % 2 = 0
InvNoTies     == (Mode = "cfg" /\ a.wi = 1) => \A f \in 1..a.nf : ~FrameHasTie(Frames[f].H, PppOf, Frames[f], NmaxC) /\ BondIsCellMinImage(Frames[f].H, PppOf, Frames[f], NmaxC)
InvWeights    == Mode = "cfg" => \A f \in 1..a.nf :
                   WeightsNormalised(Frames[f], NmaxC) /\ EqualWeightsAreUnweighted(Frames[f], NmaxC)
InvEqualWeightsTerms == (Mode = "cfg" /\ a.wi = 2 /\ (Scope = "generic" \/ a.mi = 1)) =>      \* the emitted definitions are literally those of the unweighted case
  \A f \in 1..a.nf : ~FrameHasZeroBond(Frames[f].H, PppOf, Frames[f], NmaxC) =>
    FrameDefs(Frames[f].H, PppOf, Frames[f], f, l, NmaxC, FALSE)
      = FrameDefs(Frames[f].H, PppOf, [Frames[f] EXCEPT !.w = << >>], f, l, NmaxC, FALSE)
InvExactBounds == ExactHere => \A f \in 1..a.nf : (CfgOK(Frames[f]) /\ SmallBonds(Frames[f])) =>
  LET N  == Len(Frames[f].pos)
      M  == AMatrix(Frames[f].H, PppOf, Frames[f], l, NmaxC)
      MQ == AQMatrix(M, Frames[f], NmaxC)
  IN  /\ QlInUnitInterval(M, N) /\ SijBounded(M, N) /\ MSymmetric(M, N)
      /\ QlInUnitInterval(MQ, N) /\ SijBounded(MQ, N) /\ MSymmetric(MQ, N)
      /\ \A i \in 1..N : \A j \in 1..Len(Thresholds) :
           CountExact(M, Frames[f], i, Thresholds[j], NmaxC) <= Cn(Frames[f], i, NmaxC)
\* frame attributes: every generated trajectory is one boo_3d accepts (constant particle number and edge lengths,
\* every particle has a neighbour, line orders are permutations); a sheared case really has a different cell in every
\* frame, a.oi = 2 a different line order in every frame and in the two files
InvFrameAttributes == Mode = "cfg" =>
  /\ TrajectoryInDomain(HOf, Frames, NmaxC)
  /\ a.hi = 2 => \A f, g \in 1..a.nf : f # g => Frames[f].H # Frames[g].H
  /\ a.hi = 1 => \A f \in 1..a.nf : Frames[f].H = HOf
  /\ a.oi = 2 => /\ \A f, g \in 1..a.nf : f # g => Frames[f].ord # Frames[g].ord
                 /\ \A f \in 1..a.nf : Frames[f].ord # [k \in 1..Len(Frames[f].pos) |-> k]
                 /\ a.wi # 1 => \A f \in 1..a.nf : Frames[f].word # Frames[f].ord
\* sessions: the order selected for this state is a permutation of the catalogue (plus the two repeated calls), and what
\* a call is expected to return is the same wherever it stands
Session == SessionOf(Len(Thresholds), WithW, HashA + 7 * Seed)
InvSession ==
  LET s == TLCEval(Session) IN
  /\ SessionWellFormed(s, Len(Thresholds), WithW)
  /\ \A p, q \in 1..Len(s) : s[p] = s[q] => WithObs(s[p]) = WithObs(s[q])
  /\ \A p \in 1..Len(s) : KnownCall(s[p], Len(Thresholds))
InvW3jIndexSet == Len(W3jSeq(l)) = 3 * l * l + 3 * l + 1
                  /\ \A k \in 1..Len(W3jSeq(l)) : W3jSeq(l)[k] \in W3jIndex(l)
                  /\ Cardinality(Range(W3jSeq(l))) = Len(W3jSeq(l))

\* ------------------------------------------------------------------ emission
Macros == MacroY(l) \o <<MacroP(l)>>
RECURSIVE ConcatFrames(_, _)
ConcatFrames(F(_), n) == IF n = 0 THEN << >> ELSE ConcatFrames(F, n - 1) \o F(n)

ExactOf(fr) ==
  IF ~(ExactHere /\ CfgOK(fr) /\ SmallBonds(fr)) THEN [have |-> FALSE]
  ELSE LET N  == Len(fr.pos)
           M  == AMatrix(fr.H, PppOf, fr, l, NmaxC)
           MQ == AQMatrix(M, fr, NmaxC)
       IN  [ have |-> TRUE,
             ql2 |-> [i \in 1..N |-> QR(M[i][i])],
             Ql2 |-> [i \in 1..N |-> QR(MQ[i][i])],
             cnt |-> [j \in 1..Len(Thresholds) |->
                      [ q   |-> [i \in 1..N |-> IF SDefined(M, fr, i, NmaxC) THEN CountExact(M, fr, i, Thresholds[j], NmaxC) ELSE 0 - 1],
                        qtie |-> [i \in 1..N |-> SDefined(M, fr, i, NmaxC) /\ \E k \in 1..Cn(fr, i, NmaxC) : SEqual(M, i, Nb(fr, i, k), Thresholds[j])],
                        Q   |-> [i \in 1..N |-> IF SDefined(MQ, fr, i, NmaxC) THEN CountExact(MQ, fr, i, Thresholds[j], NmaxC) ELSE 0 - 1],
                        Qtie |-> [i \in 1..N |-> SDefined(MQ, fr, i, NmaxC) /\ \E k \in 1..Cn(fr, i, NmaxC) : SEqual(MQ, i, Nb(fr, i, k), Thresholds[j])] ]] ]

CfgCase ==
  LET frs == Frames IN
  [ kind |-> "cfg", scope |-> Scope, l |-> l, H |-> HOf, ppp |-> PppOf, nmax |-> NmaxC,
    ts |-> SubSeq(Timesteps[a.tsi], 1, a.nf), idx |-> a,
    frames |-> frs,
    varies |-> Varies(HOf, frs, NmaxC),
    session |-> [p \in 1..Len(Session) |-> WithObs(Session[p])],
    bad |-> \E f \in 1..a.nf : ~CfgOK(frs[f]),
    macros |-> Macros, withw |-> WithW,
    defs |-> IF \E f \in 1..a.nf : ~CfgOK(frs[f]) THEN << >>
             ELSE ConcatFrames(LAMBDA f : FrameDefs(frs[f].H, PppOf, frs[f], f, l, NmaxC, WithW), a.nf),
    exp |-> IF \E f \in 1..a.nf : ~CfgOK(frs[f]) THEN << >>
            ELSE [f \in 1..a.nf |-> FrameExp(frs[f].H, PppOf, frs[f], f, l, NmaxC, WithW, Thresholds)],
    exact |-> [f \in 1..a.nf |-> ExactOf(frs[f])],
    compose |-> Compose(l) ]

RefCase ==
  LET name == RefNames[a.k]
      env  == RefEnv(name)
      tab  == RefTable(name)
      wc   == RefWcap(name)
  IN
  [ kind |-> "ref", name |-> name, l |-> l, nmax |-> 30, ppp |-> <<0, 0, 0>>, H |-> Tri3(40, 40, 40, 0, 0, 0),
    ts |-> <<0>>, posterms |-> RefPosTerms(env), nl |-> RefNl(env),
    session |-> [p \in 1..Len(Session) |-> WithObs(Session[p])],
    macros |-> Macros, withw |-> WithW,
    defs |-> RefDefs(env, l, WithW),
    exp |-> <<RefExp(env, l, WithW, Thresholds)>>,
    \* (exact rational only for the degrees whose Legendre sums stay within 32 bits for every reference environment)
    ql2centre |-> IF l \in {2, 4, 6} THEN QR(RefQl2(env, l)) ELSE <<"none">>,
    \* tabulated values for particle 1: [lo, hi] as terms
    tabulated |-> [ q |-> IF l = 4 THEN <<Q(2 * tab.q4 - 1, 20000), Q(2 * tab.q4 + 1, 20000)>>
                          ELSE IF l = 6 THEN <<Q(2 * tab.q6 - 1, 20000), Q(2 * tab.q6 + 1, 20000)>> ELSE << >>,
                    wcap |-> IF l = 4 /\ wc.has4 THEN <<Q(2 * wc.w4 - 1, 2000000), Q(2 * wc.w4 + 1, 2000000)>>
                             ELSE IF l = 6 /\ wc.has6 THEN <<Q(2 * wc.w6 - 1, 2000000), Q(2 * wc.w6 + 1, 2000000)>> ELSE << >> ],
    compose |-> Compose(l) ]

XtalCase ==
  LET fr == XFrameV IN
  [ kind |-> "xtal", name |-> XName, l |-> l, H |-> XH, ppp |-> <<1, 1, 1>>, nmax |-> 30, ts |-> <<0>>,
    frames |-> <<fr>>, bad |-> FALSE,
    session |-> [p \in 1..Len(Session) |-> WithObs(Session[p])],
    macros |-> Macros, withw |-> WithW,
    defs |-> FrameDefs(XH, <<1, 1, 1>>, fr, 1, l, 30, WithW),
    exp |-> <<FrameExp(XH, <<1, 1, 1>>, fr, 1, l, 30, WithW, Thresholds)>>,
    ql2ref |-> QR(RefQl2(RefEnv(XName), l)),
    shell |-> BondsOf(XH, <<1, 1, 1>>, fr, 30)[1],       \* the shell vectors (bonds of site 1), for crystals of other sizes
    compose |-> Compose(l) ]

Emit == Gen => PrintT(ToJson(IF Mode = "ref" THEN RefCase ELSE IF Mode = "xtal" THEN XtalCase ELSE CfgCase))
=============================================================================
