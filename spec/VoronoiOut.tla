----------------------------- MODULE VoronoiOut -----------------------------
(***************************************************************************)
(* Property C20: the three files written by freud_neighbors.cal_neighbors  *)
(* (<out>.neighbor.dat, <out>.edgelength.dat | .facearea.dat,              *)
(* <out>.overall.dat), their hand-off to read_neighbors, and the volume-   *)
(* response matrix of VolumeMatrix.                                        *)
(*                                                                         *)
(* The tessellation itself is NOT modelled (which cells touch is geometry; *)
(* the property states consistency).  The specification speaks about the   *)
(* CONTENT of the files:                                                   *)
(*                                                                         *)
(*   fs = [ N  |-> particle number of every frame (sequence),              *)
(*          L  |-> box lengths of every frame, integers in units of        *)
(*                 10^(-6/d) so that their product is the box volume in    *)
(*                 quanta of 1e-6,                                         *)
(*          nb, w, ov |-> the lines of the three files ]                   *)
(*   line = [h |-> 1 for a header line, nl |-> 1 iff the header contains   *)
(*           the word `neighborlist`, t |-> the integer tokens of a row]   *)
(* Weights and volumes are integers in quanta of 1e-6 (the written         *)
(* precision).                                                             *)
(*                                                                         *)
(* freud lists a neighbour once per shared face: in small periodic boxes   *)
(* the same id appears several times in a row, and a particle can be its   *)
(* own neighbour.  Symmetry is therefore stated on the MULTISET of directed*)
(* entries (i, j, weight).                                                 *)
(***************************************************************************)
EXTENDS Exact, TLC

Hdr(nl)  == [h |-> 1, nl |-> nl, t |-> << >>]
Row(toks) == [h |-> 0, nl |-> 0, t |-> toks]

NF(fs) == Len(fs.N)
RECURSIVE OffB(_, _)     \* lines of the neighbour / weight file before frame f (one header per frame)
OffB(fs, f) == IF f <= 1 THEN 0 ELSE OffB(fs, f - 1) + fs.N[f - 1] + 1
RECURSIVE OffO(_, _)     \* lines of the overall file before frame f (one header for the whole file)
OffO(fs, f) == IF f <= 1 THEN 1 ELSE OffO(fs, f - 1) + fs.N[f - 1]

NbLine(fs, f, i) == fs.nb[OffB(fs, f) + 1 + i]          \* i = 0 : the frame's header
WLine(fs, f, i)  == fs.w[OffB(fs, f) + 1 + i]
OvLine(fs, f, i) == fs.ov[OffO(fs, f) + i]
Particles(fs, f) == 1..fs.N[f]
Frames(fs)       == 1..NF(fs)

Ids(fs, f, i) == LET t == NbLine(fs, f, i).t IN SubSeq(t, 3, Len(t))
Wts(fs, f, i) == LET t == WLine(fs, f, i).t IN SubSeq(t, 3, Len(t))
Cn(fs, f, i)  == NbLine(fs, f, i).t[2]
Vol(fs, f, i) == OvLine(fs, f, i).t[3]

\* ------------------------------------------------------------ clauses on the files
\* every frame: a header, then one line per particle; the overall file has one header in all
Layout(fs) ==
  /\ Len(fs.nb) = OffB(fs, NF(fs) + 1) /\ Len(fs.w) = OffB(fs, NF(fs) + 1)
  /\ Len(fs.ov) = OffO(fs, NF(fs) + 1)
  /\ fs.ov[1].h = 1 /\ \A k \in 2..Len(fs.ov) : fs.ov[k].h = 0 /\ Len(fs.ov[k].t) = 3
  /\ \A f \in Frames(fs) :
       /\ NbLine(fs, f, 0).h = 1 /\ NbLine(fs, f, 0).nl = 1
       /\ WLine(fs, f, 0).h = 1 /\ WLine(fs, f, 0).nl = 0
       /\ \A i \in Particles(fs, f) :
            /\ NbLine(fs, f, i).h = 0 /\ Len(NbLine(fs, f, i).t) >= 2
            /\ WLine(fs, f, i).h = 0 /\ Len(WLine(fs, f, i).t) >= 2

\* every particle once per frame, in id order, in all three files
RowsInIdOrder(fs) ==
  \A f \in Frames(fs) : \A i \in Particles(fs, f) :
     NbLine(fs, f, i).t[1] = i /\ WLine(fs, f, i).t[1] = i /\ OvLine(fs, f, i).t[1] = i

\* coordination number = number of listed neighbours = number of listed weights, in all files
CnEqualsListed(fs) ==
  \A f \in Frames(fs) : \A i \in Particles(fs, f) :
     /\ Cn(fs, f, i) = Len(Ids(fs, f, i))
     /\ WLine(fs, f, i).t[2] = Len(Wts(fs, f, i))
     /\ Cn(fs, f, i) = WLine(fs, f, i).t[2] /\ Cn(fs, f, i) = OvLine(fs, f, i).t[2]

IdsInRange(fs) ==
  \A f \in Frames(fs) : \A i \in Particles(fs, f) : \A k \in 1..Len(Ids(fs, f, i)) : Ids(fs, f, i)[k] \in Particles(fs, f)

\* positions k of row i that name j
Where(fs, f, i, j) == {k \in 1..Len(Ids(fs, f, i)) : Ids(fs, f, i)[k] = j}
Count(fs, f, i, j) == Cardinality(Where(fs, f, i, j))

\* the multiset of directed entries (i, j) is invariant under (i, j) -> (j, i)
SymmetricMultiset(fs) ==
  \A f \in Frames(fs) : \A i, j \in Particles(fs, f) : Count(fs, f, i, j) = Count(fs, f, j, i)

\* a weight of 0 quanta is a positive value below the written precision (a tie, not decided)
WeightsPositive(fs) ==
  \A f \in Frames(fs) : \A i \in Particles(fs, f) : \A k \in 1..Len(Wts(fs, f, i)) : Wts(fs, f, i)[k] >= 0

\* ascending list of a bag of integers given as a sequence
RECURSIVE SortBag(_)
SortBag(s) ==
  IF s = << >> THEN << >>
  ELSE LET k == CHOOSE a \in 1..Len(s) : \A b \in 1..Len(s) : s[a] <= s[b]
       IN  <<s[k]>> \o SortBag([x \in 1..(Len(s) - 1) |-> IF x < k THEN s[x] ELSE s[x + 1]])
WBag(fs, f, i, j) ==      \* weights of the entries i -> j, ascending
  LET ks == SortedSeq(Where(fs, f, i, j)) IN SortBag([x \in 1..Len(ks) |-> Wts(fs, f, i)[ks[x]]])
\* weights equal in both directions (to one quantum of the written precision)
WeightsSymmetric(fs) ==
  \A f \in Frames(fs) : \A i, j \in Particles(fs, f) :
     (i < j /\ Count(fs, f, i, j) > 0 /\ Count(fs, f, i, j) = Count(fs, f, j, i)) =>
        LET a == WBag(fs, f, i, j) b == WBag(fs, f, j, i) IN
        \A x \in 1..Len(a) : Abs(a[x] - b[x]) <= 1

\* a Voronoi cell of a periodic configuration is a bounded convex polygon / polyhedron: at least d + 1 edges / faces.
\* In a box only one or two cells wide the same neighbour (or the particle itself) is met through several periodic images
\* and is listed once per shared face - a list with fewer than d + 1 entries has lost faces.
CellsAreBoundedPolytopes(fs) ==
  \A f \in Frames(fs) : \A i \in Particles(fs, f) : Cn(fs, f, i) >= Len(fs.L[f]) + 1

VolumesPositive(fs) == \A f \in Frames(fs) : \A i \in Particles(fs, f) : Vol(fs, f, i) > 0
\* cell volumes sum to the box volume.  Tolerance: every written volume is rounded (N quanta
\* in all), and freud keeps the box edges in single precision, so the cells tile a box whose
\* volume differs from the decimal one by up to d * 2^-24 < 2e-7 relative.
VolumesSumToBox(fs) ==
  \A f \in Frames(fs) :
     LET box == ProdSeq(fs.L[f]) IN
     Abs(SumSeq([i \in 1..fs.N[f] |-> Vol(fs, f, i)]) - box) <= fs.N[f] + 1 + box \div 5000000

(***************************************************************************)
(* The failure pattern of the external tessellation library (found by this *)
(* check, see design_notes/C20.md): in 3-D a face of SMALL area is now and *)
(* then listed by one of its two cells only.  It is classified separately  *)
(* so that it can be tracked as a known finding without blinding the check *)
(* to gross asymmetry: at most three unmatched entries per frame, each an  *)
(* excess of exactly one whose smallest weight is at most a quarter of the *)
(* largest weight of the frame, the remaining weights agreeing as usual.   *)
(***************************************************************************)
MaxW(fs, f) == SetMax({0} \cup UNION {{Wts(fs, f, i)[k] : k \in 1..Len(Wts(fs, f, i))} : i \in Particles(fs, f)})
Unmatched(fs, f) == {p \in Particles(fs, f) \X Particles(fs, f) : Count(fs, f, p[1], p[2]) > Count(fs, f, p[2], p[1])}
OnlySmallFacesMissing(fs, f) ==
  /\ Cardinality(Unmatched(fs, f)) <= 3
  /\ \A p \in Unmatched(fs, f) :
       LET a == WBag(fs, f, p[1], p[2]) b == WBag(fs, f, p[2], p[1]) IN
       /\ Len(a) = Len(b) + 1
       /\ 4 * a[1] <= MaxW(fs, f)
       /\ \A x \in 1..Len(b) : Abs(a[x + 1] - b[x]) <= 1
WhySymmetric(fs) ==
  IF SymmetricMultiset(fs) THEN ""
  ELSE IF \A f \in Frames(fs) : OnlySmallFacesMissing(fs, f) THEN "SymmetricMultiset:SmallFaceMissing"
  ELSE "SymmetricMultiset"

\* first failing clause, "" when the files are a consistent tessellation in the library format.
\* tolerate = 1: the small-face pattern above has been reported and is skipped.
WhyFilesT(fs, tolerate) ==
  IF ~Layout(fs) THEN "Layout"
  ELSE IF ~RowsInIdOrder(fs) THEN "RowsInIdOrder"
  ELSE IF ~CnEqualsListed(fs) THEN "CnEqualsListed"
  ELSE IF ~IdsInRange(fs) THEN "IdsInRange"
  ELSE IF WhySymmetric(fs) # "" /\ ~(tolerate = 1 /\ WhySymmetric(fs) = "SymmetricMultiset:SmallFaceMissing") THEN WhySymmetric(fs)
  ELSE IF ~WeightsPositive(fs) THEN "WeightsPositive"
  ELSE IF ~WeightsSymmetric(fs) THEN "WeightsSymmetric"
  ELSE IF ~VolumesPositive(fs) THEN "VolumesPositive"
  ELSE IF ~VolumesSumToBox(fs) THEN "VolumesSumToBox"
  ELSE IF ~CellsAreBoundedPolytopes(fs) THEN "CellsAreBoundedPolytopes"
  ELSE ""
WhyFiles(fs) == WhyFilesT(fs, 0)

\* ------------------------------------------------------------ frame locality
\* The output of frame f of a trajectory is the tessellation of THAT frame: it is what the same
\* routine writes for the one-frame trajectory holding frame f alone (`one`, a files record with a
\* single frame), whatever the other frames of the trajectory are (their box, their particle
\* number, their positions).  Rows are compared as bags of (neighbour, weight) entries - the order
\* of the entries inside a row is not part of the format - weights and volumes to one quantum.
FrameLocalAt(fs, f, one) ==
  /\ NF(one) = 1 /\ one.N[1] = fs.N[f]
  /\ \A i \in Particles(fs, f) :
       /\ Cn(fs, f, i) = Cn(one, 1, i)
       /\ SortBag(Ids(fs, f, i)) = SortBag(Ids(one, 1, i))
       /\ LET a == SortBag(Wts(fs, f, i)) b == SortBag(Wts(one, 1, i)) IN
          Len(a) = Len(b) /\ \A x \in 1..Len(a) : Abs(a[x] - b[x]) <= 1
       /\ Abs(Vol(fs, f, i) - Vol(one, 1, i)) <= 1

\* ------------------------------------------------------------ hand-off to read_neighbors
\* One call read_neighbors(f, nparticle, Nmax) on an open handle consumes one frame:
\* header + nparticle rows.  Result: matrix nparticle x (1 + width); column 1 = cn (cut to
\* Nmax), then the entries (ids shifted to 0-based only under a `neighborlist` header),
\* zero padding, width = min(max cn, Nmax).  The rows are placed by their id.
FrameLines(lines, c, n) == [i \in 1..n |-> lines[c + 1 + i]]
ReadMatrix(lines, c, n, nmax) ==
  LET shift  == IF lines[c + 1].nl = 1 THEN 1 ELSE 0
      rows   == FrameLines(lines, c, n)
      at(id) == CHOOSE i \in 1..n : rows[i].t[1] = id
      cut(id) == Min2(rows[at(id)].t[2], nmax)
      width  == SetMax({cut(id) : id \in 1..n})
  IN  [id \in 1..n |-> [k \in 1..(width + 1) |->
         IF k = 1 THEN cut(id)
         ELSE IF k - 1 <= cut(id) THEN rows[at(id)].t[k + 1] - shift
         ELSE 0]]
ReadNext(c, n) == c + n + 1

\* ------------------------------------------------------------ volume-response matrix
\* M : rows x (n d) integers in quanta of 1e-6.  rows = n for the raw matrix A,
\* n d for the transformed matrix A^T (A A^T)^-1 A.
VmShape(M, rows, n, d) == Len(M) = rows /\ \A p \in 1..rows : Len(M[p]) = n * d
\* every row sums to zero over each displaced coordinate c (entries are rounded: +- tol)
RowSumsZero(M, n, d, tol) ==
  \A p \in 1..Len(M) : \A c \in 1..d :
     Abs(SumSeq([i \in 1..n |-> M[p][d * (i - 1) + c]])) <= tol
\* the raw matrix of frame f responds only to displacements of Voronoi neighbours of that
\* frame (listed in either direction) and of the particle itself
LocalSupport(M, fs, f, d, tol) ==
  \A p, i \in Particles(fs, f) :
     (i # p /\ Count(fs, f, p, i) = 0 /\ Count(fs, f, i, p) = 0) => \A c \in 1..d : Abs(M[p][d * (i - 1) + c]) <= tol
\* and the matrix is not identically zero (two particles in a periodic box always have equal
\* cells, so this is only stated from three particles on)
SomeResponse(M, fs, f, d, tol) ==
  fs.N[f] >= 3 => \E p, i \in Particles(fs, f) : \E c \in 1..d : Abs(M[p][d * (i - 1) + c]) > tol
=============================================================================
