----------------------------- MODULE MC_Session -----------------------------
(***************************************************************************)
(* Model of property C18 (purity).  TLC enumerates the call words of a     *)
(* session over one world (two shared trajectories):                       *)
(*   Mode "fgf"  : every word f, g, f with f ranging over ALL calls (entry  *)
(*                 point x target x argument variant) and g over all calls *)
(*                 (quick: over the first variant of every entry point x   *)
(*                 target), and its prefixes f and f, g;                   *)
(*   Mode "all3" : ALL words of length <= 3 over the entry points (entry   *)
(*                 point x target, first variant; quick: the constructors, *)
(*                 setters, methods and the handle reader on target 1);    *)
(*   Mode "mini" : all words of length <= 4 over a handful of calls of     *)
(*                 every role (used for the non-vacuity runs).             *)
(*   Mode "scr"  : every word f, f with the user overwriting in place what *)
(*                 the first f returned before calling f again (Scribble). *)
(* Every user call expands to the steps Session!Plan prescribes.  The C18  *)
(* clauses are INVARIANTs checked on every state.  With Impure # "none"    *)
(* one impure action of Session.tla joins Next: the harness checks that    *)
(* the corresponding invariant is then violated (non-vacuity).             *)
(* Gen = TRUE prints one schedule per selected behaviour (direction A).    *)
(* Mode "registry" prints the registry and the world descriptors once.     *)
(***************************************************************************)
EXTENDS Session, Json

CONSTANTS Tier,        \* "quick" | "thorough"
          WorldName,   \* "w2" | "w3" | "s2" | "s3"
          Mode,        \* "fgf" | "all3" | "mini" | "registry"
          Impure,      \* "none" | "mutate" | "cache" | "file" | "state" | "cursor" | "alias"
          Gen, Seed, SHARD, NSHARDS

(* w2 / w3: small generated trajectories read back with the library's reader (2-D: orthogonal box off the
   origin + triclinic; 3-D: orthogonal box centred on the origin + triclinic; target 2 is unevenly spaced).
   s2 / s3: the repository's sample trajectories (2ddump.s.atom + dump.nematic.atom; quarternary.dump + unary.dump). *)
Worlds ==
  [w2 |-> [dim |-> 2, T |-> <<5, 4>>, lin |-> <<TRUE, FALSE>>, ori |-> <<TRUE, TRUE>>,   heavy |-> FALSE],
   w3 |-> [dim |-> 3, T |-> <<4, 3>>, lin |-> <<TRUE, FALSE>>, ori |-> <<FALSE, FALSE>>, heavy |-> FALSE],
   s2 |-> [dim |-> 2, T |-> <<2, 1>>, lin |-> <<TRUE, TRUE>>,  ori |-> <<FALSE, TRUE>>,  heavy |-> TRUE],
   s3 |-> [dim |-> 3, T |-> <<3, 1>>, lin |-> <<TRUE, TRUE>>,  ori |-> <<FALSE, FALSE>>, heavy |-> TRUE]]
World == Worlds[WorldName]

WCalls == AllCalls(World)
(* a handful of entry points of every role, for the non-vacuity runs *)
MiniNames == {"time_correlation", "read_neighbors", "reopen", "gr", "gr.getresults", "NematicOrder.tensor", "NematicOrder.time_corr"}
AliasNames == {"time_correlation", "gr", "gr.getresults", "Wignerindex"}
Alpha ==
  IF Mode \in {"fgf", "scr"} THEN WCalls
  ELSE IF Mode = "mini" THEN (IF Impure = "cursor"
                              THEN {c \in WCalls : Reg[c.e].n \in {"read_neighbors", "reopen", "time_correlation"} /\ c.v = 0 /\ c.s = 1}
                              ELSE IF Impure = "alias"
                              THEN {c \in WCalls : Reg[c.e].n \in AliasNames /\ c.v = 0 /\ c.s = 1}
                              ELSE {c \in WCalls : Reg[c.e].n \in MiniNames /\ c.v <= 1})
  ELSE IF Mode = "all3" THEN (IF Tier = "quick" THEN {c \in BaseCalls(World) : c.s = 1 /\ Reg[c.e].role # "fn"}
                              ELSE BaseCalls(World))
  ELSE {}
(* the middle call g of f, g, f: quick = first variant of every entry point, thorough = every call *)
AlphaG == IF Mode = "fgf" /\ Tier = "quick" THEN {c \in WCalls : c.v = 0} ELSE Alpha
NextAlpha ==
  IF Mode = "fgf" /\ Len(word) = 2 THEN {word[1]}
  ELSE IF Mode = "fgf" /\ Len(word) = 1 THEN AlphaG
  ELSE IF Mode = "scr" /\ Len(word) = 1 THEN (IF hist[Len(hist)].scr THEN {word[1]} ELSE {})
  ELSE IF Mode = "scr" /\ Len(word) = 2 THEN {}
  ELSE Alpha

CallNo(c) == c.e * 12 + c.v * 2 + c.s

MaxLen == IF Mode = "mini" THEN 4 ELSE 3

DoStep(c) ==
  \/ Exec(World, c)
  \/ Impure = "mutate" /\ \E o \in ObjsOfTarget(c.s) : MutatingCall(World, c, o)
  \/ Impure = "cache"  /\ CachedCall(World, c)
  \/ Impure = "file"   /\ FileFromOtherObject(World, c)
  \/ Impure = "state"  /\ StateCorruptingCall(World, c)
  \/ Impure = "cursor" /\ CursorStealingCall(World, c)
  \/ Impure = "alias"  /\ AliasedResultCall(World, c)

(* the user issues call c: its plan is computed and the first planned step is executed *)
UserCall(c) ==
  /\ pending = << >> /\ Len(word) < MaxLen
  /\ Len(word) = 0 => CallNo(c) % NSHARDS = SHARD
  /\ word' = Append(word, c)
  /\ LET p == Plan(c, ana, cursor, World) IN DoStep(Head(p)) /\ pending' = Tail(p)

(* the remaining planned steps, one per transition *)
Run ==
  /\ pending # << >>
  /\ DoStep(Head(pending))
  /\ pending' = Tail(pending)
  /\ UNCHANGED word

(* the user overwrites the value the most recent step returned (between two user calls only) *)
UserScribble ==
  /\ Mode = "scr" \/ (Mode = "mini" /\ Impure = "alias")
  /\ pending = << >> /\ hist # << >>
  /\ Scribble(Len(hist))

Next == (\E c \in NextAlpha : UserCall(c)) \/ Run \/ UserScribble
Spec == Init /\ [][Next]_vars

TypeOK ==
  /\ \A o \in Objects : objs[o] \in Nat
  /\ \A s \in Targets : cursor[s].nom \in 0..World.T[s] /\ cursor[s].act \in 0..World.T[s]
  /\ \A i \in DOMAIN hist : hist[i].c \in WCalls
  /\ Len(word) <= 3 /\ Len(hist) <= 9

\* ---- emission (direction A): one schedule per selected behaviour ----
SampleFgf == IF Tier = "quick" THEN 5 ELSE 1
SampleAll == IF Tier = "quick" THEN 41 ELSE 23
Selected ==
  /\ pending = << >>
  /\ IF Mode = "fgf"
     THEN /\ Len(word) = 3
          /\ \/ word[2].e = word[1].e
             \/ (Reg[word[1].e].fam # "" /\ Reg[word[2].e].fam = Reg[word[1].e].fam /\ word[2].s = word[1].s)
             \/ (CallNo(word[1]) * 31 + CallNo(word[2]) * 17 + Seed) % SampleFgf = 0
     ELSE IF Mode = "scr" THEN Len(word) = 2
     ELSE IF Mode = "all3"
     THEN \/ Len(word) = 2 /\ Tier = "thorough"
          \/ Len(word) = 3 /\ (CallNo(word[1]) * 131 + CallNo(word[2]) * 31 + CallNo(word[3]) * 7 + Seed) % SampleAll = 0
     ELSE FALSE
Same(i) == LET S == {j \in 1..(i - 1) : hist[j].key = hist[i].key}
           IN  IF S = {} THEN 0 ELSE CHOOSE j \in S : \A k \in S : j <= k
T3(c) == <<c.e, c.s, c.v>>
Case ==
  [w     |-> WorldName,
   word  |-> [i \in 1..Len(word) |-> T3(word[i])],
   steps |-> [i \in 1..Len(hist) |-> T3(hist[i].c)],
   same  |-> [i \in 1..Len(hist) |-> Same(i)],
   cur   |-> [i \in 1..Len(hist) |-> hist[i].cur],
   wr    |-> [i \in 1..Len(hist) |-> IF hist[i].wrote THEN 1 ELSE 0],
   scr   |-> [i \in 1..Len(hist) |-> IF hist[i].scr THEN 1 ELSE 0]]
RegCase == [reg |-> Reg, worlds |-> Worlds]
Emit == /\ (Gen /\ Selected) => PrintT(ToJson(Case))
        /\ (Mode = "registry" /\ word = << >>) => PrintT(ToJson(RegCase))
=============================================================================
