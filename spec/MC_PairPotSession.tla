------------------------- MODULE MC_PairPotSession -------------------------
(***************************************************************************)
(* Sessions of property C12 (module PairPot, section "Histories").         *)
(*                                                                         *)
(* A behaviour is a sequence of calls of the three model functions and of  *)
(* the selector on a few PairInteractions instances; every returned triple *)
(* is held until the end.  Clauses:                                        *)
(*   InvHeld  (state)  every held triple is the result of its own call;    *)
(*   KeepHeld (step)   a call leaves the triples handed out earlier as     *)
(*                     they were - whichever model, whichever instance,    *)
(*                     directly or through caller().                       *)
(* The first two calls of a session range over ALL ordered pairs of the    *)
(* pool (so every (earlier call, later call) combination occurs, including *)
(* the same call twice); the following calls are chosen by a SEED-         *)
(* dependent hash of the history.  `fresh` says how instances are          *)
(* rendered: TRUE = every call constructs its own object (the list-        *)
(* comprehension idiom  [PairInteractions(r, ...).caller(p) for r in rs]), *)
(* FALSE = one object per instance, reused by all calls on it.             *)
(* The final state of a behaviour prints the session with the expectation  *)
(* `held` (model, shift and bindings under which the derivative terms      *)
(* printed by MC_PairPot are to be evaluated).                             *)
(***************************************************************************)
EXTENDS PairPot, Json

CONSTANTS Tier,      \* "quick" | "thorough"
          SEED,
          SHARD, NSHARDS

VARIABLES fresh, idx, calls, held
vars == <<fresh, idx, calls, held>>

Quick  == Tier = "quick"
MaxLen == IF Quick THEN 5 ELSE 8

\* ---- instances (distance, energy scale, length scale, cut-off, shift) ----
RSeed == <<1 + ((SEED * 131 + 59) % 15), 16>>          \* k/16, 0 < k < 16: inside the sigma = 11/10 of its instance
Insts ==
  << [r |-> <<9, 10>>, eps |-> <<1, 1>>, sigma |-> <<1, 1>>,   rc |-> <<5, 2>>,   shift |-> TRUE],
     [r |-> RSeed,     eps |-> <<3, 2>>, sigma |-> <<11, 10>>, rc |-> <<28, 25>>, shift |-> FALSE],
     [r |-> <<5, 8>>,  eps |-> <<1, 2>>, sigma |-> <<3, 4>>,   rc |-> <<3, 4>>,   shift |-> TRUE] >>
\* ---- scalar parameters (every call carries all three; the model uses its own) ----
Scalars ==
  << [n |-> <<10, 1>>, A |-> <<1, 1>>, alpha |-> <<2, 1>>],
     [n |-> <<5, 2>>,  A |-> <<2, 3>>, alpha |-> <<5, 2>>],
     [n |-> <<12, 1>>, A |-> <<0, 1>>, alpha |-> <<3, 1>>] >>
ScalarsOf(m) == IF m = "lennard_jones" THEN {1} ELSE 1..Len(Scalars)
ModelSeq == <<"lennard_jones", "inverse_power_law", "harmonic_hertz">>
ViaSeq   == <<"method", "caller">>

MkCall(i, m, v, s) ==
  [inst |-> Insts[i], ii |-> i, model |-> ModelSeq[m], via |-> ViaSeq[v],
   n |-> Scalars[s].n, A |-> Scalars[s].A, alpha |-> Scalars[s].alpha]
PoolSet == {c \in {MkCall(i, m, v, s) : i \in 1..Len(Insts), m \in 1..3, v \in 1..2, s \in 1..Len(Scalars)} :
              /\ \E s \in ScalarsOf(c.model) : c.n = Scalars[s].n /\ c.A = Scalars[s].A /\ c.alpha = Scalars[s].alpha
              /\ PCallInDomain(c)}
Pool  == SetToSeq(PoolSet)
NPool == Len(Pool)

Mix(h, x) == LET a == (h + x + 7) % 32749 IN (((a * a) % 32749) * 31 + x) % 32749
RECURSIVE HashSeq(_, _)
HashSeq(h, s) == IF s = << >> THEN h ELSE HashSeq(Mix(h, Head(s)), Tail(s))
NextIdx(ix) == 1 + (HashSeq(SEED + 3, ix) % NPool)

Init ==
  /\ fresh \in BOOLEAN
  /\ \E a \in 1..NPool :
        /\ a % NSHARDS = SHARD
        /\ idx = <<a>>
        /\ calls = <<Pool[a]>>
        /\ held = <<PCallResult(Pool[a])>>

Call(a) ==
  /\ Len(calls) < MaxLen
  /\ (Len(calls) >= 2 => a = NextIdx(idx))
  /\ idx' = Append(idx, a)
  /\ PCallStep(calls, held, calls', held', Pool[a])
  /\ UNCHANGED fresh

Next == \E a \in 1..NPool : Call(a)
Spec == Init /\ [][Next]_vars
Final == Len(calls) = MaxLen

\* ---- clauses ----
InvHeld   == PHeldAreResults(calls, held)
KeepHeld  == [][PHeldKept(held, held')]_vars
InvDomain == \A k \in 1..Len(calls) : PCallInDomain(calls[k])
\* scope facts the argument relies on: the pool holds every model by both routes on a shifting and on a
\* non-shifting instance, and two parameter sets of one model on one instance
InvPool   == /\ \A m \in Models : \A v \in Range(ViaSeq) : \A sh \in BOOLEAN :
                  \E c \in PoolSet : c.model = m /\ c.via = v /\ c.inst.shift = sh
             /\ \E c, d \in PoolSet : c.ii = d.ii /\ c.model = d.model /\ c.via = d.via /\ c.n # d.n

\* ---- emission: the final state of every behaviour ----
CallView(c) == [ii |-> c.ii, model |-> c.model, via |-> c.via]
Session == [ m |-> "Session", fresh |-> fresh, idx |-> idx,
             calls |-> [k \in 1..Len(calls) |-> CallView(calls[k])],
             held |-> held ]
Emit == Final => PrintT(ToJson(Session))
=============================================================================
