------------------------------ MODULE PairPot ------------------------------
(***************************************************************************)
(* Pair potentials and their radial derivatives (property C12; used by     *)
(* module Hessian for C11).                                                *)
(*                                                                         *)
(* A potential is a finite sum of monomials                                *)
(*                                                                         *)
(*   c(s) * eps^e * A^a * sigma^(b0+b1 s) * r^(p0+p1 s) * u^(q0+q1 s)      *)
(*        * rc^(k0+k1 s),            u = 1 - r/sigma,                      *)
(*                                                                         *)
(* where s is ONE symbolic exponent (the n of the inverse power law, the   *)
(* alpha of the harmonic/Hertz law) and the coefficient c(s) is a Laurent  *)
(* polynomial in s with rational coefficients.  The derivative d/dr is an  *)
(* operator D on this term algebra (power rule with symbolic exponents,    *)
(* product rule, chain rule du/dr = -1/sigma).  TLC evaluates D(s) and     *)
(* D(D(s)) for the three documented energies and compares the normal forms *)
(* with the closed forms printed in docs/hessian.md; the canonical         *)
(* derivative terms are emitted as Real terms over Var leaves.             *)
(***************************************************************************)
EXTENDS Exact, Real, TLC

(***************************************************************************)
(* Laurent polynomials in the symbolic exponent s: functions LRange -> Q   *)
(* (TLCEval forces TLC's lazy function values: without it nested products  *)
(* are re-evaluated exponentially often)                                   *)
(***************************************************************************)
LRange     == (0 - 3)..4
RZero      == <<0, 1>>
LZero      == TLCEval([k \in LRange |-> RZero])
LConst(q)  == TLCEval([k \in LRange |-> IF k = 0 THEN q ELSE RZero])
LSym(k0)   == TLCEval([k \in LRange |-> IF k = k0 THEN <<1, 1>> ELSE RZero])      \* s^k0
LAdd(a, b) == TLCEval([k \in LRange |-> RAdd(a[k], b[k])])
LScale(q, a) == TLCEval([k \in LRange |-> RMul(q, a[k])])
RECURSIVE RSumSeq(_)
RSumSeq(s) == IF s = << >> THEN RZero ELSE RAdd(Head(s), RSumSeq(Tail(s)))
LIdx       == TLCEval([i \in 1..Cardinality(LRange) |-> i - 4])                    \* enumerates LRange
\* product; a non-zero product coefficient outside LRange would be lost: asserted absent
LMul(a, b) ==
  LET ok == \A i, j \in LRange : (i + j) \notin LRange => (a[i][1] = 0 \/ b[j][1] = 0)
  IN  IF ~ok THEN Assert(FALSE, "Laurent range too small") ELSE
      TLCEval([k \in LRange |->
         RSumSeq([t \in 1..Len(LIdx) |->
            LET i == LIdx[t] IN
            IF (k - i) \in LRange THEN RMul(a[i], b[k - i]) ELSE RZero])])
LLin(p)    == LAdd(LConst(RInt(p[1])), LScale(RInt(p[2]), LSym(1)))       \* p0 + p1 s
LIsZero(a) == \A k \in LRange : a[k][1] = 0

(***************************************************************************)
(* Monomials and polynomials (sequences of monomials; PNorm = normal form) *)
(***************************************************************************)
Z2 == <<0, 0>>
L2Add(p, q) == <<p[1] + q[1], p[2] + q[2]>>
L2Neg(p)    == <<0 - p[1], 0 - p[2]>>

One == [c |-> LConst(<<1, 1>>), e |-> 0, a |-> 0, sg |-> Z2, r |-> Z2, u |-> Z2, rc |-> Z2]

Const(q)  == << [One EXCEPT !.c = LConst(q)] >>
SymC(k)   == << [One EXCEPT !.c = LSym(k)] >>        \* s^k as a coefficient
SymLin(p) == << [One EXCEPT !.c = LLin(p)] >>        \* (p0 + p1 s) as a coefficient
EpsP      == << [One EXCEPT !.e = 1] >>
PreA      == << [One EXCEPT !.a = 1] >>
SigP(b)   == << [One EXCEPT !.sg = b] >>             \* sigma^(b0 + b1 s)
RP(p)     == << [One EXCEPT !.r = p] >>              \* r^(p0 + p1 s)
UP(q)     == << [One EXCEPT !.u = q] >>              \* (1 - r/sigma)^(q0 + q1 s)
RcP(k)    == << [One EXCEPT !.rc = k] >>             \* r_c^(k0 + k1 s)
PZero     == << >>

MMul(m1, m2) == [c  |-> LMul(m1.c, m2.c), e |-> m1.e + m2.e, a |-> m1.a + m2.a,
                 sg |-> L2Add(m1.sg, m2.sg), r |-> L2Add(m1.r, m2.r),
                 u  |-> L2Add(m1.u, m2.u),  rc |-> L2Add(m1.rc, m2.rc)]

PAdd(P, Q2)   == P \o Q2
PScale(q, P)  == TLCEval([i \in 1..Len(P) |-> [P[i] EXCEPT !.c = LScale(q, @)]])
PNeg(P)       == PScale(<<0 - 1, 1>>, P)
PSub(P, Q2)   == PAdd(P, PNeg(Q2))
PMul(P, Q2)   == TLCEval([t \in 1..(Len(P) * Len(Q2)) |->
                    MMul(P[((t - 1) \div Len(Q2)) + 1], Q2[((t - 1) % Len(Q2)) + 1])])
PMul3(P, Q2, R2)     == PMul(PMul(P, Q2), R2)
PMul4(P, Q2, R2, T2) == PMul(PMul3(P, Q2, R2), T2)

SigOverR(p)  == PMul(SigP(p), RP(L2Neg(p)))          \* (sigma / r)^(p0 + p1 s)
SigOverRc(p) == PMul(SigP(p), RcP(L2Neg(p)))         \* (sigma / r_c)^(p0 + p1 s)

Sig(m) == <<m.e, m.a, m.sg, m.r, m.u, m.rc>>
RECURSIVE CoefSum(_, _)
CoefSum(P, g) == IF P = << >> THEN LZero
                 ELSE IF Sig(Head(P)) = g THEN LAdd(Head(P).c, CoefSum(Tail(P), g))
                 ELSE CoefSum(Tail(P), g)
\* normal form: set of monomials with pairwise distinct signatures and non-zero coefficients
PNorm(P) ==
  LET sigs == {Sig(P[i]) : i \in 1..Len(P)}
      ms   == {[c |-> CoefSum(P, g), e |-> g[1], a |-> g[2], sg |-> g[3], r |-> g[4], u |-> g[5], rc |-> g[6]]
                 : g \in sigs}
  IN  {m \in ms : ~LIsZero(m.c)}
PEq(P, Q2) == PNorm(P) = PNorm(Q2)

RECURSIVE SetToSeq(_)
SetToSeq(S) == IF S = {} THEN << >>
               ELSE LET x == CHOOSE y \in S : TRUE IN <<x>> \o SetToSeq(S \ {x})
Canon(P) == SetToSeq(PNorm(P))

(***************************************************************************)
(* d/dr.  d(r^p) = p r^(p-1);  d(u^q) = q u^(q-1) (-1/sigma);  everything  *)
(* else (eps, A, sigma, r_c, s) is constant.  Product rule on r^p u^q.     *)
(***************************************************************************)
DMono(m) ==
  << [m EXCEPT !.c = LMul(@, LLin(m.r)), !.r = L2Add(@, <<0 - 1, 0>>)],
     [m EXCEPT !.c = LScale(<<0 - 1, 1>>, LMul(@, LLin(m.u))),
               !.u = L2Add(@, <<0 - 1, 0>>), !.sg = L2Add(@, <<0 - 1, 0>>)] >>
RECURSIVE DRaw(_)
DRaw(P) == IF P = << >> THEN << >> ELSE DMono(Head(P)) \o DRaw(Tail(P))
D(P)    == Canon(DRaw(P))

\* substitution r := r_c in a polynomial free of u
AtRc(P) == TLCEval([i \in 1..Len(P) |->
              IF P[i].u # Z2 THEN Assert(FALSE, "AtRc: polynomial in u")
              ELSE [P[i] EXCEPT !.rc = L2Add(@, P[i].r), !.r = Z2]])
\* substitution r := sigma (u = 0), valid for every s > 1: a monomial whose u-exponent
\* q0 + q1 s is positive for all s > 1 vanishes; one without u keeps r := sigma
UPositive(q) == q[2] >= 0 /\ q[1] + q[2] >= 0 /\ q # Z2
RECURSIVE AtSigma(_)
AtSigma(P) ==
  IF P = << >> THEN << >>
  ELSE LET m == Head(P) IN
       IF m.u = Z2 THEN <<[m EXCEPT !.sg = L2Add(@, m.r), !.r = Z2]>> \o AtSigma(Tail(P))
       ELSE IF UPositive(m.u) THEN AtSigma(Tail(P))
       ELSE Assert(FALSE, "AtSigma: singular at u = 0")

(***************************************************************************)
(* The three documented energies (docs/hessian.md, section I)              *)
(***************************************************************************)
Models == {"lennard_jones", "inverse_power_law", "harmonic_hertz"}
SymName(model) == IF model = "harmonic_hertz" THEN "alpha" ELSE "n"

\* s(r) = 4 eps [ (sigma/r)^12 - (sigma/r)^6 ]
EnergyLJ  == PMul3(Const(<<4, 1>>), EpsP, PSub(SigOverR(<<12, 0>>), SigOverR(<<6, 0>>)))
\* s(r) = A eps (sigma/r)^n
EnergyIPL == PMul3(PreA, EpsP, SigOverR(<<0, 1>>))
\* s(r) = (eps/alpha) (1 - r/sigma)^alpha
EnergyHZ  == PMul3(EpsP, SymC(0 - 1), UP(<<0, 1>>))
Energy(model) == CASE model = "lennard_jones"     -> EnergyLJ
                   [] model = "inverse_power_law" -> EnergyIPL
                   [] model = "harmonic_hertz"    -> EnergyHZ

\* documented first derivatives
\* s' = (-24 eps / r) [ 2 (sigma/r)^12 - (sigma/r)^6 ]
DocS1LJ  == PMul4(Const(<<0 - 24, 1>>), EpsP, RP(<<0 - 1, 0>>),
                  PSub(PScale(<<2, 1>>, SigOverR(<<12, 0>>)), SigOverR(<<6, 0>>)))
\* s' = -(A eps n / r) (sigma/r)^n
DocS1IPL == PMul(PMul4(Const(<<0 - 1, 1>>), PreA, EpsP, SymC(1)), PMul(RP(<<0 - 1, 0>>), SigOverR(<<0, 1>>)))
\* s' = -(eps/sigma) (1 - r/sigma)^(alpha - 1)
DocS1HZ  == PMul4(Const(<<0 - 1, 1>>), EpsP, SigP(<<0 - 1, 0>>), UP(<<0 - 1, 1>>))
DocS1(model) == CASE model = "lennard_jones"     -> DocS1LJ
                  [] model = "inverse_power_law" -> DocS1IPL
                  [] model = "harmonic_hertz"    -> DocS1HZ

\* documented values at the cut-off
DocS1cLJ  == PMul4(Const(<<0 - 24, 1>>), EpsP, RcP(<<0 - 1, 0>>),
                   PSub(PScale(<<2, 1>>, SigOverRc(<<12, 0>>)), SigOverRc(<<6, 0>>)))
DocS1cIPL == PMul(PMul4(Const(<<0 - 1, 1>>), PreA, EpsP, SymC(1)), PMul(RcP(<<0 - 1, 0>>), SigOverRc(<<0, 1>>)))
DocS1cHZ  == PZero                                  \* "s'(r_c) = 0"  (the cut-off of this law is sigma)
DocS1c(model) == CASE model = "lennard_jones"     -> DocS1cLJ
                   [] model = "inverse_power_law" -> DocS1cIPL
                   [] model = "harmonic_hertz"    -> DocS1cHZ

\* documented second derivatives
\* s'' = (24 eps / r^2) [ 26 (sigma/r)^12 - 7 (sigma/r)^6 ]
DocS2LJ  == PMul4(Const(<<24, 1>>), EpsP, RP(<<0 - 2, 0>>),
                  PSub(PScale(<<26, 1>>, SigOverR(<<12, 0>>)), PScale(<<7, 1>>, SigOverR(<<6, 0>>))))
\* s'' = (A eps n (n+1) / r^2) (sigma/r)^n
DocS2IPL == PMul(PMul4(PreA, EpsP, SymC(1), SymLin(<<1, 1>>)), PMul(RP(<<0 - 2, 0>>), SigOverR(<<0, 1>>)))
\* s'' = (eps/sigma^2) (alpha - 1) (1 - r/sigma)^(alpha - 2)
DocS2HZ  == PMul4(EpsP, SigP(<<0 - 2, 0>>), SymLin(<<0 - 1, 1>>), UP(<<0 - 2, 1>>))
DocS2(model) == CASE model = "lennard_jones"     -> DocS2LJ
                  [] model = "inverse_power_law" -> DocS2IPL
                  [] model = "harmonic_hertz"    -> DocS2HZ

(***************************************************************************)
(* The derivatives of the documented energies (what C12 states)            *)
(***************************************************************************)
S1(model) == D(Energy(model))
S2(model) == D(D(Energy(model)))
\* first derivative at the cut-off (Hertz: the cut-off is sigma)
S1AtCut(model) == IF model = "harmonic_hertz" THEN Canon(AtSigma(S1(model)))
                  ELSE Canon(AtRc(S1(model)))
\* the cut-off term of the triple
S1c(model, shift) == IF shift THEN S1AtCut(model) ELSE PZero

\* force-shifted energy  s(r) - s(r_c) - (r - r_c) s'(r_c)   (r_c-atoms are constants of D)
Shifted(model) ==
  IF model = "harmonic_hertz" THEN Energy(model)      \* s(sigma) = s'(sigma) = 0 for alpha > 1
  ELSE PSub(PSub(Energy(model), AtRc(Energy(model))),
            PMul(PSub(RP(<<1, 0>>), RcP(<<1, 0>>)), AtRc(S1(model))))

\* model-level clauses
DocFirstDerivative(model)  == PEq(S1(model), DocS1(model))
DocSecondDerivative(model) == PEq(S2(model), DocS2(model)) /\ PEq(D(DocS1(model)), DocS2(model))
DocCutoffTerm(model)       == PEq(S1AtCut(model), DocS1c(model))
ForceShiftFirst(model)     == PEq(D(Shifted(model)), PSub(S1(model), S1c(model, TRUE)))
ForceShiftSecond(model)    == PEq(D(D(Shifted(model))), S2(model))
\* the Lennard-Jones forms do not depend on the symbolic exponent
NoSym(P) == \A i \in 1..Len(P) : /\ \A k \in LRange : k # 0 => P[i].c[k][1] = 0
                                 /\ P[i].sg[2] = 0 /\ P[i].r[2] = 0 /\ P[i].u[2] = 0 /\ P[i].rc[2] = 0
\* which leaves a polynomial depends on (for the selector clause)
UsesSym(P)  == ~NoSym(P)
UsesA(P)    == \E i \in 1..Len(P) : P[i].a # 0
UsesRc(P)   == \E i \in 1..Len(P) : P[i].rc # Z2
UsesR(P)    == \E i \in 1..Len(P) : P[i].r # Z2 \/ P[i].u # Z2

\* algebra sanity: Leibniz and linearity on the potentials themselves
Leibniz(P, Q2) == PEq(D(PMul(P, Q2)), PAdd(PMul(D(P), Q2), PMul(P, D(Q2))))
Linear(P, Q2)  == PEq(D(PAdd(P, Q2)), PAdd(D(P), D(Q2)))

(***************************************************************************)
(* Real terms.  Leaves are Var("eps"), Var("A"), Var("sigma"), Var("r"),   *)
(* Var("rc") and Var(sym) with sym = "n" or "alpha".                       *)
(***************************************************************************)
LinT(p, sym) == IF p[2] = 0 THEN I(p[1])
                ELSE IF p[1] = 0 /\ p[2] = 1 THEN Var(sym)
                ELSE Add2(I(p[1]), Mul2(I(p[2]), Var(sym)))
CoefT(c, sym) ==
  LET ks == {k \in LRange : c[k][1] # 0}
      sq == SortedSeq(ks)
  IN  Add([t \in 1..Len(sq) |->
             IF sq[t] = 0 THEN QR(c[0]) ELSE Mul2(QR(c[sq[t]]), PowI(Var(sym), sq[t]))])
UTerm == Sub(I(1), Div(Var("r"), Var("sigma")))
PowF(base, p, sym) == IF p = Z2 THEN << >> ELSE << PowT(base, LinT(p, sym)) >>
MonoT(m, sym) ==
  Mul( <<CoefT(m.c, sym)>>
       \o (IF m.e = 0 THEN << >> ELSE <<PowI(Var("eps"), m.e)>>)
       \o (IF m.a = 0 THEN << >> ELSE <<PowI(Var("A"), m.a)>>)
       \o PowF(Var("sigma"), m.sg, sym) \o PowF(Var("r"), m.r, sym)
       \o PowF(UTerm, m.u, sym) \o PowF(Var("rc"), m.rc, sym) )
ToTerm(P, sym) == Add([i \in 1..Len(P) |-> MonoT(P[i], sym)])

S1Term(model)         == ToTerm(S1(model), SymName(model))
S2Term(model)         == ToTerm(S2(model), SymName(model))
S1cTerm(model, shift) == ToTerm(S1c(model, shift), SymName(model))

\* Everything a model needs per potential, as one strict value.  TLC does not reliably
\* cache constant operators (inside LET bodies they are re-evaluated at every use), so the
\* MC modules evaluate this table ONCE in Init into a state variable.
PotRec(m) ==
  [ s1t   |-> S1Term(m),
    s2t   |-> S2Term(m),
    s1ct  |-> TLCEval([sh \in BOOLEAN |-> S1cTerm(m, sh)]),
    nmono |-> TLCEval([sh \in BOOLEAN |-> <<Len(S1(m)), Len(S1c(m, sh)), Len(S2(m))>>]),
    sym   |-> SymName(m) ]
PotTable == TLCEval([m \in Models |-> PotRec(m)])

(***************************************************************************)
(* Histories.  The three model functions and the selector are FUNCTIONS of *)
(* their call: the triple a call returns is determined by that call alone  *)
(* (distance, energy scale, length scale, cut-off and shift of the         *)
(* instance it is made on; the model; the scalar parameters handed in).    *)
(* A triple that the caller still holds therefore keeps its value whatever *)
(* is called afterwards, on whichever instance, directly or through the    *)
(* selector ("the first and second radial derivatives RETURNED ... are     *)
(* exactly ds/dr and d2s/dr2" is a statement about every returned triple,  *)
(* not only about the one returned last).                                  *)
(*                                                                         *)
(* A call is a record                                                      *)
(*   [inst |-> [r, eps, sigma, rc, shift], model, via, n, A, alpha]        *)
(* (via = "method" | "caller"); a session is a sequence of calls; `held`   *)
(* is the sequence of the results handed out so far - none is released.    *)
(* A result is stated as (S1, S1c, S2)(model, shift) under the bindings of *)
(* its own call.                                                           *)
(***************************************************************************)
PCallResult(call) ==
  [ model |-> call.model, shift |-> call.inst.shift,
    bind  |-> [r |-> call.inst.r, eps |-> call.inst.eps, sigma |-> call.inst.sigma, rc |-> call.inst.rc,
               n |-> call.n, A |-> call.A, alpha |-> call.alpha] ]
\* one step of a session: the new result is appended, nothing else changes
PCallStep(calls, held, calls2, held2, c) ==
  calls2 = Append(calls, c) /\ held2 = Append(held, PCallResult(c))
\* clause: every held triple is the result of its own call
PHeldAreResults(calls, held) ==
  Len(held) = Len(calls) /\ \A k \in 1..Len(calls) : held[k] = PCallResult(calls[k])
\* clause (on steps): a later call leaves the triples handed out earlier as they were
PHeldKept(held, held2) ==
  Len(held2) >= Len(held) /\ \A k \in 1..Len(held) : held2[k] = held[k]
\* the documented domain of a call (same limits as the parameter grid of MC_PairPot: Hertz with a
\* non-integer exponent only inside contact, never exactly at contact, and - when shifting - only
\* with the cut-off at sigma, where the documented s'(r_c) = 0 is the derivative)
PCallInDomain(call) ==
  LET i == call.inst IN
  /\ RLt(RZero, i.r) /\ RLt(RZero, i.sigma) /\ RLt(RZero, i.rc)
  /\ call.model \in Models /\ call.via \in {"method", "caller"}
  /\ RLt(RZero, call.n) /\ RLt(<<1, 1>>, call.alpha)
  /\ (call.model = "harmonic_hertz" =>
        /\ ~REq(i.r, i.sigma)
        /\ (call.alpha[2] = 1 \/ RLt(i.r, i.sigma))
        /\ (i.shift => REq(i.rc, i.sigma)))
=============================================================================
