--------------------------- MODULE TraceGeometry ---------------------------
(***************************************************************************)
(* Trace validation (direction B) for PyMatterSim/utils/geometry.py.       *)
(* One record per call recorded from the real code, integer inputs in      *)
(* units 1/S:                                                              *)
(*  [op |-> "tri", id, H, ppp, P, S]        triangle_area: the admissible  *)
(*        squared side triples and Heron terms are printed                 *)
(*  [op |-> "ang", id, a, b, c, S]          triangle_angle: term printed   *)
(*  [op |-> "lin", id, A, B, C, E, on1, on2]  lines_intersection: on1/on2  *)
(*        = 1 iff the returned point lies on line 1 / line 2 (harness      *)
(*        projection at 1e-9); the exact rational point is printed         *)
(*  [op |-> "sq", id, Q, R0, u, onedge, onray]  LineWithinSquare with      *)
(*        u = -vector: onedge[k] = 1 iff the returned point lies on the    *)
(*        closed edge k, onray = 1 iff it lies on the open ray from R0     *)
(*        along u.  The spec decides whether an edge the point lies on is  *)
(*        an admissible exit edge, and prints the exact point.             *)
(* A record is consumed iff Why(rec) = ""; otherwise bad names the clause. *)
(***************************************************************************)
EXTENDS Geometry, Json, IOUtils, SequencesExt

Tr == ndJsonDeserialize(IOEnv.TRACE_FILE)

VARIABLES l, bad
vars == <<l, bad>>

WhyLin(rec) ==
  IF rec.A = rec.B \/ rec.C = rec.E \/ LinD(rec.A, rec.B, rec.C, rec.E) = 0 THEN "OutsideDomain:parallel"
  ELSE IF rec.on1 # 1 \/ rec.on2 # 1 THEN "PointOnBothLines"
  ELSE ""
WhySq(rec) ==
  IF ~ConvexCCW(rec.Q) \/ ~StrictlyInside(rec.Q, rec.R0) \/ rec.u = <<0, 0>> THEN "OutsideDomain:quadrilateral"
  ELSE IF rec.onray # 1 \/ \A k \in ExitEdges(rec.Q, rec.R0, rec.u) : rec.onedge[k] # 1
       THEN (IF rec.onray # 1 THEN "ExitPointOnRay" ELSE "ExitEdge")
            \o (IF WrapEdges(rec.Q, rec.R0) # {4} THEN ":start-corner" ELSE "")    \* outside the set where comparing arctan2 angles is right
  ELSE ""
Why(rec) ==
  CASE rec.op = "tri" -> ""
    [] rec.op = "ang" -> IF IsTriangle(rec.a, rec.b, rec.c) THEN "" ELSE "OutsideDomain:triangle"
    [] rec.op = "lin" -> WhyLin(rec)
    [] rec.op = "sq"  -> WhySq(rec)
    [] OTHER -> "UnknownRecord"

TriExpect(rec) ==
  LET ss == SetToSeq(TriSide2Set(rec.H, rec.P, rec.ppp)) IN
  [ rec |-> rec.id, op |-> "tri",
    tie |-> \E k \in 1..3 : HasTie(rec.H, TriDiffs(rec.P)[k], rec.ppp),
    adm |-> [i \in 1..Len(ss) |-> [s2 |-> ss[i], rad |-> HeronRadicand(ss[i], rec.S), area |-> HeronTerm(ss[i], rec.S)]] ]
AngExpect(rec) ==
  [ rec |-> rec.id, op |-> "ang", val |-> AngleTerm(Q(rec.a, rec.S), Q(rec.b, rec.S), Q(rec.c, rec.S)),
    cos |-> AngleCos(rec.a, rec.b, rec.c) ]
LinExpect(rec) == [ rec |-> rec.id, op |-> "lin", pt |-> LinPoint(rec.A, rec.B, rec.C, rec.E) ]
SqExpect(rec) ==
  [ rec |-> rec.id, op |-> "sq", edges |-> ExitEdges(rec.Q, rec.R0, rec.u), pt |-> ExitPoint(rec.Q, rec.R0, rec.u),
    wrap |-> WrapEdges(rec.Q, rec.R0) ]
Expect(rec) ==
  CASE rec.op = "tri" -> TriExpect(rec) [] rec.op = "ang" -> AngExpect(rec)
    [] rec.op = "lin" -> LinExpect(rec) [] rec.op = "sq" -> SqExpect(rec)

Init == l = 1 /\ bad = ""
Step ==
  /\ l <= Len(Tr) /\ bad = ""
  /\ LET rec == Tr[l]
         w   == Why(rec)
     IN  /\ IF w = "" THEN l' = l + 1 /\ bad' = "" ELSE l' = l /\ bad' = w
         /\ (w = "" => PrintT(ToJson(Expect(rec))))
Spec == Init /\ [][Step]_vars
Accepted == bad = ""
=============================================================================
