-------------------------- MODULE TraceLammpsDump --------------------------
(***************************************************************************)
(* Trace validation for C01.  Records:                                     *)
(*  [op |-> "open", lines, ndim]   a dump file (token lines) was opened    *)
(*  [op |-> "frame", obs]          the reader delivered its next snapshot; *)
(*                                 obs = its fields as integers over DEN   *)
(*  [op |-> "eof", count]          the reader finished with count frames   *)
(* The file cursor is carried by the specification.                        *)
(***************************************************************************)
EXTENDS LammpsDump, Json, IOUtils

Tr == ndJsonDeserialize(IOEnv.TRACE_FILE)

VARIABLES l, bad, lines, cur, ndim, nread
vars == <<l, bad, lines, cur, ndim, nread>>

BigFrame == 200

Init == l = 1 /\ bad = "" /\ lines = << >> /\ cur = 0 /\ ndim = 0 /\ nread = 0

Step ==
  /\ l <= Len(Tr) /\ bad = ""
  /\ LET rec == Tr[l] IN
     IF rec.op = "open" THEN
        /\ l' = l + 1 /\ bad' = "" /\ lines' = rec.lines /\ cur' = 0 /\ ndim' = rec.ndim /\ nread' = 0
     ELSE IF rec.op = "frame" THEN
        IF cur >= Len(lines) THEN l' = l /\ bad' = "MoreFramesThanInFile" /\ UNCHANGED <<lines, cur, ndim, nread>>
        ELSE LET big == lines[cur + 4][1][1] > BigFrame      \* many atoms: the row-wise formulation (InvRowwiseAgrees)
                 w == IF big THEN WhySnapshotRows(rec.obs, lines, cur, ndim)
                             ELSE WhySnapshot(rec.obs, Parse(lines, cur, ndim).snap)
             IN  IF w = "" THEN l' = l + 1 /\ bad' = "" /\ cur' = NextCur(lines, cur) /\ nread' = nread + 1 /\ UNCHANGED <<lines, ndim>>
                 ELSE l' = l /\ bad' = w /\ UNCHANGED <<lines, cur, ndim, nread>>
     ELSE
        IF rec.count = nread /\ cur = Len(lines) THEN l' = l + 1 /\ bad' = "" /\ UNCHANGED <<lines, cur, ndim, nread>>
        ELSE l' = l /\ bad' = "OneSnapshotPerFrame" /\ UNCHANGED <<lines, cur, ndim, nread>>
Spec == Init /\ [][Step]_vars
Accepted == bad = ""
=============================================================================
