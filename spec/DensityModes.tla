---------------------------- MODULE DensityModes ----------------------------
(***************************************************************************)
(* Wave vectors, density modes and the static structure factor (property   *)
(* C04; the conditional variant of C13 is in CondModes.tla).               *)
(*                                                                         *)
(* Configuration record c:                                                 *)
(*   L      box edge lengths, integers in units of 1/S (orthogonal box)    *)
(*   S      scale                                                          *)
(*   M      grid divisions: particle i sits at  m_i[k] * L[k] / M  along   *)
(*          axis k (m any integer: also outside the box)                   *)
(*   types  species ids 1..K                                               *)
(*   frames sequence of frames, a frame = sequence of integer vectors m_i  *)
(*   tys    (optional) species labels per frame (labels move between       *)
(*          particles at constant composition)                             *)
(*                                                                         *)
(* For the integer wave vector n, q = 2 pi n / L and q.r_i = 2 pi (n.m_i)/M*)
(* so exp(-i q.r_i) = zeta^(-n.m_i) with zeta = exp(2 pi i / M): a density *)
(* mode is a COUNT VECTOR over the M phase classes,                        *)
(*    rho_a(n) = sum_k c_a[k] zeta^k,                                      *)
(* and Re[rho_a conj(rho_b)] = sum_delta W_ab[delta] cos(2 pi delta / M)   *)
(* with the integer circular correlation                                   *)
(*    W_ab[delta] = sum_k c_a[k] c_b[(k - delta) mod M].                   *)
(* S_ab(n) = <Re[rho_a conj rho_b]> / sqrt(N_a N_b)  (docs/sq.md), then    *)
(* averaged over the supplied vectors of equal |q|.                        *)
(***************************************************************************)
EXTENDS Exact, Real, TLC

NPart(c)    == Len(c.types)
NDim(c)     == Len(c.L)
NFrames(c)  == Len(c.frames)
Species(c)  == Range(c.types)
NSpecies(c) == Cardinality(Species(c))
CountOf(c, a) == Cardinality({i \in 1..NPart(c) : c.types[i] = a})
TypesAt(c, f) == IF "tys" \in DOMAIN c THEN c.tys[f] ELSE c.types
PerFrameOK(c) ==
  "tys" \in DOMAIN c => /\ Len(c.tys) = NFrames(c)
                         /\ \A f \in 1..NFrames(c) : \A a \in Species(c) :
                               Cardinality({i \in 1..NPart(c) : c.tys[f][i] = a}) = CountOf(c, a)

(***************************************************************************)
(* Wave vectors.                                                           *)
(***************************************************************************)
\* all d-vectors over lo..hi as a sequence in the order of the nested loops (first axis slowest)
Cube(d, lo, hi) ==
  LET n == hi - lo + 1 IN
  [i \in 1..IPow(n, d) |-> [k \in 1..d |-> lo + (((i - 1) \div IPow(n, d - k)) % n)]]
IsZero(v) == \A k \in 1..Len(v) : v[k] = 0

\* The documented default set for half-width h: the non-zero integer vectors of [-h, h)^d
\* whose norm is an integer; opt selects all ("F"), the non-negative ones ("T"), or the
\* strictly positive multiples of one axis ("x", "y", "z").
OptOK(v, opt) ==
  IF opt = "F" THEN TRUE
  ELSE IF opt = "T" THEN \A k \in 1..Len(v) : v[k] >= 0
  ELSE LET ax == IF opt = "x" THEN 1 ELSE IF opt = "y" THEN 2 ELSE 3 IN
       IF ax > Len(v) THEN TRUE     \* an axis the system does not have selects nothing further
       ELSE v[ax] > 0 /\ \A k \in 1..Len(v) : k # ax => v[k] = 0
DefaultVectors(d, h, opt) ==
  IF h = 0 THEN << >>
  ELSE SelectSeq(Cube(d, 0 - h, h - 1), LAMBDA v : (~IsZero(v)) /\ IsSquare(Norm2(v)) /\ OptOK(v, opt))

\* numofq = int(qrange * L_max / pi) with qrange = qn/qd and L_max in units of 1/S, decided with
\* 333/106 < pi < 355/113; the two bounds agree unless the quotient is within 1e-4 of an integer
LMax(c) == SetMax(Range(c.L))
NumOfQLo(c, qn, qd) == (qn * LMax(c) * 113) \div (qd * c.S * 355)
NumOfQHi(c, qn, qd) == (qn * LMax(c) * 106) \div (qd * c.S * 333)
NumOfQDecided(c, qn, qd) == NumOfQLo(c, qn, qd) = NumOfQHi(c, qn, qd)
NHalf(c, qn, qd) == NumOfQLo(c, qn, qd) \div 2

Vectors(c) ==
  IF c.sel.kind = "list" THEN c.sel.vecs
  ELSE DefaultVectors(NDim(c), NHalf(c, c.sel.qn, c.sel.qd), c.sel.opt)

\* |q|^2 / (2 pi)^2 = sum_k n_k^2 S^2 / L_k^2 ; exact integer key over the common denominator
ProdOthers(c, k) == ProdSeq([j \in 1..NDim(c) |-> IF j = k THEN 1 ELSE c.L[j]])
NormKey(c, v)    == SumSeq([k \in 1..NDim(c) |-> v[k] * v[k] * ProdOthers(c, k) * ProdOthers(c, k)])
QTerm(c, v) ==     \* |q| as a term
  Mul(<<I(2), Pi, Sqrt(Add([k \in 1..NDim(c) |-> Q(v[k] * v[k] * c.S * c.S, c.L[k] * c.L[k])]))>>)

(***************************************************************************)
(* Density modes as count vectors.                                         *)
(***************************************************************************)
PhaseClass(c, v, m) == (0 - Dot(v, m)) % c.M
\* c_a[k], k = 0..M-1 stored at index k+1; a = 0 means all particles
Counts(c, f, v, a) ==
  LET cls == [i \in 1..NPart(c) |-> PhaseClass(c, v, c.frames[f][i])]
  IN  [k \in 1..c.M |-> Cardinality({i \in 1..NPart(c) : cls[i] = k - 1 /\ (a = 0 \/ TypesAt(c, f)[i] = a)})]
Corr(M, ca, cb) == TLCEval([dl \in 1..M |-> SumSeq([k \in 1..M |-> ca[k] * cb[((k - 1 - (dl - 1)) % M) + 1]])])
VAddSeq(u, v) == TLCEval([k \in 1..Len(u) |-> u[k] + v[k]])
RECURSIVE SumVecs(_, _)
SumVecs(vs, zero) == IF vs = << >> THEN zero ELSE VAddSeq(Head(vs), SumVecs(Tail(vs), zero))
\* count tables of one vector, evaluated once: CT[f][a + 1] = c_a of frame f (a = 0: all particles)
CountTable(c, v) ==
  TLCEval([f \in 1..NFrames(c) |-> [a1 \in 1..(NSpecies(c) + 1) |-> Counts(c, f, v, a1 - 1)]])
WT(c, CT, a, b) ==
  SumVecs([f \in 1..NFrames(c) |-> Corr(c.M, CT[f][a + 1], CT[f][b + 1])], [k \in 1..c.M |-> 0])
\* W_ab summed over frames
W(c, v, a, b) == WT(c, CountTable(c, v), a, b)

\* columns: <<0,0>> total, <<a,a>>, <<a,b>> a < b  (only the total for one or more than five species)
Total == <<0, 0>>
ColSeq(K) ==
  <<Total>> \o
  (IF K <= 5 /\ K >= 2
   THEN [a \in 1..K |-> <<a, a>>] \o
        SelectSeq([n \in 1..(K * K) |-> <<((n - 1) \div K) + 1, ((n - 1) % K) + 1>>], LAMBDA p : p[1] < p[2])
   ELSE << >>)
ColName(col) == IF col = Total THEN "Sq" ELSE "Sq" \o ToString(col[1]) \o ToString(col[2])
\* normalisation sqrt(N_a N_b) * F  as a term
NormTerm(c, col) ==
  LET na == IF col = Total THEN NPart(c) ELSE CountOf(c, col[1])
      nb == IF col = Total THEN NPart(c) ELSE CountOf(c, col[2])
  IN  Mul2(I(NFrames(c)), Sqrt(I(na * nb)))
CosTerm(M, dl) == Cos(Div(Mul2(I(2 * dl), Pi), I(M)))       \* cos(2 pi dl / M)
\* the per-vector value as a term:  sum_dl W[dl] cos(2 pi dl/M) / (F sqrt(N_a N_b))
SabTerm(c, v, col) ==
  LET w == W(c, v, col[1], col[2]) IN
  Div(Add([dl \in 1..c.M |-> Mul2(I(w[dl]), CosTerm(c.M, dl - 1))]), NormTerm(c, col))

(***************************************************************************)
(* Grouping by exact |q|.                                                  *)
(***************************************************************************)
Groups(c, vecs) ==      \* sequence of [key, members (indices into vecs)] by increasing |q|
  LET keys == SortedSeq({NormKey(c, vecs[i]) : i \in 1..Len(vecs)})
  IN  [g \in 1..Len(keys) |-> [key |-> keys[g], members |-> {i \in 1..Len(vecs) : NormKey(c, vecs[i]) = keys[g]}]]

(***************************************************************************)
(* Clauses of C04 on the model.                                            *)
(***************************************************************************)
Sym(M, w0) == LET w == TLCEval(w0) IN TLCEval([dl \in 1..M |-> w[dl] + w[((M - (dl - 1)) % M) + 1]])
\* N S = sum_a N_a S_aa + 2 sum_{a<b} sqrt(N_a N_b) S_ab  as an identity of the integer correlations
SumRule(c, v) ==
  LET K == NSpecies(c)
      CT == CountTable(c, v)
      tot == Sym(c.M, WT(c, CT, 0, 0))
      parts == TLCEval([n \in 1..(K * K) |-> LET a == ((n - 1) \div K) + 1
                                         b == ((n - 1) % K) + 1
                                     IN  Sym(c.M, WT(c, CT, a, b))])
  IN  tot = SumVecs(parts, [k \in 1..c.M |-> 0])
\* for M = 4 (zeta = i) the modes are Gaussian integers and |rho_a|^2 = W_aa[0] - W_aa[2] >= 0
DiagonalNonNegative(c, v) ==
  c.M = 4 => LET CT == CountTable(c, v) IN
             \A a \in {0} \cup Species(c) : LET w == WT(c, CT, a, a) IN w[1] - w[3] >= 0
\* total count: W[.] sums to N_a N_b F
CorrMass(c, v) ==
  LET CT == CountTable(c, v) IN
  \A a \in Species(c) : \A b \in Species(c) :
    SumSeq(WT(c, CT, a, b)) = CountOf(c, a) * CountOf(c, b) * NFrames(c)

DefaultSetCharacterisation(d, h, opt) ==
  LET vs == DefaultVectors(d, h, opt)
      set == Range(vs)
  IN  /\ Cardinality(set) = Len(vs)                                \* no vector twice
      /\ \A v \in set : ~IsZero(v) /\ IsSquare(Norm2(v))
      /\ \A v \in set : \A k \in 1..d : v[k] >= 0 - h /\ v[k] < h  \* half-open range
      /\ opt = "F" => \A v \in Range(Cube(d, 0 - h, h - 1)) :
                         ((~IsZero(v)) /\ IsSquare(Norm2(v))) => v \in set
      /\ opt = "T" => set = {v \in Range(DefaultVectors(d, h, "F")) : \A k \in 1..d : v[k] >= 0}
      /\ (opt \in {"x", "y"} \/ (opt = "z" /\ d = 3)) => set \subseteq Range(DefaultVectors(d, h, "T"))

GroupingByNorm(c, vecs) ==
  LET gs == Groups(c, vecs) IN
  /\ UNION {gs[g].members : g \in 1..Len(gs)} = 1..Len(vecs)
  /\ \A g, h \in 1..Len(gs) : g < h => gs[g].key < gs[h].key /\ gs[g].members \cap gs[h].members = {}

(***************************************************************************)
(* The case handed to the conformance driver.                              *)
(***************************************************************************)
Case(c) ==
  LET vecs == Vectors(c)
      cols == ColSeq(NSpecies(c))
      gs   == Groups(c, vecs)
  IN  [ m |-> "DensityModes", L |-> c.L, S |-> c.S, M |-> c.M, types |-> c.types, frames |-> c.frames, sel |-> c.sel,
        tys |-> [f \in 1..NFrames(c) |-> TypesAt(c, f)],
        decided |-> (c.sel.kind = "list" \/ NumOfQDecided(c, c.sel.qn, c.sel.qd)),
        vecs |-> vecs,
        cols |-> [q \in 1..Len(cols) |-> ColName(cols[q])],
        norm |-> [q \in 1..Len(cols) |-> NormTerm(c, cols[q])],
        cos  |-> [dl \in 1..c.M |-> CosTerm(c.M, dl - 1)],
        w    |-> [i \in 1..Len(vecs) |-> LET CT == CountTable(c, vecs[i]) IN
                                          [q \in 1..Len(cols) |-> WT(c, CT, cols[q][1], cols[q][2])]],
        groups |-> [g \in 1..Len(gs) |-> [q |-> QTerm(c, vecs[CHOOSE i \in gs[g].members : TRUE]),
                                          members |-> SortedSeq(gs[g].members)]] ]
=============================================================================
