---------------------------- MODULE MC_Symmetry ----------------------------
(***************************************************************************)
(* Models for property C07.                                                *)
(*  Mode "small"  base configurations (hash-generated generic ones in      *)
(*                orthogonal / triclinic / open cells, 2-D and 3-D, plus a *)
(*                square-lattice patch and a tetrahedral cluster) x words  *)
(*                of generators of length 1..MaxLen from the catalogue of  *)
(*                the dimension.  In every state the model observables of  *)
(*                PairHist, DensityModes, Neighbors, Boo2D, Boo3D,         *)
(*                LocalOrder and VectorField are checked to be             *)
(*                equivariant (one INVARIANT per family); with Gen the     *)
(*                word, both configurations and the action are printed.    *)
(*  Mode "probe"  prints which seeds give tie-free base configurations     *)
(*                (used once to choose the seeds below)                    *)
(*  Mode "traj"   descriptors of real trajectories (N, K, d, cell shape,   *)
(*                mask; read from IOEnv.TRACE_FILE) x generic words: the   *)
(*                applicable words with their parameters and the           *)
(*                re-indexed species tables are printed; the driver        *)
(*                applies them to the real coordinates with the applier    *)
(*                that was validated against the "small" cases             *)
(* All base coordinates are integers in units 1/3; every cell has odd      *)
(* diagonal entries, so that an exact half-cell tie cannot occur.          *)
(***************************************************************************)
EXTENDS Symmetry, Json, IOUtils

CONSTANTS Tier, Mode, Gen, SHARD, NSHARDS,
          MAXLEN,          \* longest word
          SAMPLE, SALT     \* words longer than one generator: keep those whose key is SALT modulo SAMPLE

VARIABLES b, w,
          c0, sz        \* the base configuration and the state after the word (computed once per state)
vars == <<b, w, c0, sz>>

P == 46337
Scr(x) == ((x % P) * (x % P) + 3 * (x % P) + 7) % P
Hash(seed, f, i, k) == Scr(Scr(7919 * seed + 4733 * f + 3571 * i + 2909 * k) + seed)

Tri2(a, t, bb) == << <<a, 0>>, <<t, bb>> >>
Tri3(a, bb, cc, xy, xz, yz) == << <<a, 0, 0>>, <<xy, bb, 0>>, <<xz, yz, cc>> >>

\* ------------------------------------------------------------ base configurations
Vecs2 == << <<1, 0>>, <<0, 1>>, <<1, 1>>, <<2, 0 - 1>>, <<0 - 1, 2>>, <<0, 0 - 2>> >>
Vecs3 == << <<1, 0, 0>>, <<0, 1, 0>>, <<0, 0, 1>>, <<1, 1, 0>>, <<1, 0 - 1, 1>>, <<0, 2, 0 - 1>> >>
TabR(K) == IF K = 1 THEN << <<11>> >> ELSE IF K = 2 THEN << <<11, 13>>, <<10, 14>> >>
           ELSE << <<11, 13, 10>>, <<10, 14, 12>>, <<13, 11, 15>> >>
TabE(K) == IF K = 1 THEN << <<2>> >> ELSE IF K = 2 THEN << <<2, 3>>, <<3, 1>> >>
           ELSE << <<2, 3, 1>>, <<3, 1, 4>>, <<1, 4, 2>> >>
TabDia(K) == SubSeq(<<3, 4, 5>>, 1, K)
TabMs(K)  == SubSeq(<<1, 2, 3>>, 1, K)

\* neighbour lists handed to the bond-order routines: the canonical N-nearest lists of module Neighbors
NbLists(H, ppp, types, frames, nn) ==
  LET cc == [H |-> H, ppp |-> ppp, S |-> 3, types |-> types, frames |-> frames, wn |-> 4, sharp |-> 0] IN
  [f \in 1..Len(frames) |->
     LET T == NB!DT(cc, f) IN [i \in 1..Len(types) |-> NB!Canon(NB!NNExpected(T, i, nn))]]

Mk(id, d, H, org, ppp, types, frames, seed, nn) ==
  LET K  == Cardinality(Range(types))
      nl == NbLists(H, ppp, types, frames, nn) IN
  [ id |-> id, d |-> d, S |-> 3, H |-> H, org |-> org, ppp |-> ppp, types |-> types, frames |-> frames,
    nb |-> nl,
    wt |-> [f \in 1..Len(nl) |-> [i \in 1..Len(types) |-> [k \in 1..Len(nl[f][i]) |-> 1 + (Hash(seed + 5, f, i, k) % 4)]]],
    field |-> [i \in 1..Len(types) |-> [k \in 1..d |-> (Hash(seed + 77, 9, i, k) % 7) - 3]],
    vecs |-> IF d = 2 THEN Vecs2 ELSE Vecs3,
    wn |-> 4, rc |-> 11, R |-> TabR(K), dia |-> TabDia(K), E |-> TabE(K), ms |-> TabMs(K),
    rn |-> 1, nd |-> 26, nn |-> nn, an |-> 2, ad |-> 5 ]

\* hash positions inside the bounding box of the cell (frame 1) followed by a small random walk
HFrames(seed, d, H, org, n, nfr, inset) ==
  LET p1 == [i \in 1..n |-> [k \in 1..d |-> org[k] + inset + (Hash(seed, 1, i, k) % (H[k][k] - 2 * inset))]]
      step(f, i, k) == (Hash(seed, f, i, k) % 5) - 2
      RECURSIVE At(_)
      At(f) == IF f = 1 THEN p1 ELSE LET q == At(f - 1) IN [i \in 1..n |-> [k \in 1..d |-> q[i][k] + step(f, i, k)]]
  IN  [f \in 1..nfr |-> At(f)]

Template(t, seed) ==
  CASE t = 1 -> LET H == Tri2(21, 0, 35)  org == <<0 - 7, 4>> IN
                Mk(1, 2, H, org, <<1, 1>>, <<1, 2, 1, 2, 2, 1>>, HFrames(seed, 2, H, org, 6, 3, 0), seed, 3)
    [] t = 2 -> LET H == Tri2(21, 8, 35)  org == <<2, 0 - 9>> IN
                Mk(2, 2, H, org, <<1, 1>>, <<1, 2, 3, 2, 1, 3>>, HFrames(seed, 2, H, org, 6, 2, 0), seed, 3)
    [] t = 3 -> LET H == Tri2(35, 0, 21)  org == <<0, 0>> IN
                Mk(3, 2, H, org, <<1, 0>>, <<1, 1, 1, 1, 1>>, HFrames(seed, 2, H, org, 5, 2, 0), seed, 2)
    [] t = 4 -> LET H == Tri2(45, 0, 45)  org == <<0 - 3, 0 - 3>> IN
                Mk(4, 2, H, org, <<0, 0>>, <<1, 2, 2, 1, 1, 2, 1>>, HFrames(seed, 2, H, org, 7, 2, 12), seed, 3)
    [] t = 5 -> LET H == Tri3(15, 21, 35, 0, 0, 0)  org == <<0, 0 - 6, 3>> IN
                Mk(5, 3, H, org, <<1, 1, 1>>, <<1, 2, 1, 2, 2, 1, 1>>, HFrames(seed, 3, H, org, 7, 3, 0), seed, 4)
    [] t = 6 -> LET H == Tri3(15, 21, 35, 0, 0, 8)  org == <<1, 1, 1>> IN
                Mk(6, 3, H, org, <<1, 1, 1>>, <<1, 2, 1, 2, 1, 2>>, HFrames(seed, 3, H, org, 6, 1, 0), seed, 3)
    [] t = 7 -> LET H == Tri3(21, 15, 35, 5, 0 - 4, 6)  org == <<0 - 2, 0, 5>> IN
                Mk(7, 3, H, org, <<1, 1, 1>>, <<1, 2, 3, 3, 1, 2>>, HFrames(seed, 3, H, org, 6, 2, 0), seed, 3)
    [] t = 8 -> LET H == Tri3(45, 45, 45, 0, 0, 0)  org == <<0, 0, 0>> IN
                Mk(8, 3, H, org, <<0, 0, 0>>, <<1, 2, 2, 1, 1, 2, 1, 2>>, HFrames(seed, 3, H, org, 8, 2, 14), seed, 4)
    \* tilted cells with EQUAL edges (a sheared square / cube): renumbering the axes gives another cell with the same diagonal
    [] t = 11 -> LET H == Tri2(21, 8, 21)  org == <<1, 0 - 4>> IN
                 Mk(11, 2, H, org, <<1, 1>>, <<1, 2, 2, 1, 1, 2>>, HFrames(seed, 2, H, org, 6, 2, 0), seed, 3)
    [] t = 12 -> LET H == Tri3(21, 21, 21, 5, 0 - 4, 6)  org == <<0 - 3, 2, 0>> IN
                 Mk(12, 3, H, org, <<1, 1, 1>>, <<1, 2, 1, 2, 2, 1>>, HFrames(seed, 3, H, org, 6, 1, 0), seed, 3)

\* the seeds for which the templates are tie-free (chosen with Mode = "probe")
Seeds == <<1, 6, 1, 4, 2, 1, 2, 2, 0, 0, 1, 1>>
Templates == (1..8) \cup {11, 12}

\* a 3 x 3 patch of the square lattice (spacing 7/3) filling a periodic 21 x 21 cell, two frames
\* (the second one slightly distorted), and a tetrahedrally coordinated cluster with open boundaries
SquarePatch ==
  LET H == Tri2(21, 0, 21)  org == <<0 - 10, 0 - 10>>
      p1 == [i \in 1..9 |-> <<org[1] + 2 + 7 * ((i - 1) % 3), org[2] + 3 + 7 * ((i - 1) \div 3)>>]
      p2 == [i \in 1..9 |-> VAdd(p1[i], <<i % 2, 2 * (i % 2)>>)]
  IN  Mk(9, 2, H, org, <<1, 1>>, <<1, 1, 1, 2, 2, 2, 1, 1, 1>>, <<p1, p2>>, 5, 4)
TetraCluster ==
  LET H == Tri3(45, 45, 45, 0, 0, 0)  org == <<0, 0, 0>>  o == <<20, 20, 20>>
      rel == << <<0, 0, 0>>, <<4, 4, 4>>, <<4, 0 - 4, 0 - 4>>, <<0 - 4, 4, 0 - 4>>, <<0 - 4, 0 - 4, 4>>,
                <<9, 8, 2>>, <<0 - 7, 2, 10>>, <<3, 0 - 11, 7>>, <<0 - 9, 0 - 1, 0 - 8>> >>
      p1 == [i \in 1..9 |-> VAdd(o, rel[i])]
      p2 == [i \in 1..9 |-> VAdd(p1[i], <<(i % 3) - 1, ((2 * i) % 3) - 1, ((i * i) % 3) - 1>>)]
  IN  Mk(10, 3, H, org, <<0, 0, 0>>, <<1, 2, 2, 2, 2, 1, 1, 1, 1>>, <<p1, p2>>, 6, 4)

NBase == 12
Base(n) == IF n \in Templates THEN Template(n, Seeds[n]) ELSE IF n = 9 THEN SquarePatch ELSE TetraCluster

\* ------------------------------------------------------------ generator catalogues
Cat2 == << GTrans(<<5, 0 - 13>>, 0, 0), GTrans(<<0 - 17, 29>>, 0, 1), GTrans(<<23, 4>>, 1, 0),
           GImage(<<1, 2>>, <<0, 1>>, 5, 0), GImage(<<2, 1>>, <<1, 0>>, 7, 1),
           GRelabel(0, 0), GRelabel(1, 2), GRelabel(5, 1),
           GSwap(1, 2), GSwap(2, 3),
           GAxes(<<2, 1>>),
           GRot(<<3, 4>>), GRot(<<0 - 12, 5>>),
           GDil(2, 1), GDil(3, 5) >>
Cat3 == << GTrans(<<5, 0 - 13, 2>>, 0, 0), GTrans(<<0 - 17, 29, 40>>, 0, 1), GTrans(<<23, 4, 0 - 6>>, 1, 0),
           GImage(<<1, 2, 1>>, <<0, 1, 2>>, 5, 0), GImage(<<2, 1, 3>>, <<1, 0, 2>>, 7, 1),
           GRelabel(0, 0), GRelabel(1, 2), GRelabel(5, 1),
           GSwap(1, 2), GSwap(2, 3),
           GAxes(<<2, 3, 1>>), GAxes(<<2, 1, 3>>), GAxes(<<3, 2, 1>>),
           GRot(<<1, 1, 1, 0>>), GRot(<<1, 2, 0, 0>>), GRot(<<2, 1, 0 - 1, 1>>),
           GDil(2, 1), GDil(3, 5) >>
Cat(d) == IF d = 2 THEN Cat2 ELSE Cat3

\* generic words for real trajectories: lengths in units 1/1000
TCat2 == << GTrans(<<1234, 0 - 5678>>, 0, 0), GTrans(<<0 - 31415, 27182>>, 0, 1), GTrans(<<40404, 0 - 777>>, 1, 0),
            GImage(<<1, 2>>, <<0, 1>>, 5, 0), GImage(<<2, 1>>, <<1, 0>>, 7, 1),
            GRelabel(0, 0), GRelabel(1, 17), GRelabel(7, 3), GRelabel(11, 5), GRelabel(13, 1),
            GSwap(1, 2), GSwap(2, 3), GSwap(1, 3), GSwap(3, 4),
            GAxes(<<2, 1>>),
            GRot(<<3, 4>>), GRot(<<0 - 12, 5>>), GRot(<<20, 0 - 21>>),
            GDil(2, 1), GDil(3, 5), GDil(7, 4) >>
TCat3 == << GTrans(<<1234, 0 - 5678, 31415>>, 0, 0), GTrans(<<0 - 31415, 27182, 5>>, 0, 1), GTrans(<<40404, 0 - 777, 9999>>, 1, 0),
            GImage(<<1, 2, 1>>, <<0, 1, 2>>, 5, 0), GImage(<<2, 1, 3>>, <<1, 0, 2>>, 7, 1),
            GRelabel(0, 0), GRelabel(1, 17), GRelabel(7, 3), GRelabel(11, 5), GRelabel(13, 1),
            GSwap(1, 2), GSwap(2, 3), GSwap(1, 3), GSwap(3, 4),
            GAxes(<<2, 3, 1>>), GAxes(<<2, 1, 3>>), GAxes(<<3, 2, 1>>), GAxes(<<1, 3, 2>>),
            GRot(<<1, 1, 1, 0>>), GRot(<<1, 2, 0, 0>>), GRot(<<2, 1, 0 - 1, 1>>), GRot(<<3, 0 - 1, 2, 5>>),
            GDil(2, 1), GDil(3, 5), GDil(7, 4) >>
TCat(d) == IF d = 2 THEN TCat2 ELSE TCat3

\* ------------------------------------------------------------ words
\* index triples <<k1, k2, k3>>, 0 = no generator, zeros only at the end; at most one rotation and
\* one dilation per word (keeps every intermediate integer far below 2^31)
WordOf(cat, ks) == LET sel == SelectSeq(ks, LAMBDA k : k > 0) IN [n \in 1..Len(sel) |-> cat[sel[n]]]
CountKind(wd, kd) == Cardinality({n \in 1..Len(wd) : wd[n].kind = kd})
WordAllowed(wd) == CountKind(wd, "rot") <= 1 /\ CountKind(wd, "dil") <= 1
Canonical(ks) == \A n \in 1..(Len(ks) - 1) : ks[n] = 0 => ks[n + 1] = 0
KeyOf(ks) == ks[1] + 31 * ks[2] + 97 * ks[3]
IndexWords(G) ==
  {ks \in [1..3 -> 0..G] :
     /\ ks[1] > 0 /\ Canonical(ks)
     /\ Cardinality({n \in 1..3 : ks[n] > 0}) <= MAXLEN
     /\ (ks[2] > 0 => KeyOf(ks) % SAMPLE = SALT % SAMPLE)}

\* ------------------------------------------------------------ trajectories
Tr == IF Mode = "traj" THEN ndJsonDeserialize(IOEnv.TRACE_FILE) ELSE << >>
\* a two-particle skeleton with the cell shape, mask, species tables and lengths of the descriptor
Skel(ds) ==
  LET d == ds.d
      \* only the SHAPE of the cell matters for applicability (orthogonal or fully tilted); small numbers
      H == IF ds.diag = 1 THEN (IF d = 2 THEN Tri2(21, 0, 35) ELSE Tri3(15, 21, 35, 0, 0, 0))
           ELSE (IF d = 2 THEN Tri2(21, 7, 35) ELSE Tri3(21, 15, 35, 7, 0 - 5, 3))
      K == ds.K
  IN  [ id |-> ds.id, d |-> d, S |-> 1000, H |-> H, org |-> Zero(d), ppp |-> ds.ppp,
        types |-> [i \in 1..K |-> i], frames |-> << [i \in 1..K |-> Zero(d)] >>,
        nb |-> << [i \in 1..K |-> << >>] >>, wt |-> << [i \in 1..K |-> << >>] >>, field |-> [i \in 1..K |-> Zero(d)],
        vecs |-> IF d = 2 THEN Vecs2 ELSE Vecs3,
        wn |-> ds.wn, rc |-> ds.rc, R |-> [a \in 1..K |-> [bb \in 1..K |-> ds.rc + 37 * a + 11 * bb]],
        dia |-> [a \in 1..K |-> 1000 + 100 * (a - 1)], E |-> [a \in 1..K |-> [bb \in 1..K |-> 1 + ((a + bb) % 3)]],
        ms |-> [a \in 1..K |-> a], rn |-> ds.rn, nd |-> ds.nd, nn |-> ds.nn, an |-> 3, ad |-> 10 ]
\* applicability on the skeleton; relabelling is decided with the real particle number
RECURSIVE SkelRun(_, _, _, _)
SkelRun(st, wd, k, n) ==
  IF k > Len(wd) \/ ~st.ok THEN st
  ELSE IF wd[k].kind = "relabel"
       THEN SkelRun([st EXCEPT !.ok = RelabelOK(wd[k], n)], wd, k + 1, n)
       ELSE SkelRun(StepG(st, wd[k]), wd, k + 1, n)

\* ------------------------------------------------------------ states
Init ==
  \/ /\ Mode = "small"
     /\ b \in 1..NBase
     /\ c0 = Base(b)
     /\ \E ks \in IndexWords(Len(Cat(c0.d))) :
          /\ (b + KeyOf(ks)) % NSHARDS = SHARD
          /\ w = WordOf(Cat(c0.d), ks)
     /\ WordAllowed(w)
     /\ sz = Run(c0, w)
     /\ sz.ok
  \/ /\ Mode = "probe"
     /\ b \in Templates
     /\ w \in {<<s>> : s \in 1..24}
     /\ (b + w[1]) % NSHARDS = SHARD
     /\ c0 = 0 /\ sz = 0
  \/ /\ Mode = "traj"
     /\ b \in 1..Len(Tr)
     /\ c0 = Skel(Tr[b])
     /\ \E ks \in IndexWords(Len(TCat(Tr[b].d))) :
          /\ (b + KeyOf(ks)) % NSHARDS = SHARD
          /\ w = WordOf(TCat(Tr[b].d), ks)
     /\ WordAllowed(w)
     /\ sz = SkelRun(Start(c0), w, 1, Tr[b].N)
     /\ sz.ok

Next == UNCHANGED vars
Spec == Init /\ [][Next]_vars

Small == Mode = "small"
C0 == c0
St == sz

\* ------------------------------------------------------------ invariants (one per family)
InvBaseTieFree    == Small => TieFree(C0) /\ WellFormed(C0)
InvTieFreeKept    == Small => TieFree(St.c) /\ WellFormed(St.c) /\ ActionWellFormed(C0, St)
InvTables         == Small => TablesEquivariant(C0, St)
InvCell           == Small => CellEquivariant(C0, St)
InvPairVectors    == Small => PairVectorsEquivariant(C0, St) /\ GramInvariant(C0, St)
InvPairHist       == Small => HistEquivariant(C0, St)
InvDensityModes   == Small => ModesEquivariant(C0, St)
InvNeighbors      == Small => NeighborsEquivariant(C0, St)
InvBonds          == Small => BondsEquivariant(C0, St)
InvPsi            == Small => PsiCovariant(C0, St, 2) /\ (MM(St) <= 25 => PsiCovariant(C0, St, 4))
InvQl             == Small => QlExactInvariant(C0, St, 4)
InvTetra          == Small => TetraEquivariant(C0, St)
InvGyration       == (Small /\ AllZero(C0.ppp)) => GyrationEquivariant(C0, St)
InvField          == Small => FieldEquivariant(C0, St)
InvDisplacements  == Small => DispEquivariant(C0, St)
\* group law: a translation, swap or axis permutation followed by its inverse is the identity
InvGroupLaw ==
  Small => \A n \in 1..Len(w) :
     (w[n].kind \in {"swap", "axes"} \/ (w[n].kind = "trans" /\ w[n].wrap = 0)) =>
        (GenOK(w[n], C0) => Apply(Inverse(w[n], C0), Apply(w[n], C0)) = C0)
\* relabelling moves (type, position, field) triples without changing them as a set; a re-wrapped
\* translation leaves every particle inside the cell
InvRelabelWrap ==
  Small =>
    /\ {<<C0.types[i], St.sigma[C0.types[i]]>> : i \in 1..NPart(C0)} = {<<a, St.sigma[a]>> : a \in 1..NSpecies(C0)}
    /\ (Len(w) = 1 /\ w[1].kind = "relabel") =>
          {<<St.c.types[i], St.c.frames[1][i], St.c.field[i]>> : i \in 1..NPart(C0)}
            = {<<C0.types[i], C0.frames[1][i], C0.field[i]>> : i \in 1..NPart(C0)}
    /\ (w[Len(w)].kind = "trans" /\ w[Len(w)].wrap = 1) =>
          \A f \in 1..NFrames(C0) : \A i \in 1..NPart(C0) : InCell(St.c, St.c.frames[f][i])

InvProbe == Mode = "probe" =>
  PrintT(<<"probe", b, w[1], TieFree(Template(b, w[1]))>>)

\* ------------------------------------------------------------ emission
Flags(c) ==
  [ nn_ok    |-> [f \in 1..NFrames(c) |-> LET T == NB!DT(ToPH(c), f) IN [i \in 1..NPart(c) |-> NNSharpAt(T, i, c.nn)]],
    tetra_ok |-> LET T == NB!DT(ToPH(c), 1) IN [i \in 1..NPart(c) |-> TetraSharpAt(T, i)] ]
ActOf(c, st) ==
  [ pi |-> st.pi, sigma |-> st.sigma, ax |-> st.ax, lin |-> st.lin, mm |-> MM(st), S0 |-> st.S0, S1 |-> st.c.S,
    rotated |-> st.rotated, dilated |-> st.dilated, wrapped |-> st.wrapped, imgfr |-> st.imgfr,
    reflects |-> (c.d = 2 /\ Reflects(st)),
    rho |-> IF c.d = 2 THEN Rho(st) ELSE <<1, 0>>,
    psi_phase |-> IF c.d = 2 THEN [l \in 1..8 |-> PsiPhaseT(st, l)] ELSE << >>,
    gr_cols |-> ColMapGr(c, st), sq_cols |-> ColMapSq(c, st) ]
CaseSmall ==
  [ m |-> "Symmetry", mode |-> "small", base |-> b, word |-> w, c |-> C0, c2 |-> St.c,
    act |-> ActOf(C0, St), obs |-> ObsOf(C0, St),
    boo3 |-> BooDegrees(NPart(C0), St), sched |-> Schedule(Shape(C0), St),
    cellrel |-> [tilted_axes |-> TiltedAxesWord(C0, St), same_diag |-> SameDiagOtherCell(C0, St)],
    flags |-> Flags(C0), margin |-> Margin(C0) ]
CaseTraj ==
  LET sk == c0
      sh == [d |-> sk.d, diag |-> IsDiagonal(sk.H), ppp |-> sk.ppp, nfr |-> Tr[b].nfr, n |-> Tr[b].N] IN
      [ m |-> "Symmetry", mode |-> "traj", base |-> Tr[b].id, word |-> w,
        boo3 |-> BooDegrees(Tr[b].N, sz), sched |-> Schedule(sh, sz), ax |-> sz.ax,
        same_diag |-> (~sh.diag /\ sz.ax # IdPerm(sk.d) /\ PermVec(sz.ax, Tr[b].L) = Tr[b].L),
        tab  |-> [R |-> sk.R, dia |-> sk.dia, E |-> sk.E, ms |-> sk.ms, an |-> sk.an, ad |-> sk.ad],
        tab2 |-> [R |-> sz.c.R, dia |-> sz.c.dia, E |-> sz.c.E, ms |-> sz.c.ms],
        sigma |-> sz.sigma, gr_cols |-> ColMapGr(sk, sz), sq_cols |-> ColMapSq(sk, sz),
        lin |-> sz.lin, mm |-> MM(sz), S1 |-> sz.c.S, reflects |-> (sk.d = 2 /\ Reflects(sz)),
        psi_phase |-> IF sk.d = 2 THEN [l \in 1..8 |-> PsiPhaseT(sz, l)] ELSE << >>,
        vecs |-> sk.vecs, vecs2 |-> sz.c.vecs,
        obs |-> SelectSeq(ObsNames, LAMBDA ob : Respects(ob, sh, sz)) ]
Emit == Gen => IF Mode = "small" THEN PrintT(ToJson(CaseSmall))
               ELSE IF Mode = "traj" THEN PrintT(ToJson(CaseTraj)) ELSE TRUE
=============================================================================
