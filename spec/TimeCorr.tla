------------------------------ MODULE TimeCorr ------------------------------
(***************************************************************************)
(* Property C14 - PyMatterSim.dynamic.time_corr.time_correlation.          *)
(*                                                                         *)
(* A *series* is a record                                                  *)
(*   [T, N, rank, dim, ts, val]                                            *)
(* T frames, N particles, rank 0 (scalar) / 1 (vector) / 2 (tensor) with   *)
(* dim components per index, ts = timesteps (sequence of T integers) and   *)
(*   val[f][i]        a Gaussian integer <<re, im>>              (rank 0)  *)
(*   val[f][i][k]     ...                                        (rank 1)  *)
(*   val[f][i][k][l]  ...                                        (rank 2)  *)
(* in units of 1/scale (the normalised correlation is scale-free).         *)
(* Frames are numbered 1..T here (frame f is the code's index f - 1);      *)
(* lags, origins and the code's loop indices n, nn are 0-based.            *)
(*                                                                         *)
(* Definition (the property): evenly spaced frames ("linear") - the value  *)
(* at lag k is the mean over ALL origins o of                              *)
(*   P(o + k, o) = Re sum_i < val[o+k][i] , conj val[o][i] >               *)
(* (< , > = product / dot product / trace of the matrix product) divided   *)
(* by the same at lag 0; unevenly spaced frames ("log") - origin 0 only.   *)
(* Time axis (ts[k] - ts[0]) * dt.                                         *)
(*                                                                         *)
(* Algorithm: the state machine below has one action per iteration of the  *)
(* code's double loop `for n in range(T): for nn in range(n + 1)`.         *)
(***************************************************************************)
EXTENDS Exact, Real

\* ---- Gaussian integers ----
GConjRe(a, b)  == a[1] * b[1] + a[2] * b[2]      \* Re(a conj(b)) = Re(conj(a) b)
GPlainRe(a, b) == a[1] * b[1] - a[2] * b[2]      \* Re(a b): what dropping the conjugate would give

\* Re < A, conj B > for one particle
ProdRe(rank, dim, A, B) ==
  IF rank = 0 THEN GConjRe(A, B)
  ELSE IF rank = 1 THEN SumSeq([k \in 1..dim |-> GConjRe(A[k], B[k])])
  ELSE \* trace(A conj(B)) = sum_k sum_l A[k][l] conj(B[l][k])
       SumSeq([k \in 1..dim |-> SumSeq([l \in 1..dim |-> GConjRe(A[k][l], B[l][k])])])

\* the same with the conjugate on the other factor (for ConjugateSymmetric)
ProdReOther(rank, dim, A, B) ==
  IF rank = 0 THEN GConjRe(B, A)
  ELSE IF rank = 1 THEN SumSeq([k \in 1..dim |-> GConjRe(B[k], A[k])])
  ELSE SumSeq([k \in 1..dim |-> SumSeq([l \in 1..dim |-> GConjRe(B[l][k], A[k][l])])])

\* sum of f[lo..hi] by halving (recursion depth log2: particle counts in the thousands and series of a
\* thousand frames are summed without the quadratic copying / linear depth of SumSeq)
RECURSIVE SumIdx(_, _, _)
SumIdx(f, lo, hi) ==
  IF lo > hi THEN 0
  ELSE IF lo = hi THEN f[lo]
  ELSE LET mid == (lo + hi) \div 2 IN SumIdx(f, lo, mid) + SumIdx(f, mid + 1, hi)

\* particle-summed product of frame `later` with the conjugate of frame `earlier` (frames 1-based)
P(s, later, earlier) ==
  SumIdx([i \in 1..s.N |-> ProdRe(s.rank, s.dim, s.val[later][i], s.val[earlier][i])], 1, s.N)
POther(s, later, earlier) ==
  SumIdx([i \in 1..s.N |-> ProdReOther(s.rank, s.dim, s.val[later][i], s.val[earlier][i])], 1, s.N)

\* ---- sampling kind ----
Diffs(ts) == {ts[k + 1] - ts[k] : k \in 1..(Len(ts) - 1)}
Kind(ts)  == IF Cardinality(Diffs(ts)) <= 1 THEN "linear" ELSE "log"
             \* T = 1: no differences; both kinds then give the single row (0, 1)

\* ---- the definition ----
DefPairs(s, k) ==          \* <<origin, end>>, 0-based frame indices
  IF Kind(s.ts) = "linear" THEN {<<o, o + k>> : o \in 0..(s.T - 1 - k)} ELSE {<<0, k>>}
DefSum(s, k) ==
  IF Kind(s.ts) = "linear"
  THEN SumIdx([o \in 1..(s.T - k) |-> P(s, o + k, o)], 1, s.T - k)
  ELSE P(s, k + 1, 1)
DefCount(s, k) == IF Kind(s.ts) = "linear" THEN s.T - k ELSE 1
DefMean(s, k)  == RNorm(DefSum(s, k), DefCount(s, k))
Defined(s)     == DefSum(s, 0) # 0                  \* lag-zero value non-zero: normalisation exists
Corr(s, k)     == RDiv(DefMean(s, k), DefMean(s, 0))
\* the same as a term with the raw integers (no products that could overflow)
CorrTerm(s, k) == Div(Q(DefSum(s, k), DefCount(s, k)), Q(DefSum(s, 0), DefCount(s, 0)))
TimeTerm(s, k, dtn, dtd) == Mul2(I(s.ts[k + 1] - s.ts[1]), Q(dtn, dtd))

\* ---- the algorithm: one action per loop iteration ----
\* st = [n, nn, counts, acc, pairs, done]; counts/acc/pairs are sequences indexed lag + 1
StInit(s) == [n |-> 0, nn |-> 0,
              counts |-> [k \in 1..s.T |-> 0], acc |-> [k \in 1..s.T |-> 0],
              pairs |-> [k \in 1..s.T |-> {}], done |-> FALSE]
StAcc(s, st) ==
  LET k    == st.nn
      o    == st.n - st.nn
      lin  == Kind(s.ts) = "linear"
      last == st.n = s.T - 1 /\ st.nn = st.n
  IN  [ counts |-> [st.counts EXCEPT ![k + 1] = @ + 1],
        acc    |-> [st.acc    EXCEPT ![k + 1] = @ + P(s, st.n + 1, o + 1)],
        pairs  |-> [st.pairs  EXCEPT ![k + 1] = @ \cup {<<o, st.n>>}],
        done   |-> last,
        n      |-> IF last THEN st.n ELSE IF st.nn < st.n THEN st.n ELSE st.n + 1,
        nn     |-> IF last THEN st.nn
                   ELSE IF lin THEN (IF st.nn < st.n THEN st.nn + 1 ELSE 0)
                   ELSE st.n + 1 ]     \* log: origin n - nn stays 0
\* in the log kind the loop visits (n, nn = n) only: start with nn = n = 0, then n + 1
AlgMean(st, k) == RNorm(st.acc[k + 1], st.counts[k + 1])

\* the terminal loop state stated directly from the definition (series too long for one TLC state per
\* (n, nn) iteration: T (T + 1) / 2 steps); the per-lag sums are evaluated once and carried in the state
StDirect(s) == [n |-> s.T - 1, nn |-> s.T - 1,
                counts |-> [k \in 1..s.T |-> DefCount(s, k - 1)],
                acc    |-> [k \in 1..s.T |-> DefSum(s, k - 1)],
                pairs  |-> << >>, done |-> TRUE]
StCorrTerm(st, k) == Div(Q(st.acc[k + 1], st.counts[k + 1]), Q(st.acc[1], st.counts[1]))

\* ---- storage representations of a series --------------------------------------------------------
\* The property speaks of real or complex VALUES; an array holds them in some storage type.  A type
\* can hold a series iff every value is representable in it - the products and sums the definition
\* forms need not be (they are numbers, not elements of the storage type).  For every integer type
\* that holds the series the spec states whether some element-wise product, or some particle /
\* component sum, of a pair the definition uses lies outside the type's range (then arithmetic carried
\* out in the storage type gives another number); for the binary floating types it states whether every
\* product and every partial sum is an integer below 2^mantissa (then arithmetic in that type is exact
\* and the result is defined to the usual tolerance; otherwise the rounding is float-fragile and the
\* type is not rendered).
IntTypes == << [name |-> "bool",   lo |-> 0,         hi |-> 1],
               [name |-> "int8",   lo |-> 0 - 128,   hi |-> 127],
               [name |-> "uint8",  lo |-> 0,         hi |-> 255],
               [name |-> "int16",  lo |-> 0 - 32768, hi |-> 32767],
               [name |-> "uint16", lo |-> 0,         hi |-> 65535],
               [name |-> "int32",  lo |-> 0 - 2147483647, hi |-> 2147483647],
               [name |-> "int64",  lo |-> 0 - 2147483647, hi |-> 2147483647] >>   \* at least TLC's own range
FloatTypes == << [name |-> "float16",   mant |-> 2048,     cplx |-> 0, ulp |-> <<1, 1024>>],
                 [name |-> "float32",   mant |-> 16777216, cplx |-> 0, ulp |-> <<1, 8388608>>],
                 [name |-> "complex64", mant |-> 16777216, cplx |-> 1, ulp |-> <<1, 8388608>>] >>
\* The definition's own products and sums are then exact in the type, but an implementation may reach the same
\* numbers by other arithmetic in the precision of its input (e.g. a Fourier transform, whose rounding at the
\* longest lags is amplified by about T): a series rendered in a floating type is compared at 64 T ulp of that
\* type (at most 1/16) - coarse, and still far below the effect of a wrong branch, pair or conjugate.
FloatTol(T, ft) == LET t == RMul(<<64 * T, 1>>, ft.ulp) IN IF RLt(t, <<1, 16>>) THEN t ELSE <<1, 16>>

LeafSet(s) ==          \* all Gaussian-integer leaves of the series
  UNION { UNION { IF s.rank = 0 THEN {s.val[f][i]}
                  ELSE IF s.rank = 1 THEN {s.val[f][i][k] : k \in 1..s.dim}
                  ELSE {s.val[f][i][k][l] : k \in 1..s.dim, l \in 1..s.dim} : i \in 1..s.N } : f \in 1..s.T }
IsReal(s)      == \A z \in LeafSet(s) : z[2] = 0
Holds(s, ty)   == IsReal(s) /\ \A z \in LeafSet(s) : ty.lo <= z[1] /\ z[1] <= ty.hi
MaxLeaf(s)     == LET L == LeafSet(s) IN CHOOSE m \in {Abs(z[1]) + Abs(z[2]) : z \in L} :
                                            \A z \in L : Abs(z[1]) + Abs(z[2]) <= m
\* bound of the sum of the absolute values of all products entering one P(s, a, b): bounds every partial sum
AbsBound(s)    == s.N * (IF s.rank = 0 THEN 1 ELSE IF s.rank = 1 THEN s.dim ELSE s.dim * s.dim) * MaxLeaf(s) * MaxLeaf(s)
UsedPairs(s)   == IF Kind(s.ts) = "linear" THEN {<<a, b>> \in (1..s.T) \X (1..s.T) : a >= b}
                  ELSE {<<a, 1>> : a \in 1..s.T}
Out(x, ty)     == x < ty.lo \/ x > ty.hi
\* element-wise products formed for particle values A (later), B (earlier); real series: the re parts
ElemProds(rank, dim, A, B) ==
  IF rank = 0 THEN {A[1] * B[1]}
  ELSE IF rank = 1 THEN {A[k][1] * B[k][1] : k \in 1..dim}
  ELSE {A[k][l][1] * B[l][k][1] : k \in 1..dim, l \in 1..dim}
\* sums formed per particle: the component sum (dot product / trace) and, for tensors, the diagonal
\* entries of the matrix product
PartSums(rank, dim, A, B) ==
  {ProdRe(rank, dim, A, B)} \cup
  (IF rank = 2 THEN {SumSeq([l \in 1..dim |-> GConjRe(A[k][l], B[l][k])]) : k \in 1..dim} ELSE {})
ProdLeaves(s, ty) ==
  \E pr \in UsedPairs(s) : \E i \in 1..s.N :
     \E x \in ElemProds(s.rank, s.dim, s.val[pr[1]][i], s.val[pr[2]][i]) : Out(x, ty)
SumLeaves(s, ty) ==
  \E pr \in UsedPairs(s) :
     \/ Out(P(s, pr[1], pr[2]), ty)
     \/ \E i \in 1..s.N : \E x \in PartSums(s.rank, s.dim, s.val[pr[1]][i], s.val[pr[2]][i]) : Out(x, ty)
\* integer storage types (of the names in `names`) that hold the series, each with what leaves its range
IntReps(s, names) ==
  LET b == AbsBound(s)
      one(ty) == IF b <= ty.hi THEN [dt |-> ty.name, prod |-> FALSE, sum |-> FALSE]    \* nothing can leave
                 ELSE [dt |-> ty.name, prod |-> ProdLeaves(s, ty), sum |-> SumLeaves(s, ty)]
  IN  IF ~IsReal(s) THEN << >>
      ELSE SelectSeq([j \in 1..Len(IntTypes) |->
                        IF IntTypes[j].name \in names /\ Holds(s, IntTypes[j]) THEN one(IntTypes[j])
                        ELSE [dt |-> "", prod |-> FALSE, sum |-> FALSE]], LAMBDA r : r.dt # "")
\* floating types in which the whole evaluation is exact integer arithmetic
FloatReps(s) ==
  LET b == AbsBound(s)
      c == IF IsReal(s) THEN 0 ELSE 1
  IN  SelectSeq([j \in 1..Len(FloatTypes) |->
                   IF FloatTypes[j].cplx = c /\ b < FloatTypes[j].mant
                   THEN [dt |-> FloatTypes[j].name, tol |-> QR(FloatTol(s.T, FloatTypes[j]))]
                   ELSE [dt |-> "", tol |-> I(0)]],
                LAMBDA r : r.dt # "")

\* ---- clauses ----
CountsPerLag(s, st) ==
  st.done => \A k \in 0..(s.T - 1) : st.counts[k + 1] = DefCount(s, k)
PairsAreDefinition(s, st) ==
  st.done => \A k \in 0..(s.T - 1) : st.pairs[k + 1] = DefPairs(s, k)
NoPairTwice(st2) ==           \* on the successor state: every accumulated pair is new
  \A k \in DOMAIN st2.counts : st2.counts[k] = Cardinality(st2.pairs[k])
AlgorithmEqualsDefinition(s, st) ==
  st.done => \A k \in 0..(s.T - 1) : AlgMean(st, k) = DefMean(s, k)
LagZeroIsOne(s, st) ==
  (st.done /\ Defined(s)) => RDiv(AlgMean(st, 0), AlgMean(st, 0)) = <<1, 1>> /\ Corr(s, 0) = <<1, 1>>
ConjugateSymmetric(s) ==
  \A a, b \in 1..s.T : P(s, a, b) = POther(s, a, b) /\ P(s, a, b) = P(s, b, a)
SingleFrame(s) == s.T = 1 => DefPairs(s, 0) = {<<0, 0>>} /\ DefCount(s, 0) = 1
LogIsOriginZero(s) ==
  Kind(s.ts) = "log" => \A k \in 0..(s.T - 1) : DefSum(s, k) = P(s, k + 1, 1)
=============================================================================
