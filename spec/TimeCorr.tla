------------------------------ MODULE TimeCorr ------------------------------
(***************************************************************************)
(* Property C14 - PyMatterSim.dynamic.time_corr.time_correlation.          *)
(*                                                                         *)
(* A *series* is a record                                                  *)
(*   [T, N, rank, dim, ts, val]                                            *)
(* T frames, N particles, rank 0 (scalar) / 1 (vector) / 2 (tensor) with   *)
(* dim components per index, ts = timesteps (sequence of T integers) and   *)
(*   val[f][i]        a Gaussian integer <<re, im>>              (rank 0)  *)
(*   val[f][i][k]     ...                                        (rank 1)  *)
(*   val[f][i][k][l]  ...                                        (rank 2)  *)
(* in units of 1/scale (the normalised correlation is scale-free).         *)
(* Frames are numbered 1..T here (frame f is the code's index f - 1);      *)
(* lags, origins and the code's loop indices n, nn are 0-based.            *)
(*                                                                         *)
(* Definition (the property): evenly spaced frames ("linear") - the value  *)
(* at lag k is the mean over ALL origins o of                              *)
(*   P(o + k, o) = Re sum_i < val[o+k][i] , conj val[o][i] >               *)
(* (< , > = product / dot product / trace of the matrix product) divided   *)
(* by the same at lag 0; unevenly spaced frames ("log") - origin 0 only.   *)
(* Time axis (ts[k] - ts[0]) * dt.                                         *)
(*                                                                         *)
(* Algorithm: the state machine below has one action per iteration of the  *)
(* code's double loop `for n in range(T): for nn in range(n + 1)`.         *)
(***************************************************************************)
EXTENDS Exact, Real

\* ---- Gaussian integers ----
GConjRe(a, b)  == a[1] * b[1] + a[2] * b[2]      \* Re(a conj(b)) = Re(conj(a) b)
GPlainRe(a, b) == a[1] * b[1] - a[2] * b[2]      \* Re(a b): what dropping the conjugate would give

\* Re < A, conj B > for one particle
ProdRe(rank, dim, A, B) ==
  IF rank = 0 THEN GConjRe(A, B)
  ELSE IF rank = 1 THEN SumSeq([k \in 1..dim |-> GConjRe(A[k], B[k])])
  ELSE \* trace(A conj(B)) = sum_k sum_l A[k][l] conj(B[l][k])
       SumSeq([k \in 1..dim |-> SumSeq([l \in 1..dim |-> GConjRe(A[k][l], B[l][k])])])

\* the same with the conjugate on the other factor (for ConjugateSymmetric)
ProdReOther(rank, dim, A, B) ==
  IF rank = 0 THEN GConjRe(B, A)
  ELSE IF rank = 1 THEN SumSeq([k \in 1..dim |-> GConjRe(B[k], A[k])])
  ELSE SumSeq([k \in 1..dim |-> SumSeq([l \in 1..dim |-> GConjRe(B[l][k], A[k][l])])])

\* particle-summed product of frame `later` with the conjugate of frame `earlier` (frames 1-based)
P(s, later, earlier) ==
  SumSeq([i \in 1..s.N |-> ProdRe(s.rank, s.dim, s.val[later][i], s.val[earlier][i])])
POther(s, later, earlier) ==
  SumSeq([i \in 1..s.N |-> ProdReOther(s.rank, s.dim, s.val[later][i], s.val[earlier][i])])

\* ---- sampling kind ----
Diffs(ts) == {ts[k + 1] - ts[k] : k \in 1..(Len(ts) - 1)}
Kind(ts)  == IF Cardinality(Diffs(ts)) <= 1 THEN "linear" ELSE "log"
             \* T = 1: no differences; both kinds then give the single row (0, 1)

\* ---- the definition ----
DefPairs(s, k) ==          \* <<origin, end>>, 0-based frame indices
  IF Kind(s.ts) = "linear" THEN {<<o, o + k>> : o \in 0..(s.T - 1 - k)} ELSE {<<0, k>>}
DefSum(s, k) ==
  IF Kind(s.ts) = "linear"
  THEN SumSeq([o \in 1..(s.T - k) |-> P(s, o + k, o)])
  ELSE P(s, k + 1, 1)
DefCount(s, k) == IF Kind(s.ts) = "linear" THEN s.T - k ELSE 1
DefMean(s, k)  == RNorm(DefSum(s, k), DefCount(s, k))
Defined(s)     == DefSum(s, 0) # 0                  \* lag-zero value non-zero: normalisation exists
Corr(s, k)     == RDiv(DefMean(s, k), DefMean(s, 0))
\* the same as a term with the raw integers (no products that could overflow)
CorrTerm(s, k) == Div(Q(DefSum(s, k), DefCount(s, k)), Q(DefSum(s, 0), DefCount(s, 0)))
TimeTerm(s, k, dtn, dtd) == Mul2(I(s.ts[k + 1] - s.ts[1]), Q(dtn, dtd))

\* ---- the algorithm: one action per loop iteration ----
\* st = [n, nn, counts, acc, pairs, done]; counts/acc/pairs are sequences indexed lag + 1
StInit(s) == [n |-> 0, nn |-> 0,
              counts |-> [k \in 1..s.T |-> 0], acc |-> [k \in 1..s.T |-> 0],
              pairs |-> [k \in 1..s.T |-> {}], done |-> FALSE]
StAcc(s, st) ==
  LET k    == st.nn
      o    == st.n - st.nn
      lin  == Kind(s.ts) = "linear"
      last == st.n = s.T - 1 /\ st.nn = st.n
  IN  [ counts |-> [st.counts EXCEPT ![k + 1] = @ + 1],
        acc    |-> [st.acc    EXCEPT ![k + 1] = @ + P(s, st.n + 1, o + 1)],
        pairs  |-> [st.pairs  EXCEPT ![k + 1] = @ \cup {<<o, st.n>>}],
        done   |-> last,
        n      |-> IF last THEN st.n ELSE IF st.nn < st.n THEN st.n ELSE st.n + 1,
        nn     |-> IF last THEN st.nn
                   ELSE IF lin THEN (IF st.nn < st.n THEN st.nn + 1 ELSE 0)
                   ELSE st.n + 1 ]     \* log: origin n - nn stays 0
\* in the log kind the loop visits (n, nn = n) only: start with nn = n = 0, then n + 1
AlgMean(st, k) == RNorm(st.acc[k + 1], st.counts[k + 1])

\* ---- clauses ----
CountsPerLag(s, st) ==
  st.done => \A k \in 0..(s.T - 1) : st.counts[k + 1] = DefCount(s, k)
PairsAreDefinition(s, st) ==
  st.done => \A k \in 0..(s.T - 1) : st.pairs[k + 1] = DefPairs(s, k)
NoPairTwice(st2) ==           \* on the successor state: every accumulated pair is new
  \A k \in DOMAIN st2.counts : st2.counts[k] = Cardinality(st2.pairs[k])
AlgorithmEqualsDefinition(s, st) ==
  st.done => \A k \in 0..(s.T - 1) : AlgMean(st, k) = DefMean(s, k)
LagZeroIsOne(s, st) ==
  (st.done /\ Defined(s)) => RDiv(AlgMean(st, 0), AlgMean(st, 0)) = <<1, 1>> /\ Corr(s, 0) = <<1, 1>>
ConjugateSymmetric(s) ==
  \A a, b \in 1..s.T : P(s, a, b) = POther(s, a, b) /\ P(s, a, b) = P(s, b, a)
SingleFrame(s) == s.T = 1 => DefPairs(s, 0) = {<<0, 0>>} /\ DefCount(s, 0) = 1
LogIsOriginZero(s) ==
  Kind(s.ts) = "log" => \A k \in 0..(s.T - 1) : DefSum(s, k) = P(s, k + 1, 1)
=============================================================================
