------------------------------- MODULE Boo3D -------------------------------
(***************************************************************************)
(* Three-dimensional bond-orientational order (property C09).              *)
(*                                                                         *)
(* Abstract input: a cell H (integer rows), a periodicity mask, frames     *)
(* [pos, nl, w]: integer positions, neighbour lists (id -> sequence of     *)
(* 1-based ids, as written in the neighbour file) and optional positive    *)
(* integer bond weights of the same shape, a degree l and the reader's     *)
(* Nmax (lists longer than Nmax are cut to their first Nmax entries,       *)
(* module Neighbors / C05).                                                *)
(*                                                                         *)
(* Definitions (docs/boo_3d.md):                                           *)
(*   bond b_ik   = minimum image of pos[nl[i][k]] - pos[i]   (Cell)        *)
(*   q_lm(i)     = sum_k wn_ik Y_lm(b_ik),  wn = 1/N_i or w_ik/sum_k w_ik  *)
(*   Q_lm(i)     = (q_lm(i) + sum_k q_lm(nl[i][k])) / (1 + N_i)            *)
(*   q_l         = sqrt(4 pi/(2l+1) sum_m |q_lm|^2)                        *)
(*   s_ij        = Re sum_m q_lm(i) conj q_lm(j) / (|q(i)| |q(j)|)         *)
(*   count(i;c)  = #{k : s_{i,nl[i][k]} > c}                               *)
(*   w_l         = sum_{m1+m2+m3=0} (l l l; m1 m2 m3) q_lm1 q_lm2 q_lm3    *)
(*   w^_l        = w_l / (sum_m |q_lm|^2)^(3/2)                            *)
(* Every real-valued observable is stated as a term over named             *)
(* definitions (sequence `defs`, each entry <<name, term>>; a name is a    *)
(* tuple such as <<"q", frame, i, m>>).  Y_lm of a bond is the canonical   *)
(* SphHarm entry applied to u = (x + i y)/r, c = z/r (no angles).          *)
(*                                                                         *)
(* Independently of the Y table, the addition theorem                      *)
(*   4 pi/(2l+1) sum_m Y_lm(a) conj Y_lm(b) = P_l(cos gamma_ab)            *)
(* gives  q_l^2(i) = A(i,i),  s_ij = A(i,j)/sqrt(A(i,i) A(j,j)),           *)
(*   A(i,j) = sum_{a in bonds(i), b in bonds(j)} wn_a wn_b P_l(cos g_ab),  *)
(* which is an exact rational for even l (cos^2 is rational); TLC checks   *)
(* 0 <= q_l^2 <= 1, s_ij^2 <= 1, the thresholded counts and the tabulated  *)
(* crystal values on it.                                                   *)
(***************************************************************************)
EXTENDS SphHarm, Cell

\* ---------------------------------------------------------------- extra term constructors
Call(name, binds) == <<"call", name, binds>>     \* evaluate macro `name` with variables bound: binds = << <<var, term>>, .. >>
Gt(a, b)          == <<"gt", a, b>>              \* 1 if a > b else 0
VarN(name)        == <<"var", name>>

\* ---------------------------------------------------------------- lists
Cn(fr, i, nmax)    == Min2(Len(fr.nl[i]), nmax)
Nb(fr, i, k)       == fr.nl[i][k]
Weighted(fr)       == fr.w # << >>
RECURSIVE SumTo(_, _)
SumTo(s, n)        == IF n = 0 THEN 0 ELSE s[n] + SumTo(s, n - 1)
\* normalised weight of the k-th listed neighbour of i (an Exact rational)
WN(fr, i, k, nmax) == IF Weighted(fr) THEN RNorm(fr.w[i][k], SumTo(fr.w[i], Cn(fr, i, nmax)))
                      ELSE <<1, Cn(fr, i, nmax)>>

\* ---------------------------------------------------------------- bonds
BondSet(H, ppp, fr, i, k) == MinImage(H, VSub(fr.pos[Nb(fr, i, k)], fr.pos[i]), ppp)
BondTie(H, ppp, fr, i, k) == HasTie(H, VSub(fr.pos[Nb(fr, i, k)], fr.pos[i]), ppp)
\* the unique minimum image off ties, computed per axis (Cell!MinImage enumerates the product of the per-axis sets;
\* BondIsCellMinImage below states that both agree)
\* (A = Adj(H) and d = Det(H) are passed in so that they are computed once per frame)
ImageOfA(H, A, d, v, ppp) ==
  LET raw == VecMat(v, A)
      num == IF d < 0 THEN VNeg(raw) ELSE raw
      n   == [k \in 1..Len(v) |-> IF ppp[k] = 1
                                   THEN LET ns == NearestSet(num[k], Abs(d)) IN CHOOSE x \in ns : \A y \in ns : x <= y
                                   ELSE 0]
  IN  VSub(v, VecMat(n, H))
ImageOf(H, v, ppp) == ImageOfA(H, Adj(H), Det(H), v, ppp)
Bond(H, ppp, fr, i, k)    == ImageOf(H, VSub(fr.pos[Nb(fr, i, k)], fr.pos[i]), ppp)
\* all bonds of a frame, evaluated once: B[i][k]
BondsOf(H, ppp, fr, nmax) ==
  LET A == TLCEval(Adj(H))
      d == Det(H)
  IN  TLCEval([i \in 1..Len(fr.pos) |->
         TLCEval([k \in 1..Cn(fr, i, nmax) |-> TLCEval(ImageOfA(H, A, d, VSub(fr.pos[Nb(fr, i, k)], fr.pos[i]), ppp))])])
FrameHasTie(H, ppp, fr, nmax) ==
  \E i \in 1..Len(fr.pos) : \E k \in 1..Cn(fr, i, nmax) : BondTie(H, ppp, fr, i, k)
FrameHasZeroBond(H, ppp, fr, nmax) ==
  LET B == BondsOf(H, ppp, fr, nmax) IN
  \E i \in 1..Len(fr.pos) : \E k \in 1..Cn(fr, i, nmax) : Norm2(B[i][k]) = 0
BondIsCellMinImage(H, ppp, fr, nmax) ==
  \A i \in 1..Len(fr.pos) : \A k \in 1..Cn(fr, i, nmax) :
    /\ Bond(H, ppp, fr, i, k) \in BondSet(H, ppp, fr, i, k)
    /\ ~BondTie(H, ppp, fr, i, k) => BondSet(H, ppp, fr, i, k) = {Bond(H, ppp, fr, i, k)}

\* direction terms of an integer bond b: u = (x + i y)/r, c = z/r
BondBinds(b) ==
  LET r == Sqrt(I(Norm2(b)))
  IN  << <<"u", Div(Cplx(I(b[1]), I(b[2])), r)>>, <<"c", Div(I(b[3]), r)>> >>

\* ---------------------------------------------------------------- macros and names
MacroY(l)  == [k \in 1..(2 * l + 1) |-> << <<"Y", k - l - 1>>, YDir(l, k - l - 1, Var("u"), Var("c")) >>]
MacroP(l)  == << <<"P">>, LegTerm(l, Var("x")) >>
Ms(l)      == [k \in 1..(2 * l + 1) |-> k - l - 1]

NQ(kind, f, i, m)  == <<kind, f, i, m>>          \* kind "q" (local) / "Q" (coarse-grained)
NN2(kind, f, i)    == <<"n2", kind, f, i>>       \* sum_m |q_lm|^2
NS(kind, f, i, k)  == <<"s", kind, f, i, k>>     \* s_ij of i with its k-th listed neighbour
NW(kind, f, i)     == <<"w", kind, f, i>>
NW3j(m1, m2, m3)   == <<"w3j", m1, m2, m3>>       \* bound by the harness from MC_SphHarm's w3j emission

\* ---------------------------------------------------------------- terms
\* Generic in the description of the environment: CnI(i) = number of bonds of i, NbI(i,k) = k-th neighbour,
\* WnI(i,k) = normalised weight (rational), BbI(i,k) = macro bindings (u, c) of the bond direction,
\* CosI(i,a,b) = term of the cosine between bonds a and b of i.
QlmTermG(m, i, CnI(_), WnI(_, _), BbI(_, _)) ==
  Add([k \in 1..CnI(i) |-> Mul2(QR(WnI(i, k)), Call(<<"Y", m>>, BbI(i, k)))])
CoarseTermG(f, i, m, CnI(_), NbI(_, _)) ==
  Div(Add(<<VarN(NQ("q", f, i, m))>> \o [k \in 1..CnI(i) |-> VarN(NQ("q", f, NbI(i, k), m))]), I(1 + CnI(i)))
N2Term(kind, f, i, l) == Add([k \in 1..(2 * l + 1) |-> Abs2(VarN(NQ(kind, f, i, k - l - 1)))])
QlTerm(kind, f, i, l) == Sqrt(Mul2(Div(Mul2(I(4), Pi), I(2 * l + 1)), VarN(NN2(kind, f, i))))
SijTerm(kind, f, i, j, l) ==
  Div(Re(Add([k \in 1..(2 * l + 1) |-> Mul2(VarN(NQ(kind, f, i, k - l - 1)), Conj(VarN(NQ(kind, f, j, k - l - 1))))])),
      Mul2(Sqrt(VarN(NN2(kind, f, i))), Sqrt(VarN(NN2(kind, f, j)))))
\* the index set of the 3-j contraction, listed (order irrelevant: a sum)
W3jSeq(l) ==
  LET all == [k \in 1..((2 * l + 1) * (2 * l + 1)) |->
                LET m1 == ((k - 1) \div (2 * l + 1)) - l
                    m2 == ((k - 1) % (2 * l + 1)) - l
                IN  <<m1, m2, 0 - m1 - m2>>]
  IN  SelectSeq(all, LAMBDA t : ShAbs(t[3]) <= l)
WTerm(kind, f, i, l) ==
  LET tr == W3jSeq(l) IN
  Add([k \in 1..Len(tr) |->
         Mul2(VarN(NW3j(tr[k][1], tr[k][2], tr[k][3])),
              Re(Mul3(VarN(NQ(kind, f, i, tr[k][1])), VarN(NQ(kind, f, i, tr[k][2])), VarN(NQ(kind, f, i, tr[k][3])))))])
WcapTerm(kind, f, i) == Div(VarN(NW(kind, f, i)), Mul2(VarN(NN2(kind, f, i)), Sqrt(VarN(NN2(kind, f, i)))))

\* q_l by the addition theorem, as a term (any l, any bonds): sqrt(sum_ab wn_a wn_b P_l(cos gamma_ab))
QlAddTermG(i, CnI(_), WnI(_, _), CosI(_, _, _)) ==
  LET n == CnI(i) IN
  Sqrt(Add([p \in 1..(n * n) |->
     LET a == ((p - 1) \div n) + 1
         b == ((p - 1) % n) + 1
     IN  Mul3(QR(WnI(i, a)), QR(WnI(i, b)), Call(<<"P">>, << <<"x", CosI(i, a, b)>> >>))]))

RECURSIVE ConcatSeqsTo(_, _)
ConcatSeqsTo(ss, n) == IF n = 0 THEN << >> ELSE ConcatSeqsTo(ss, n - 1) \o ss[n]
ConcatSeqs(ss) == ConcatSeqsTo(ss, Len(ss))
\* all definitions of one frame, in dependency order
FrameDefsG(N, f, l, withW, CnI(_), NbI(_, _), WnI(_, _), BbI(_, _)) ==
  LET M   == 2 * l + 1
      qs  == [p \in 1..(N * M) |-> LET i == ((p - 1) \div M) + 1  m == ((p - 1) % M) - l
                                   IN  <<NQ("q", f, i, m), QlmTermG(m, i, CnI, WnI, BbI)>>]
      Qs  == [p \in 1..(N * M) |-> LET i == ((p - 1) \div M) + 1  m == ((p - 1) % M) - l
                                   IN  <<NQ("Q", f, i, m), CoarseTermG(f, i, m, CnI, NbI)>>]
      n2  == [p \in 1..(2 * N) |-> LET i == ((p - 1) % N) + 1  kind == IF p <= N THEN "q" ELSE "Q"
                                   IN  <<NN2(kind, f, i), N2Term(kind, f, i, l)>>]
      ws  == IF withW
             THEN [p \in 1..(2 * N) |-> LET i == ((p - 1) % N) + 1  kind == IF p <= N THEN "q" ELSE "Q"
                                        IN  <<NW(kind, f, i), WTerm(kind, f, i, l)>>]
             ELSE << >>
      \* s_ij of every listed pair (i, k-th neighbour), local and coarse-grained
      sOf(kind) == ConcatSeqs([i \in 1..N |-> [k \in 1..CnI(i) |-> <<NS(kind, f, i, k), SijTerm(kind, f, i, NbI(i, k), l)>>]])
  IN  qs \o Qs \o n2 \o ws \o sOf("q") \o sOf("Q")

\* expected observables of one frame (terms over the definitions); cs = thresholds (rationals)
FrameExpG(N, f, l, withW, cs, CnI(_), NbI(_, _), WnI(_, _), CosI(_, _, _)) ==
  [ qlm  |-> [i \in 1..N |-> [k \in 1..(2 * l + 1) |-> VarN(NQ("q", f, i, k - l - 1))]],
    Qlm  |-> [i \in 1..N |-> [k \in 1..(2 * l + 1) |-> VarN(NQ("Q", f, i, k - l - 1))]],
    ql   |-> [i \in 1..N |-> QlTerm("q", f, i, l)],
    Ql   |-> [i \in 1..N |-> QlTerm("Q", f, i, l)],
    qladd |-> [i \in 1..N |-> QlAddTermG(i, CnI, WnI, CosI)],
    sij  |-> [i \in 1..N |-> [k \in 1..CnI(i) |-> VarN(NS("q", f, i, k))]],
    Sij  |-> [i \in 1..N |-> [k \in 1..CnI(i) |-> VarN(NS("Q", f, i, k))]],
    n2   |-> [i \in 1..N |-> VarN(NN2("q", f, i))],          \* sum_m |q_lm|^2 (s_ij, w^_l undefined where it vanishes)
    N2   |-> [i \in 1..N |-> VarN(NN2("Q", f, i))],
    nb   |-> [i \in 1..N |-> [k \in 1..CnI(i) |-> NbI(i, k)]],
    cn   |-> [i \in 1..N |-> CnI(i)],
    cnt  |-> [j \in 1..Len(cs) |->
               [ c |-> QR(cs[j]),
                 q |-> [i \in 1..N |-> Add([k \in 1..CnI(i) |-> Gt(VarN(NS("q", f, i, k)), QR(cs[j]))])],
                 Q |-> [i \in 1..N |-> Add([k \in 1..CnI(i) |-> Gt(VarN(NS("Q", f, i, k)), QR(cs[j]))])] ]],
    w    |-> IF withW THEN [i \in 1..N |-> VarN(NW("q", f, i))] ELSE << >>,
    W    |-> IF withW THEN [i \in 1..N |-> VarN(NW("Q", f, i))] ELSE << >>,
    wcap |-> IF withW THEN [i \in 1..N |-> WcapTerm("q", f, i)] ELSE << >>,
    Wcap |-> IF withW THEN [i \in 1..N |-> WcapTerm("Q", f, i)] ELSE << >> ]

\* instantiation for integer configurations in a (periodic) cell
CosTerm(a, b) == Div(I(Dot(a, b)), Sqrt(I(Norm2(a) * Norm2(b))))
FrameDefs(H, ppp, fr, f, l, nmax, withW) ==
  LET B == BondsOf(H, ppp, fr, nmax) IN
  FrameDefsG(Len(fr.pos), f, l, withW,
             LAMBDA i : Cn(fr, i, nmax), LAMBDA i, k : Nb(fr, i, k), LAMBDA i, k : WN(fr, i, k, nmax),
             LAMBDA i, k : BondBinds(B[i][k]))
FrameExp(H, ppp, fr, f, l, nmax, withW, cs) ==
  LET B == BondsOf(H, ppp, fr, nmax) IN
  FrameExpG(Len(fr.pos), f, l, withW, cs,
            LAMBDA i : Cn(fr, i, nmax), LAMBDA i, k : Nb(fr, i, k), LAMBDA i, k : WN(fr, i, k, nmax),
            LAMBDA i, a, b : CosTerm(B[i][a], B[i][b]))

\* composition rules for the correlation functions (the two routines are bound by C13 / C14):
\*   spatial_corr = mean over frames of conditional_gr(frame, q_lm[frame], "vector", ppp, rdelta)   (all columns)
\*   time_corr    = time_correlation(snapshots, q_lm, dt), scaled by 4 pi/(2l+1) and divided by its lag-0 value
Compose(l) ==
  [ spatial |-> [fn |-> "conditional_gr", conditiontype |-> "vector", reduce |-> "mean_over_frames"],
    time    |-> [fn |-> "time_correlation", column |-> "time_corr",
                 scale |-> Div(Mul2(I(4), Pi), I(2 * l + 1)), renormalise |-> "by_lag0"] ]

\* ---------------------------------------------------------------- frame attributes
\* Everything boo_3d reads of a frame belongs to THAT frame: positions, the cell, the neighbour list (and with it
\* the coordination numbers and the padded width max_i N_i of the list as read), the weights, the order in which
\* the lines of the neighbour / weight file are written.  A frame record may carry its own cell `H` (a sheared run:
\* the tilt factors change from frame to frame at constant edge lengths) and the line orders `ord` / `word` (the ids
\* in the order of the lines of the neighbour / weight file; the reader files every line under its id, so no
\* definition above depends on them).  boo_3d demands of a trajectory only a constant particle number and constant
\* box LENGTHS; the property adds that every particle has at least one neighbour.
CellOf(H0, fr)   == IF "H" \in DOMAIN fr THEN fr.H ELSE H0
EdgeLengths(H)   == [k \in 1..Len(H) |-> H[k][k]]
IsPermutation(s, N) == Len(s) = N /\ Range(s) = 1..N
LineOrdersOK(fr) ==
  /\ ("ord" \in DOMAIN fr => IsPermutation(fr.ord, Len(fr.pos)))
  /\ ("word" \in DOMAIN fr => (fr.word = << >> \/ IsPermutation(fr.word, Len(fr.pos))))
TrajectoryInDomain(H0, frames, nmax) ==
  /\ \A f \in 1..Len(frames) :
       /\ Len(frames[f].pos) = Len(frames[1].pos)
       /\ EdgeLengths(CellOf(H0, frames[f])) = EdgeLengths(CellOf(H0, frames[1]))
       /\ Weighted(frames[f]) = Weighted(frames[1])
       /\ LineOrdersOK(frames[f])
       /\ \A i \in 1..Len(frames[f].pos) : Cn(frames[f], i, nmax) >= 1
\* the widest list of a frame after the reader's truncation (the reader pads every row of the frame to this width)
MaxCn(fr, nmax) == LET S == {Cn(fr, i, nmax) : i \in 1..Len(fr.pos)} IN CHOOSE x \in S : \A y \in S : y <= x
\* which attributes actually differ between the frames of a trajectory (evidence against vacuity)
Varies(H0, frames, nmax) ==
  [ cell  |-> \E f \in 1..Len(frames) : CellOf(H0, frames[f]) # CellOf(H0, frames[1]),
    pos   |-> \E f \in 1..Len(frames) : frames[f].pos # frames[1].pos,
    lists |-> \E f \in 1..Len(frames) : frames[f].nl # frames[1].nl,
    width |-> \E f \in 1..Len(frames) : MaxCn(frames[f], nmax) # MaxCn(frames[1], nmax),
    w     |-> \E f \in 1..Len(frames) : frames[f].w # frames[1].w,
    order |-> \E f \in 1..Len(frames) : "ord" \in DOMAIN frames[f] /\ frames[f].ord # frames[1].ord ]

\* ---------------------------------------------------------------- sessions on one boo_3d object
\* The constructor computes (q_lm, Q_lm) of every frame; every method is an OBSERVER of that state: its value is the
\* documented function of q_lm (coarse_graining = FALSE) or Q_lm (TRUE) and of its own arguments, whatever was
\* called before, with whatever arguments, in whatever order.  A call is [m, cg, cj] (cj = index of the threshold
\* c for sij_ql_Ql, 0 otherwise); `obs` names the fields of the per-frame expectation record (FrameExpG) that
\* state its value -- a function of the call alone, not of its position in the session.
MCall(m, cg, cj) == [m |-> m, cg |-> cg, cj |-> cj]
CallCatalogue(nthr, withW) ==
  <<MCall("qlm_Qlm", FALSE, 0)>>
  \o [k \in 1..2 |-> MCall("ql_Ql", k = 2, 0)]
  \o [k \in 1..(2 * nthr) |-> MCall("sij_ql_Ql", k > nthr, ((k - 1) % nthr) + 1)]
  \o (IF withW THEN [k \in 1..2 |-> MCall("w_W_cap", k = 2, 0)] ELSE << >>)
  \o [k \in 1..2 |-> MCall("spatial_corr", k = 2, 0)]
  \o [k \in 1..2 |-> MCall("time_corr", k = 2, 0)]
CallObs(c) ==
  IF c.m = "qlm_Qlm" THEN <<"qlm", "Qlm">>
  ELSE IF c.m = "ql_Ql" THEN (IF c.cg THEN <<"Ql">> ELSE <<"ql">>)
  ELSE IF c.m = "sij_ql_Ql" THEN (IF c.cg THEN <<"Sij", "Q", "N2">> ELSE <<"sij", "q", "n2">>)     \* rows, count key, norms
  ELSE IF c.m = "w_W_cap" THEN (IF c.cg THEN <<"W", "Wcap", "N2">> ELSE <<"w", "wcap", "n2">>)
  ELSE (IF c.cg THEN <<"Qlm">> ELSE <<"qlm">>)                                                  \* correlations: composed on this field
WithObs(c) == [m |-> c.m, cg |-> c.cg, cj |-> c.cj, obs |-> CallObs(c)]
\* the permutation of s selected by h (positions drawn by a small multiplicative generator, 0 < h < 65537)
DropAt(s, k) == SubSeq(s, 1, k - 1) \o SubSeq(s, k + 1, Len(s))
RECURSIVE PermFrom(_, _)
PermFrom(s, h) ==
  IF Len(s) <= 1 THEN s
  ELSE LET k == (h % Len(s)) + 1 IN <<s[k]>> \o PermFrom(DropAt(s, k), ((h * 75) % 65537) + 1)
\* a session: every call of the catalogue once, in the order selected by h, then the first two calls again in
\* reverse (a repeated call returns what it returned before)
SessionOf(nthr, withW, h) ==
  LET p == PermFrom(CallCatalogue(nthr, withW), (h % 65536) + 1) IN p \o <<p[2], p[1]>>
SessionWellFormed(s, nthr, withW) ==
  LET cat == CallCatalogue(nthr, withW) IN
  /\ Len(s) = Len(cat) + 2
  /\ Range(SubSeq(s, 1, Len(cat))) = Range(cat)
  /\ \A p \in 1..Len(s) : s[p] \in Range(cat)
KnownCall(c, nthr) ==
  /\ c.m \in {"qlm_Qlm", "ql_Ql", "sij_ql_Ql", "w_W_cap", "spatial_corr", "time_corr"}
  /\ c.cg \in BOOLEAN
  /\ (IF c.m = "sij_ql_Ql" THEN c.cj \in 1..nthr ELSE c.cj = 0)

\* ---------------------------------------------------------------- exact side (addition theorem)
\* cos^2 of the angle between integer vectors, and the sign of the cosine
Cos2(a, b)   == RNorm(Dot(a, b) * Dot(a, b), Norm2(a) * Norm2(b))
\* P_l(cos gamma) for even l: an exact rational
LegPair(l, a, b) == LegEven(l, Cos2(a, b))
RECURSIVE RSumSeq(_, _)
RSumSeq(s, n) == IF n = 0 THEN <<0, 1>> ELSE RAddG(s[n], RSumSeq(s, n - 1))
\* A(i,j) for even l from the bonds B; T = table cos^2 -> P_l (each distinct value evaluated once)
Cos2SetIJ(B, i, j) == {Cos2(B[i][a], B[j][b]) : a \in 1..Len(B[i]), b \in 1..Len(B[j])}
LegTabOf(l, S)     == TLCEval([c \in S |-> LegEven(l, c)])
AFrom(B, T, fr, i, j, nmax) ==
  LET ni == Len(B[i])
      nj == Len(B[j])
  IN  RSumSeq([p \in 1..(ni * nj) |->
        LET a == ((p - 1) \div nj) + 1
            b == ((p - 1) % nj) + 1
        IN  RMulG(RMulG(WN(fr, i, a, nmax), WN(fr, j, b, nmax)), T[Cos2(B[i][a], B[j][b])])], ni * nj)
AExact(H, ppp, fr, l, i, j, nmax) ==
  LET B == BondsOf(H, ppp, fr, nmax) IN AFrom(B, LegTabOf(l, Cos2SetIJ(B, i, j)), fr, i, j, nmax)
\* members of the coarse-graining average of i: i itself and its listed neighbours (with multiplicity)
CgSeq(fr, i, nmax) == <<i>> \o [k \in 1..Cn(fr, i, nmax) |-> Nb(fr, i, k)]
\* coarse-grained bilinear form from a precomputed matrix AM[i][j] = A(i,j)
AQFrom(AM, fr, i, j, nmax) ==
  LET si == CgSeq(fr, i, nmax)
      sj == CgSeq(fr, j, nmax)
      n  == Len(si) * Len(sj)
  IN  RMulG(RSumSeq([p \in 1..n |-> AM[si[((p - 1) \div Len(sj)) + 1]][sj[((p - 1) % Len(sj)) + 1]]], n),
            <<1, Len(si) * Len(sj)>>)
AMatrix(H, ppp, fr, l, nmax) ==
  LET N == Len(fr.pos)
      B == BondsOf(H, ppp, fr, nmax)
      T == LegTabOf(l, UNION {Cos2SetIJ(B, i, j) : i \in 1..N, j \in 1..N})
  IN  TLCEval([i \in 1..N |-> TLCEval([j \in 1..N |-> AFrom(B, T, fr, i, j, nmax)])])
AQMatrix(AM, fr, nmax) ==
  LET N == Len(fr.pos) IN
  TLCEval([i \in 1..N |-> TLCEval([j \in 1..N |-> AQFrom(AM, fr, i, j, nmax)])])

\* --- comparisons of products of natural numbers beyond 32 bits: little-endian digit sequences, base 10^4
BgBase == 10000
RECURSIVE BgStrip(_)
BgStrip(d) == IF Len(d) > 1 /\ d[Len(d)] = 0 THEN BgStrip(SubSeq(d, 1, Len(d) - 1)) ELSE d
RECURSIVE BgFromNat(_)
BgFromNat(n) == IF n < BgBase THEN <<n>> ELSE <<n % BgBase>> \o BgFromNat(n \div BgBase)
RECURSIVE BgMulSmall(_, _, _)           \* d * k + carry, 0 <= k < 10^4... k < 2*10^5 keeps every step below 2^31
BgMulSmall(d, k, carry) ==
  IF d = << >> THEN (IF carry = 0 THEN << >> ELSE BgFromNat(carry))
  ELSE LET v == d[1] * k + carry IN <<v % BgBase>> \o BgMulSmall(Tail(d), k, v \div BgBase)
RECURSIVE BgMulNat(_, _)                \* d * n for any natural n < 2^31: multiply by the base-10^4 digits of n
RECURSIVE BgAdd(_, _, _)
BgAdd(x, y, carry) ==
  IF x = << >> /\ y = << >> THEN (IF carry = 0 THEN << >> ELSE <<carry>>)
  ELSE LET xv == IF x = << >> THEN 0 ELSE x[1]
           yv == IF y = << >> THEN 0 ELSE y[1]
           v  == xv + yv + carry
       IN  <<v % BgBase>> \o BgAdd(IF x = << >> THEN << >> ELSE Tail(x), IF y = << >> THEN << >> ELSE Tail(y), v \div BgBase)
BgMulNat(d, n) ==
  IF n < BgBase THEN BgMulSmall(d, n, 0)
  ELSE BgAdd(BgMulSmall(d, n % BgBase, 0), <<0>> \o BgMulNat(d, n \div BgBase), 0)
RECURSIVE BgProd(_)
BgProd(ns) == IF ns = << >> THEN <<1>> ELSE BgStrip(BgMulNat(BgProd(Tail(ns)), Head(ns)))
RECURSIVE BgCmpFrom(_, _, _)
BgCmpFrom(x, y, i) == IF i = 0 THEN 0 ELSE IF x[i] < y[i] THEN 0 - 1 ELSE IF x[i] > y[i] THEN 1 ELSE BgCmpFrom(x, y, i - 1)
BgCmp(x, y) == LET xs == BgStrip(x)  ys == BgStrip(y) IN
               IF Len(xs) < Len(ys) THEN 0 - 1 ELSE IF Len(xs) > Len(ys) THEN 1 ELSE BgCmpFrom(xs, ys, Len(xs))
\* sign of prod(A) - prod(B) for sequences of naturals
ProdCmp(A, B) == BgCmp(BgProd(A), BgProd(B))

\* s_ij > c decided exactly from a matrix M of the bilinear form (needs M[i][i], M[j][j] > 0):
\*   s = M_ij / sqrt(M_ii M_jj);  s > c  <=>  sign-aware comparison of x^2 with c^2 M_ii M_jj
\* c^2 M_ii M_jj ? x^2   <=>   cn^2 an bn xd^2 ? xn^2 cd^2 ad bd
SCmp2(M, i, j, c) ==
  LET x == M[i][j]  p == M[i][i]  q == M[j][j] IN
  ProdCmp(<<Abs(c[1]), Abs(c[1]), p[1], q[1], x[2], x[2]>>, <<Abs(x[1]), Abs(x[1]), c[2], c[2], p[2], q[2]>>)
SGreater(M, i, j, c) ==
  LET x == M[i][j] IN
  IF c[1] >= 0 THEN x[1] > 0 /\ SCmp2(M, i, j, c) < 0
  ELSE x[1] >= 0 \/ SCmp2(M, i, j, c) > 0
SEqual(M, i, j, c) ==      \* exactly on the threshold (a tie: never asserted)
  Sgn(M[i][j][1]) = Sgn(c[1]) /\ SCmp2(M, i, j, c) = 0
CountExact(M, fr, i, c, nmax) ==
  Cardinality({k \in 1..Cn(fr, i, nmax) : SGreater(M, i, Nb(fr, i, k), c)})
SDefined(M, fr, i, nmax) ==
  M[i][i][1] > 0 /\ \A k \in 1..Cn(fr, i, nmax) : M[Nb(fr, i, k)][Nb(fr, i, k)][1] > 0

\* ---------------------------------------------------------------- model-level clauses (on a matrix of the bilinear form)
QlInUnitInterval(M, N) == \A i \in 1..N : M[i][i][1] >= 0 /\ M[i][i][1] <= M[i][i][2]
\* |s_ij| <= 1 :  x^2 <= M_ii M_jj
SijBounded(M, N)       == \A i, j \in 1..N :
  ProdCmp(<<Abs(M[i][j][1]), Abs(M[i][j][1]), M[i][i][2], M[j][j][2]>>, <<M[i][i][1], M[j][j][1], M[i][j][2], M[i][j][2]>>) <= 0
MSymmetric(M, N)       == \A i, j \in 1..N : M[i][j] = M[j][i]
\* equal weights reproduce the unweighted result: the normalised weights, hence every term, coincide
EqualWeightsAreUnweighted(fr, nmax) ==
  (Weighted(fr) /\ \A i \in 1..Len(fr.pos) : \A k \in 1..Cn(fr, i, nmax) : fr.w[i][k] = fr.w[i][1])
    => \A i \in 1..Len(fr.pos) : \A k \in 1..Cn(fr, i, nmax) :
         WN(fr, i, k, nmax) = WN([fr EXCEPT !.w = << >>], i, k, nmax)
WeightsNormalised(fr, nmax) ==
  \A i \in 1..Len(fr.pos) :
    RSumSeq([k \in 1..Cn(fr, i, nmax) |-> WN(fr, i, k, nmax)], Cn(fr, i, nmax)) = <<1, 1>>

\* ---------------------------------------------------------------- reference environments
\* Coordinates in Z[sqrt(D)] (pairs <<a, b>> = a + b sqrt(D)) with a diagonal metric g:
\* real coordinate k = (a_k + b_k sqrt(D)) * sqrt(g_k).  Non-periodic clusters: particle 1 is the centre.
ZdAdd(x, y)    == <<x[1] + y[1], x[2] + y[2]>>
ZdSub(x, y)    == <<x[1] - y[1], x[2] - y[2]>>
ZdMul(x, y, D) == <<x[1] * y[1] + D * x[2] * y[2], x[1] * y[2] + x[2] * y[1]>>
ZdScale(n, x)  == <<n * x[1], n * x[2]>>
ZdSign(x, D)   == IF x[1] >= 0 /\ x[2] >= 0 THEN (IF x[1] = 0 /\ x[2] = 0 THEN 0 ELSE 1)
                  ELSE IF x[1] <= 0 /\ x[2] <= 0 THEN 0 - 1
                  ELSE IF x[1] > 0 THEN (IF x[1] * x[1] > D * x[2] * x[2] THEN 1 ELSE 0 - 1)
                  ELSE (IF x[1] * x[1] < D * x[2] * x[2] THEN 1 ELSE 0 - 1)
ZVSub(u, v)    == [k \in 1..3 |-> ZdSub(u[k], v[k])]
ZVDot(u, v, g, D) ==
  ZdAdd(ZdAdd(ZdScale(g[1], ZdMul(u[1], v[1], D)), ZdScale(g[2], ZdMul(u[2], v[2], D))),
        ZdScale(g[3], ZdMul(u[3], v[3], D)))
\* cos^2 = dot^2/(|u|^2 |v|^2): rational iff the sqrt(D) part of the quotient vanishes; <<ok, n, d>>
ZCos2(u, v, g, D) ==
  LET d  == ZVDot(u, v, g, D)
      nn == ZdMul(d, d, D)
      mm == ZdMul(ZVDot(u, u, g, D), ZVDot(v, v, g, D), D)
      cj == <<mm[1], 0 - mm[2]>>
      nm == mm[1] * mm[1] - D * mm[2] * mm[2]
      pq == ZdMul(nn, cj, D)
  IN  [ok |-> pq[2] = 0, val |-> RNorm(pq[1], nm)]
ZInt(n)  == <<n, 0>>
ZV(x, y, z) == <<ZInt(x), ZInt(y), ZInt(z)>>

CoordTerm(c, gk, D) ==
  LET base == IF c[2] = 0 THEN I(c[1]) ELSE Add2(I(c[1]), Mul2(I(c[2]), Sqrt(I(D))))
  IN  IF gk = 1 THEN base ELSE Mul2(base, Sqrt(I(gk)))
ZVTerms(v, g, D) == [k \in 1..3 |-> CoordTerm(v[k], g[k], D)]
ZBondBinds(b, g, D) ==
  LET t == ZVTerms(b, g, D)
      r == Sqrt(Add(<<PowI(t[1], 2), PowI(t[2], 2), PowI(t[3], 2)>>))
  IN  << <<"u", Div(Cplx(t[1], t[2]), r)>>, <<"c", Div(t[3], r)>> >>

\* the 6 sc, 12 fcc, 8 + 6 bcc nearest-neighbour vectors, listed in a fixed order
RefSc  == << ZV(1,0,0), ZV(0-1,0,0), ZV(0,1,0), ZV(0,0-1,0), ZV(0,0,1), ZV(0,0,0-1) >>
RefFcc == << ZV(1,1,0), ZV(1,0-1,0), ZV(0-1,1,0), ZV(0-1,0-1,0),
             ZV(1,0,1), ZV(1,0,0-1), ZV(0-1,0,1), ZV(0-1,0,0-1),
             ZV(0,1,1), ZV(0,1,0-1), ZV(0,0-1,1), ZV(0,0-1,0-1) >>
RefBcc8 == << ZV(1,1,1), ZV(1,1,0-1), ZV(1,0-1,1), ZV(1,0-1,0-1),
              ZV(0-1,1,1), ZV(0-1,1,0-1), ZV(0-1,0-1,1), ZV(0-1,0-1,0-1) >>
RefBcc == RefBcc8 \o << ZV(2,0,0), ZV(0-2,0,0), ZV(0,2,0), ZV(0,0-2,0), ZV(0,0,2), ZV(0,0,0-2) >>
\* hcp (ideal c/a), integer coordinates in units (1/2, sqrt(3)/6, sqrt(2/3)): metric 12 * diag(1/4, 1/12, 2/3) = diag(3, 1, 8)
RefHcp == << ZV(2,0,0), ZV(0-2,0,0), ZV(1,3,0), ZV(1,0-3,0), ZV(0-1,3,0), ZV(0-1,0-3,0),
             ZV(0,2,1), ZV(1,0-1,1), ZV(0-1,0-1,1), ZV(0,2,0-1), ZV(1,0-1,0-1), ZV(0-1,0-1,0-1) >>
\* icosahedron: cyclic permutations of (0, +-1, +-phi), scaled by 2: (0, +-2, +-(1 + sqrt 5))
Phi2(s) == <<s, s>>                                    \* s (1 + sqrt 5)
RefIco ==
  << <<ZInt(0), ZInt(2), Phi2(1)>>, <<ZInt(0), ZInt(2), Phi2(0-1)>>, <<ZInt(0), ZInt(0-2), Phi2(1)>>, <<ZInt(0), ZInt(0-2), Phi2(0-1)>>,
     <<ZInt(2), Phi2(1), ZInt(0)>>, <<ZInt(2), Phi2(0-1), ZInt(0)>>, <<ZInt(0-2), Phi2(1), ZInt(0)>>, <<ZInt(0-2), Phi2(0-1), ZInt(0)>>,
     <<Phi2(1), ZInt(0), ZInt(2)>>, <<Phi2(0-1), ZInt(0), ZInt(2)>>, <<Phi2(1), ZInt(0), ZInt(0-2)>>, <<Phi2(0-1), ZInt(0), ZInt(0-2)>> >>

RefEnv(name) ==
  IF name = "sc"  THEN [name |-> name, nb |-> RefSc,  g |-> <<1, 1, 1>>, D |-> 1]
  ELSE IF name = "fcc" THEN [name |-> name, nb |-> RefFcc, g |-> <<1, 1, 1>>, D |-> 1]
  ELSE IF name = "bcc" THEN [name |-> name, nb |-> RefBcc, g |-> <<1, 1, 1>>, D |-> 1]
  ELSE IF name = "bcc8" THEN [name |-> name, nb |-> RefBcc8, g |-> <<1, 1, 1>>, D |-> 1]
  ELSE IF name = "hcp" THEN [name |-> name, nb |-> RefHcp, g |-> <<3, 1, 8>>, D |-> 1]
  ELSE [name |-> "ico", nb |-> RefIco, g |-> <<1, 1, 1>>, D |-> 5]

\* the cluster as an environment: particle 1 = centre with all n neighbours, particle j+1 sits at nb[j] and lists the centre
RefN(env)        == Len(env.nb) + 1
RefCn(env, i)    == IF i = 1 THEN Len(env.nb) ELSE 1
RefNb(env, i, k) == IF i = 1 THEN k + 1 ELSE 1
RefBond(env, i, k) == IF i = 1 THEN env.nb[k] ELSE [c \in 1..3 |-> ZdSub(<<0, 0>>, env.nb[i - 1][c])]
ZdTerm(x, D)     == IF x[2] = 0 THEN I(x[1]) ELSE Add2(I(x[1]), Mul2(I(x[2]), Sqrt(I(D))))
RefCosTerm(env, u, v) ==
  Div(ZdTerm(ZVDot(u, v, env.g, env.D), env.D),
      Sqrt(Mul2(ZdTerm(ZVDot(u, u, env.g, env.D), env.D), ZdTerm(ZVDot(v, v, env.g, env.D), env.D))))
RefDefs(env, l, withW) ==
  FrameDefsG(RefN(env), 1, l, withW,
             LAMBDA i : RefCn(env, i), LAMBDA i, k : RefNb(env, i, k), LAMBDA i, k : <<1, RefCn(env, i)>>,
             LAMBDA i, k : ZBondBinds(RefBond(env, i, k), env.g, env.D))
RefExp(env, l, withW, cs) ==
  FrameExpG(RefN(env), 1, l, withW, cs,
            LAMBDA i : RefCn(env, i), LAMBDA i, k : RefNb(env, i, k), LAMBDA i, k : <<1, RefCn(env, i)>>,
            LAMBDA i, a, b : RefCosTerm(env, RefBond(env, i, a), RefBond(env, i, b)))
RefPosTerms(env) == << <<I(0), I(0), I(0)>> >> \o [j \in 1..Len(env.nb) |-> ZVTerms(env.nb[j], env.g, env.D)]
RefNl(env)       == [i \in 1..RefN(env) |-> [k \in 1..RefCn(env, i) |-> RefNb(env, i, k)]]

\* q_l^2 of the centre of a reference cluster (equal weights), even l: (1/n^2) sum_ab P_l(cos g_ab)
RefQl2(env, l) ==
  LET n == Len(env.nb) IN
  RMulG(RSumSeq([p \in 1..(n * n) |->
         LegEven(l, ZCos2(env.nb[((p - 1) \div n) + 1], env.nb[((p - 1) % n) + 1], env.g, env.D).val)], n * n),
       <<1, n * n>>)
RefCosRational(env) == \A a, b \in 1..Len(env.nb) : ZCos2(env.nb[a], env.nb[b], env.g, env.D).ok
RefEqualLengths(env, ks) ==      \* the listed bonds have the same length
  \A a, b \in ks : ZVDot(env.nb[a], env.nb[a], env.g, env.D) = ZVDot(env.nb[b], env.nb[b], env.g, env.D)

\* floor(x * 10^8) for a rational 0 <= x < 1 with numerator, denominator < 2*10^5 (two-step long division)
Scaled8(x) ==
  LET m1 == (x[1] * 10000) \div x[2]
      r1 == x[1] * 10000 - m1 * x[2]
      m2 == (r1 * 10000) \div x[2]
  IN  m1 * 10000 + m2
\* tabulated value v (in units 10^-4, four decimals as printed in the literature): |q - v 10^-4| <= 0.5 10^-4
\*  <=>  (2v-1)^2 <= 4 q^2 10^8 <= (2v+1)^2   (the floor only matters at the upper end, where +4 covers it)
Brackets(q2, v) ==
  LET f == Scaled8(q2) IN
  /\ (IF v = 0 THEN TRUE ELSE (2 * v - 1) * (2 * v - 1) <= 4 * f + 4)
  /\ 4 * f <= (2 * v + 1) * (2 * v + 1)
\* tabulated q4, q6 (Steinhardt, Nelson, Ronchetti 1983; Mickel et al. 2013), units 10^-4
RefTable(name) ==
  IF name = "fcc" THEN [q4 |-> 1909, q6 |-> 5745]
  ELSE IF name = "bcc" THEN [q4 |-> 364, q6 |-> 5107]
  ELSE IF name = "hcp" THEN [q4 |-> 972, q6 |-> 4848]
  ELSE IF name = "sc" THEN [q4 |-> 7638, q6 |-> 3536]
  ELSE IF name = "bcc8" THEN [q4 |-> 5092, q6 |-> 6285]
  ELSE [q4 |-> 0, q6 |-> 6633]
\* tabulated w^_4, w^_6 in units 10^-6 (same sources); "none": not defined (q_l = 0)
RefWcap(name) ==
  IF name = "fcc" THEN [has4 |-> TRUE, w4 |-> 0 - 159317, has6 |-> TRUE, w6 |-> 0 - 13161]
  ELSE IF name = "bcc" THEN [has4 |-> TRUE, w4 |-> 159317, has6 |-> TRUE, w6 |-> 13161]
  ELSE IF name = "hcp" THEN [has4 |-> TRUE, w4 |-> 134097, has6 |-> TRUE, w6 |-> 0 - 12442]
  ELSE IF name = "sc" THEN [has4 |-> TRUE, w4 |-> 159317, has6 |-> TRUE, w6 |-> 13161]
  ELSE IF name = "bcc8" THEN [has4 |-> FALSE, w4 |-> 0, has6 |-> FALSE, w6 |-> 0]
  ELSE [has4 |-> FALSE, w4 |-> 0, has6 |-> TRUE, w6 |-> 0 - 169754]      \* ico: q_4 = 0, w^_4 undefined
RefValuesHold(name) ==
  LET env == RefEnv(name) IN
  /\ RefCosRational(env)
  /\ Brackets(RefQl2(env, 4), RefTable(name).q4)
  /\ Brackets(RefQl2(env, 6), RefTable(name).q6)
=============================================================================
