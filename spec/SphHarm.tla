------------------------------ MODULE SphHarm ------------------------------
(***************************************************************************)
(* Orthonormal Condon-Shortley spherical harmonics (property C08) and the  *)
(* two table-like ingredients of the bond-orientational order (C09):       *)
(* Legendre polynomials for the addition theorem and Wigner 3-j symbols.   *)
(*                                                                         *)
(* Definition (theta = polar angle, phi = azimuth), 0 <= m <= l:           *)
(*   Y_lm = (-1)^m sqrt((2l+1)(l-m)!/(4 pi (l+m)!)) P_l^m(cos th) e^{i m phi} *)
(*   P_l^m(x) = (1-x^2)^{m/2} d^m/dx^m P_l(x)                              *)
(*   P_l(x)   = 2^-l sum_k (-1)^k C(l,k) C(2l-2k,l) x^{l-2k}   (Rodrigues) *)
(*   Y_{l,-m} = (-1)^m conj(Y_lm);   order of a table: m = -l..l.          *)
(*                                                                         *)
(* d^m/dx^m of the sum gives                                               *)
(*   D_lm(x) = 2^-l sum_k (-1)^k c_k x^{l-m-2k},                           *)
(*   c_k = (2l-2k)! / (k! (l-k)! (l-2k-m)!),  0 <= k <= (l-m) div 2.       *)
(* With g = gcd_k c_k the canonical entry is                               *)
(*   Y_lm = s_lm sqrt(B_lm/pi) e^{i m phi} sin^m(theta) Q_lm(cos theta)    *)
(*   s_lm = (-1)^m,  Q_lm = sum_k (-1)^k (c_k/g) x^{l-m-2k} (primitive),   *)
(*   B_lm = (2l+1) (l-m)! g^2 / ((l+m)! 4^(l+1)).                          *)
(* e.g. l=10,m=8: B = 255255/(2*512^2), Q = 19x^2-1 - the shape in which   *)
(* the library's table is written.                                         *)
(*                                                                         *)
(* c_k exceeds 2^31 for l = 20, so every integer here is a *factored*      *)
(* number: a function  prime index -> exponent  over the primes <= 41.     *)
(* Identities that need sums of such numbers (Unsold, Bonnet recurrence,   *)
(* P_l(1) = 1, 3-j orthogonality) are checked exactly for small l and      *)
(* modulo the primes 46337 and 46327 (p^2 < 2^31) for all l.               *)
(***************************************************************************)
EXTENDS Exact, Real, TLC

ShPrimes == <<2, 3, 5, 7, 11, 13, 17, 19, 23, 29, 31, 37, 41>>
ShNP     == 13

\* ---------------------------------------------------------------- factored numbers
RECURSIVE ShVpFact(_, _)      \* exponent of prime p in n!  (Legendre)
ShVpFact(n, p) == IF n < p THEN 0 ELSE (n \div p) + ShVpFact(n \div p, p)
RECURSIVE ShVpInt(_, _)       \* exponent of prime p in n >= 1
ShVpInt(n, p) == IF n % p # 0 THEN 0 ELSE 1 + ShVpInt(n \div p, p)

FacFact(n)   == [i \in 1..ShNP |-> ShVpFact(n, ShPrimes[i])]
FacInt(n)    == [i \in 1..ShNP |-> ShVpInt(n, ShPrimes[i])]       \* n a product of primes <= 41
FacOne       == [i \in 1..ShNP |-> 0]
FacMul(a, b) == [i \in 1..ShNP |-> a[i] + b[i]]
FacDiv(a, b) == [i \in 1..ShNP |-> a[i] - b[i]]
FacPow(a, k) == [i \in 1..ShNP |-> k * a[i]]
FacMul3(a, b, c) == FacMul(a, FacMul(b, c))
FacGcdSet(S) == [i \in 1..ShNP |-> CHOOSE e \in {f[i] : f \in S} : \A f \in S : e <= f[i]]
FacLcmSet(S) == [i \in 1..ShNP |-> CHOOSE e \in {f[i] : f \in S} : \A f \in S : e >= f[i]]
FacIsInt(f)  == \A i \in 1..ShNP : f[i] >= 0

RECURSIVE ShIPow(_, _)
ShIPow(b, e) == IF e = 0 THEN 1 ELSE b * ShIPow(b, e - 1)
RECURSIVE FacValFrom(_, _)
FacValFrom(f, i) == IF i > ShNP THEN 1 ELSE ShIPow(ShPrimes[i], f[i]) * FacValFrom(f, i + 1)
FacVal(f)    == FacValFrom(f, 1)                  \* f integer and small enough (TLC reports overflow)
FacNum(f)    == FacVal([i \in 1..ShNP |-> IF f[i] > 0 THEN f[i] ELSE 0])
FacDen(f)    == FacVal([i \in 1..ShNP |-> IF f[i] < 0 THEN 0 - f[i] ELSE 0])
FacRat(f)    == <<FacNum(f), FacDen(f)>>            \* as an Exact rational

\* arithmetic modulo a prime p with p^2 < 2^31
RECURSIVE ShPowMod(_, _, _)
ShPowMod(b, e, p) ==
  IF e = 0 THEN 1
  ELSE LET h == ShPowMod(b, e \div 2, p) hh == (h * h) % p
       IN  IF e % 2 = 1 THEN (hh * (b % p)) % p ELSE hh
ShInvMod(a, p) == ShPowMod(a % p, p - 2, p)
RECURSIVE FacModFrom(_, _, _)
FacModFrom(f, i, p) ==
  IF i > ShNP THEN 1
  ELSE LET t == IF f[i] >= 0 THEN ShPowMod(ShPrimes[i], f[i], p)
                ELSE ShPowMod(ShInvMod(ShPrimes[i], p), 0 - f[i], p)
       IN  (t * FacModFrom(f, i + 1, p)) % p
FacMod(f, p) == FacModFrom(f, 1, p)
ShP1 == 46337
ShP2 == 46327

\* ---------------------------------------------------------------- terms for factored numbers
\* ["fq", sign, [[p, e], ...]]  =  sign * prod p^e ;  ["poly", x, [[pow, coef], ...]] = sum coef * x^pow
ShFQ(s, f) == <<"fq", s, SelectSeq([i \in 1..ShNP |-> <<ShPrimes[i], f[i]>>], LAMBDA pr : pr[2] # 0)>>
ShPoly(x, cs) == <<"poly", x, cs>>

\* ---------------------------------------------------------------- the canonical table
KMax(l, m)     == (l - m) \div 2
CoefF(l, m, k) == FacDiv(FacFact(2 * l - 2 * k), FacMul3(FacFact(k), FacFact(l - k), FacFact(l - 2 * k - m)))
Content(l, m)  == FacGcdSet({CoefF(l, m, k) : k \in 0..KMax(l, m)})
QCoefF(l, m, k) == FacDiv(CoefF(l, m, k), Content(l, m))     \* |coefficient| of x^QPow in Q_lm
QSgn(k)        == IF k % 2 = 0 THEN 1 ELSE 0 - 1
QPow(l, m, k)  == l - m - 2 * k
SSgn(m)        == IF m % 2 = 0 THEN 1 ELSE 0 - 1            \* Condon-Shortley, m >= 0
BF(l, m)       == FacDiv(FacMul3(FacInt(2 * l + 1), FacFact(l - m), FacPow(Content(l, m), 2)),
                       FacMul(FacFact(l + m), FacPow(FacInt(2), 2 * l + 2)))
\* D_lm = DScaleF * Q_lm  (m-th derivative of P_l), DScaleF = g / 2^l
DScaleF(l, m)  == FacDiv(Content(l, m), FacPow(FacInt(2), l))

ShAbs(m) == IF m < 0 THEN 0 - m ELSE m
\* sign in front of sqrt(B/pi) for any m in -l..l:  Y_{l,-m} = (-1)^m conj Y_lm = (+1) sqrt(B/pi) e^{-i m phi} ...
TabSgn(m) == IF m >= 0 THEN SSgn(m) ELSE 1

QTerms(l, m) == [k \in 1..(KMax(l, m) + 1) |-> <<QPow(l, m, k - 1), ShFQ(QSgn(k - 1), QCoefF(l, m, k - 1))>>]

\* theta-part and phi-part of Y_lm(theta, phi), m in -l..l  (free variables "theta", "phi")
YThetaPos(l, m) == Mul(<<I(SSgn(m)), Sqrt(Div(ShFQ(1, BF(l, m)), Pi)),
                         PowI(Sin(Var("theta")), m), ShPoly(Cos(Var("theta")), QTerms(l, m))>>)
YPhiPos(m)      == Exp(Cplx(I(0), Mul2(I(m), Var("phi"))))
YTheta(l, m) == IF m >= 0 THEN YThetaPos(l, m) ELSE Mul2(I(SSgn(0 - m)), YThetaPos(l, 0 - m))
YPhi(m)      == IF m >= 0 THEN YPhiPos(m) ELSE Conj(YPhiPos(0 - m))
YTerm(l, m)  == Mul2(YTheta(l, m), YPhi(m))

\* the same entry for a direction given by u = sin(theta) e^{i phi} (complex term) and c = cos(theta):
\* Y_lm = s sqrt(B/pi) u^m Q_lm(c)  (m >= 0), used for bond vectors: u = (x + i y)/r, c = z/r
YDirPos(l, m, u, c) == Mul(<<I(SSgn(m)), Sqrt(Div(ShFQ(1, BF(l, m)), Pi)), PowI(u, m), ShPoly(c, QTerms(l, m))>>)
YDir(l, m, u, c)    == IF m >= 0 THEN YDirPos(l, m, u, c)
                       ELSE Mul2(I(SSgn(0 - m)), Conj(YDirPos(l, 0 - m, u, c)))

MOrder(l) == [k \in 1..(2 * l + 1) |-> k - l - 1]          \* m = -l..l
Dispatch(l) == l                                           \* the dispatcher returns the table of the requested degree

\* ---------------------------------------------------------------- Legendre polynomials (addition theorem)
\* P_l(x) = LegScaleF(l) * sum_k QSgn(k) QCoefF(l,0,k) x^(l-2k)
LegScaleF(l) == DScaleF(l, 0)
LegTerm(l, x) == Mul2(ShFQ(1, LegScaleF(l)), ShPoly(x, QTerms(l, 0)))
\* rational addition through the gcd of the denominators (keeps intermediate products small)
RAddG(p, q) == LET g == Gcd(p[2], q[2]) IN RNorm(p[1] * (q[2] \div g) + q[1] * (p[2] \div g), (p[2] \div g) * q[2])
\* rational multiplication with cross-cancellation before multiplying
RMulG(p, q) == LET g1 == Gcd(Abs(p[1]), q[2])  g2 == Gcd(Abs(q[1]), p[2])
               IN  IF p[1] = 0 \/ q[1] = 0 THEN <<0, 1>>
                   ELSE <<(p[1] \div g1) * (q[1] \div g2), (p[2] \div g2) * (q[2] \div g1)>>
\* exact value at a rational x = <<n, d>> (Horner in x^2; small l / small x only - TLC reports overflow)
RECURSIVE LegHorner(_, _, _, _)
LegHorner(l, k, x2, acc) ==       \* processes coefficients k, k+1, .., KMax
  IF k > KMax(l, 0) THEN acc
  ELSE LegHorner(l, k + 1, x2, RAddG(RMulG(acc, x2), <<QSgn(k) * FacVal(QCoefF(l, 0, k)), 1>>))
\* even part evaluated at x^2 (a rational): P_l(x) = x^(l mod 2) * LegEven(l, x^2)
LegEven(l, x2) == RMulG(FacRat(LegScaleF(l)), LegHorner(l, 0, x2, <<0, 1>>))
LegAt(l, x)    == LET e == LegEven(l, RMul(x, x)) IN IF l % 2 = 0 THEN e ELSE RMul(x, e)

\* ---------------------------------------------------------------- Wigner 3-j  (l l l; m1 m2 m3), Racah's formula
\*  = (-1)^m3 sqrt( (l!)^3/(3l+1)! prod_i (l+m_i)!(l-m_i)! ) sum_t (-1)^t / X(t)
\*  X(t) = t! (t+m1)! (t-m2)! (l-t)! (l-t-m1)! (l-t+m2)!
W3jIndex(l) == {mm \in [1..3 -> (0 - l)..l] : mm[1] + mm[2] + mm[3] = 0}
W3jTs(l, m1, m2) == {t \in 0..l : t + m1 >= 0 /\ t - m2 >= 0 /\ l - t - m1 >= 0 /\ l - t + m2 >= 0}
W3jX(l, m1, m2, t) == FacMul(FacMul3(FacFact(t), FacFact(t + m1), FacFact(t - m2)),
                          FacMul3(FacFact(l - t), FacFact(l - t - m1), FacFact(l - t + m2)))
W3jPref2(l, m1, m2, m3) ==
  FacDiv(FacMul(FacPow(FacFact(l), 3),
            FacMul(FacMul3(FacFact(l + m1), FacFact(l - m1), FacFact(l + m2)),
                 FacMul3(FacFact(l - m2), FacFact(l + m3), FacFact(l - m3)))),
       FacFact(3 * l + 1))
W3jTerm(l, m1, m2, m3) ==
  LET ts == SortedSeq(W3jTs(l, m1, m2))
  IN  Mul(<<I(SSgn(ShAbs(m3))), Sqrt(ShFQ(1, W3jPref2(l, m1, m2, m3))),
            Add([j \in 1..Len(ts) |-> ShFQ(SSgn(ts[j]), FacDiv(FacOne, W3jX(l, m1, m2, ts[j])))])>>)
\* Racah sum modulo p (for the orthogonality check)
RECURSIVE ShSumModSet(_, _, _, _, _)
ShSumModSet(l, m1, m2, T, p) ==
  IF T = {} THEN 0
  ELSE LET t == CHOOSE x \in T : TRUE
           v == FacMod(FacDiv(FacOne, W3jX(l, m1, m2, t)), p)
       IN  (ShSumModSet(l, m1, m2, T \ {t}, p) + (IF t % 2 = 0 THEN v ELSE p - v)) % p
W3jSqMod(l, m1, m2, m3, p) ==
  LET s == ShSumModSet(l, m1, m2, W3jTs(l, m1, m2), p)
  IN  (FacMod(W3jPref2(l, m1, m2, m3), p) * ((s * s) % p)) % p
RECURSIVE ShSumOverM1(_, _, _, _)
ShSumOverM1(l, m3, M, p) ==       \* sum over m1 in M of (l l l; m1, -m3-m1, m3)^2
  IF M = {} THEN 0
  ELSE LET m1 == CHOOSE x \in M : TRUE
       IN  (ShSumOverM1(l, m3, M \ {m1}, p) + W3jSqMod(l, m1, 0 - m3 - m1, m3, p)) % p
\* orthogonality: (2l+1) sum_{m1,m2} (l l l; m1 m2 m3)^2 = 1 for every m3
W3jOrthogonal(l, p) ==
  \A m3 \in (0 - l)..l :
    LET M == {m1 \in (0 - l)..l : ShAbs(0 - m3 - m1) <= l}
    IN  (((2 * l + 1) % p) * ShSumOverM1(l, m3, M, p)) % p = 1

\* ---------------------------------------------------------------- table invariants
\* Q_lm primitive with positive leading coefficient
Primitive(l) == \A m \in 0..l :
  /\ FacGcdSet({QCoefF(l, m, k) : k \in 0..KMax(l, m)}) = FacOne
  /\ \A k \in 0..KMax(l, m) : FacIsInt(QCoefF(l, m, k))
  /\ QSgn(0) = 1
\* Q_lm(-x) = (-1)^(l-m) Q_lm(x): only powers of the parity of l-m, strictly decreasing, degree l-m
Parity(l) == \A m \in 0..l : \A k \in 0..KMax(l, m) :
  /\ QPow(l, m, k) >= 0 /\ QPow(l, m, k) % 2 = (l - m) % 2
  /\ QPow(l, m, 0) = l - m
  /\ k > 0 => QPow(l, m, k) < QPow(l, m, k - 1)
\* independent closed form of the sectorial harmonic: Y_ll = (-1)^l/(2^l l!) sqrt((2l+1)!/(4 pi)) sin^l e^{i l phi}
Sectorial(l) ==
  /\ BF(l, l) = FacDiv(FacFact(2 * l + 1), FacMul(FacPow(FacFact(l), 2), FacPow(FacInt(2), 2 * l + 2)))
  /\ KMax(l, l) = 0 /\ QCoefF(l, l, 0) = FacOne
\* m -> -m: same B and Q, sign (-1)^m relative to the conjugate
NegMSymmetric(l) == \A m \in 1..l :
  /\ TabSgn(0 - m) * SSgn(m) = TabSgn(m)
  /\ YTheta(l, 0 - m) = Mul2(I(SSgn(m)), YTheta(l, m))
  /\ YPhi(0 - m) = Conj(YPhi(m))
OrderOK(l) == /\ Len(MOrder(l)) = 2 * l + 1 /\ MOrder(l)[1] = 0 - l /\ MOrder(l)[2 * l + 1] = l
              /\ \A k \in 1..(2 * l) : MOrder(l)[k + 1] = MOrder(l)[k] + 1

\* Q_lm(x) mod p.  The coefficient vector of a row is computed once (TLCEval forces the function).
QVecMod(l, m, p) ==
  LET g == Content(l, m)
  IN  TLCEval([k \in 0..KMax(l, m) |-> FacMod(FacDiv(CoefF(l, m, k), g), p)])
RECURSIVE QEvalMod(_, _, _, _, _, _)
QEvalMod(vec, l, m, k, x, p) ==
  IF k > KMax(l, m) THEN 0
  ELSE LET c == (vec[k] * ShPowMod(x, QPow(l, m, k), p)) % p
       IN  ((IF k % 2 = 0 THEN c ELSE (p - c) % p) + QEvalMod(vec, l, m, k + 1, x, p)) % p
\* D_lm = d^m P_l / dx^m as a record of its scale and coefficient vector mod p (zero polynomial for m > l)
DRowMod(l, m, p) == IF m > l THEN [z |-> TRUE]
                    ELSE [z |-> FALSE, sc |-> FacMod(DScaleF(l, m), p), vec |-> QVecMod(l, m, p)]
DEvalMod(row, l, m, x, p) == IF row.z THEN 0 ELSE (row.sc * QEvalMod(row.vec, l, m, 0, x, p)) % p

\* Unsold: sum_{m=-l..l} |Y_lm|^2 = (2l+1)/(4 pi), i.e.
\*   B_l0 Q_l0^2 + 2 sum_{m>=1} B_lm (1-x^2)^m Q_lm^2 = (2l+1)/4  as a polynomial of degree 2l:
\* checked at 2l+1 points modulo p (hence as a polynomial identity modulo p)
RECURSIVE UnsoldSumMod(_, _, _, _, _, _)
UnsoldSumMod(vecs, bs, l, m, x, p) ==
  IF m > l THEN 0
  ELSE LET q  == QEvalMod(vecs[m], l, m, 0, x, p)
           w  == ShPowMod((p + 1 - ((x * x) % p)) % p, m, p)
           t  == (((bs[m] * w) % p) * ((q * q) % p)) % p
       IN  ((IF m = 0 THEN t ELSE (2 * t) % p) + UnsoldSumMod(vecs, bs, l, m + 1, x, p)) % p
UnsoldMod(l, p) ==
  LET vecs == TLCEval([m \in 0..l |-> QVecMod(l, m, p)])
      bs   == TLCEval([m \in 0..l |-> FacMod(BF(l, m), p)])
      rhs  == (((2 * l + 1) % p) * ShInvMod(4, p)) % p
  IN  \A x \in 2..(2 * l + 2) : UnsoldSumMod(vecs, bs, l, 0, x, p) = rhs

\* Bonnet recurrence differentiated m times:  (l-m+1) D_{l+1,m} = (2l+1) x D_{l,m} - (l+m) D_{l-1,m}
\* relates three separately derived rows of the table; checked at l+3 points (degree <= l+1-m) modulo p
BonnetMod(l, p) == l >= 1 => \A m \in 0..l :
  LET up == DRowMod(l + 1, m, p)
      md == DRowMod(l, m, p)
      dn == DRowMod(l - 1, m, p)
  IN  \A x \in 2..(l + 4) :
        ((l - m + 1) * DEvalMod(up, l + 1, m, x, p)) % p
          = ((((((2 * l + 1) * x) % p) * DEvalMod(md, l, m, x, p)) % p)
             + p - (((l + m) * DEvalMod(dn, l - 1, m, x, p)) % p)) % p
LegendreAtOneMod(l, p) == DEvalMod(DRowMod(l, 0, p), l, 0, 1, p) = 1

\* exact Unsold identity with rational polynomial arithmetic (small l): polynomials as functions 0..deg -> rational
ShPZero(deg)      == [i \in 0..deg |-> <<0, 1>>]
ShPAdd(a, b, deg) == [i \in 0..deg |-> RAdd(a[i], b[i])]
ShPScale(c, a, deg) == [i \in 0..deg |-> RMul(c, a[i])]
RECURSIVE ShConvSum(_, _, _, _)
ShConvSum(a, b, i, j) == IF j > i THEN <<0, 1>> ELSE RAdd(RMul(a[j], b[i - j]), ShConvSum(a, b, i, j + 1))
ShPMul(a, b, deg) == [i \in 0..deg |-> ShConvSum(a, b, i, 0)]      \* truncated at deg (operands padded to deg)
RECURSIVE ShPPow(_, _, _)
ShPPow(a, e, deg) == IF e = 0 THEN [i \in 0..deg |-> IF i = 0 THEN <<1, 1>> ELSE <<0, 1>>]
                   ELSE ShPMul(a, ShPPow(a, e - 1, deg), deg)
QPolyExact(l, m, deg) ==
  [i \in 0..deg |-> IF i <= l - m /\ (l - m - i) % 2 = 0
                    THEN LET k == (l - m - i) \div 2 IN <<QSgn(k) * FacVal(QCoefF(l, m, k)), 1>>
                    ELSE <<0, 1>>]
OneMinusX2(deg) == [i \in 0..deg |-> IF i = 0 THEN <<1, 1>> ELSE IF i = 2 THEN <<0 - 1, 1>> ELSE <<0, 1>>]
RECURSIVE UnsoldPoly(_, _, _)
UnsoldPoly(l, m, deg) ==
  IF m > l THEN ShPZero(deg)
  ELSE LET q == QPolyExact(l, m, deg)
           t == ShPScale(RMul(FacRat(BF(l, m)), <<IF m = 0 THEN 1 ELSE 2, 1>>),
                       ShPMul(ShPPow(OneMinusX2(deg), m, deg), ShPMul(q, q, deg), deg), deg)
       IN  ShPAdd(t, UnsoldPoly(l, m + 1, deg), deg)
UnsoldExact(l) ==
  LET deg == 2 * l
      u   == UnsoldPoly(l, 0, deg)
  IN  \A i \in 0..deg : u[i] = (IF i = 0 THEN RNorm(2 * l + 1, 4) ELSE <<0, 1>>)
=============================================================================
