---------------------------- MODULE MC_PairHist ----------------------------
(***************************************************************************)
(* Models for property C03.  Mode selects the scope:                        *)
(*  "classifier"  one state per species count K = 1..7: the species-pair   *)
(*                -> column classification                                 *)
(*  "lattice"     exhaustive: 3 particles on a 4 x 4 sub-lattice of an     *)
(*                8 x 8 cell (orthogonal and triclinic), every species     *)
(*                assignment of 1-2 species, 3 bin widths, all masks       *)
(*  "hash"        a product of species counts 1..6 x dimensions x cells x  *)
(*                masks x frame counts x widths x sizes with positions     *)
(*                from a deterministic hash (half-integer coordinates, in  *)
(*                and outside the box); two-frame members with an even     *)
(*                species count are sheared between the frames, those with *)
(*                3 | K have their species labels rotated                  *)
(*  "trace"       configurations recorded by the harness (direction B)     *)
(* In every state the C03 clauses are INVARIANTs; with Gen = TRUE the case *)
(* (counts, tie counts, normalisation and shell terms) is printed.         *)
(***************************************************************************)
EXTENDS PairHist, Json, IOUtils

CONSTANTS Tier, Mode, Gen, SHARD, NSHARDS,
          SAMPLE, SALT      \* lattice mode: emit the states whose key is SALT modulo SAMPLE (1, 0: all)

VARIABLES c
vars == <<c>>

Tri2(a, t, b) == << <<a, 0>>, <<t, b>> >>
Tri3(a, b, cc, xy, xz, yz) == << <<a, 0, 0>>, <<xy, b, 0>>, <<xz, yz, cc>> >>

\* ------------------------------------------------------------- lattice
LatCells == {Tri2(8, 0, 8), Tri2(8, 3, 8)}
LatSites == {<<x, y>> : x \in {0, 2, 4, 6}, y \in {0, 2, 4, 6}}
LatTypes == {<<1, 1, 1>>, <<1, 1, 2>>, <<1, 2, 1>>, <<2, 1, 1>>, <<1, 2, 2>>, <<2, 1, 2>>, <<2, 2, 1>>}
LatConfigs ==
  { [H |-> h, ppp |-> p, S |-> 1, types |-> t, frames |-> << <<p1, p2, p3>> >>, wn |-> w, sharp |-> 1] :
      h \in LatCells, p \in [1..2 -> {0, 1}], t \in LatTypes,
      p1 \in {<<0, 0>>, <<1, 1>>}, p2 \in LatSites, p3 \in LatSites, w \in {1, 2, 3} }

\* ------------------------------------------------------------- hash
Cells2 == << Tri2(16, 0, 16), Tri2(16, 0, 12), Tri2(16, 5, 12), Tri2(16, 0 - 6, 16) >>
Cells3 == << Tri3(8, 8, 8, 0, 0, 0), Tri3(8, 12, 8, 0, 0, 0), Tri3(8, 8, 8, 3, 0 - 2, 1), Tri3(12, 8, 8, 0 - 5, 3, 0 - 3) >>
MasksOf(d) == IF d = 2 THEN << <<1, 1>>, <<0, 0>>, <<1, 0>> >> ELSE << <<1, 1, 1>>, <<0, 0, 0>>, <<0, 1, 1>> >>
P == 46337
Scr(x) == ((x % P) * (x % P) + 3 * (x % P) + 7) % P
Hash(seed, f, i, k) == Scr(Scr(7919 * seed + 4733 * f + 3571 * i + 2909 * k) + seed)
\* positions between -L/2 and 3L/2 along each axis (scaled by 2: half-integer coordinates)
HPos(seed, f, i, k, L) == (Hash(seed, f, i, k) % (2 * L)) - (L \div 2)
HTypes(seed, n, K) == [i \in 1..n |-> IF i <= K THEN i ELSE 1 + (Scr(seed + 31 * i) % (1 + (Scr(seed + i) % K)))]
Reps == IF Tier = "quick" THEN 1 ELSE 6
NHash == 6 * 2 * 4 * 3 * 2 * 2 * 2 * Reps
HashConfig(s) ==
  LET K   == 1 + (s % 6)
      d   == 2 + ((s \div 6) % 2)
      ci  == 1 + ((s \div 12) % 4)
      mi  == 1 + ((s \div 48) % 3)
      nf  == 1 + ((s \div 144) % 2)
      wi  == (s \div 288) % 2
      ni  == (s \div 576) % 2
      h   == IF d = 2 THEN Cells2[ci] ELSE Cells3[ci]
      n   == IF ni = 0 THEN K + 2 ELSE K + 5
      Lk(k) == h[k][k]
      ty  == HTypes(s, n, K)
      \* two-frame members: for even K the second frame is sheared (tilts changed at constant edge lengths),
      \* for K divisible by 3 the species labels are rotated by one particle in the second frame
      h2  == [k \in 1..d |-> [j \in 1..d |-> IF j < k THEN h[k][j] + (IF (k + j) % 2 = 1 THEN 3 ELSE 0 - 2) ELSE h[k][j]]]
      base == [ H |-> h, ppp |-> MasksOf(d)[mi], S |-> 2, types |-> ty,
                frames |-> [f \in 1..nf |-> [i \in 1..n |-> [k \in 1..d |-> HPos(s, f, i, k, Lk(k))]]],
                wn |-> (IF wi = 0 THEN 1 ELSE 3), sharp |-> (IF DyadicCell(h) THEN 1 ELSE 0) ]
      withH == IF nf = 2 /\ K % 2 = 0 THEN base @@ [Hs |-> <<h, h2>>] ELSE base
      \* two-frame members with the coarser bin width: both frames carry the SAME timestep label
      withT == IF nf = 2 /\ wi = 1 THEN withH @@ [ts |-> <<100, 100>>] ELSE withH
  IN  IF nf = 2 /\ K % 3 = 0 THEN withT @@ [tys |-> <<ty, [i \in 1..n |-> ty[(i % n) + 1]]>>] ELSE withT

\* ------------------------------------------------------------- LatticeLemma
\* on small coloured lattices the linear shortcut PairHist!HistLat equals the pair loop PairHist!Hist
SmallLat(n, a, wn, colour) ==
  LET d  == Len(n)
      N  == ProdSeq(n)
      ix == [m \in 1..N |-> LatIndex(n, m)]
  IN  [ H |-> [k \in 1..d |-> [j \in 1..d |-> IF j = k THEN n[k] * a ELSE 0]], ppp |-> [k \in 1..d |-> 1], S |-> 10,
        types |-> [m \in 1..N |-> LatColour(colour, ix[m])],
        frames |-> << [m \in 1..N |-> [k \in 1..d |-> a * ix[m][k]]] >>, wn |-> wn, sharp |-> 0,
        lat |-> [n |-> n, a |-> a, colour |-> colour] ]
SmallLats == { SmallLat(<<3, 3>>, 10, 7, "one"), SmallLat(<<3, 5>>, 10, 7, "one"), SmallLat(<<5, 4>>, 4, 3, "one"),
               SmallLat(<<4, 4>>, 10, 7, "checker"), SmallLat(<<4, 6>>, 10, 11, "checker"), SmallLat(<<4, 4>>, 10, 10, "checker"),
               SmallLat(<<3, 3, 3>>, 10, 7, "one"), SmallLat(<<4, 4, 4>>, 10, 7, "checker"), SmallLat(<<2, 4, 4>>, 10, 4, "checker") }
\* (evaluated once per check: in the single TLC run of mode "classifier")
ASSUME LatticeLemma ==
  Mode # "classifier" \/ \A lc \in SmallLats :
     /\ IsTypedLattice(lc)
     /\ LET a == HistLat(lc) b == Hist(lc) IN
        /\ a.base = b.base /\ a.tie = b.tie /\ a.nt = b.nt
        /\ (ProdSeq(lc.lat.n) # 32) => \E q \in 1..Len(b.base) : \E k \in 1..NBins(lc) : b.base[q][k] + b.tie[q][k] > 0
     /\ ~IsTypedLattice([lc EXCEPT !.frames[1][1] = lc.frames[1][2]])         \* a site twice, one missing
     /\ ~IsTypedLattice([lc EXCEPT !.types[1] = 3 - lc.types[1]])              \* a colour that breaks the invariance
     /\ ~IsTypedLattice([lc EXCEPT !.ppp[1] = 0])                              \* an open boundary

\* ------------------------------------------------------------- trace (direction B)
Tr == IF Mode = "trace" THEN ndJsonDeserialize(IOEnv.TRACE_FILE) ELSE << >>

Init ==
  \/ /\ Mode = "classifier"
     /\ c \in {[K |-> k] : k \in 1..7}
     /\ c.K % NSHARDS = SHARD
  \/ /\ Mode = "lattice"
     /\ c \in LatConfigs
     /\ (c.frames[1][2][1] + 3 * c.frames[1][3][2] + 5 * c.frames[1][2][2] + 7 * c.wn) % NSHARDS = SHARD
  \/ /\ Mode = "hash"
     /\ \E s \in 0..(NHash - 1) : s % NSHARDS = SHARD /\ c = ([id |-> s] @@ HashConfig(s))
  \/ /\ Mode = "trace"
     /\ \E n \in 1..Len(Tr) : n % NSHARDS = SHARD /\ c = Tr[n]

Next == UNCHANGED vars
Spec == Init /\ [][Next]_vars

IsConfig == Mode # "classifier"
InvClassifier == (~IsConfig) => EveryPairInExactlyOnePartial(c.K) /\ OnlyTotalAboveFiveSpecies(c.K)
InvPartition  == IsConfig => EveryPairInExactlyOnePartial(NSpecies(c)) /\ OnlyTotalAboveFiveSpecies(NSpecies(c))
InvSumRule    == IsConfig => LET h == HistAuto(c) IN TotalIsCompositionWeightedSum(c, h) /\ CountsSymmetric(c, h)
\* the bin index TLC computes (integer square root, then \div) is the witness k0 of BinLemma.tla, whose partition
\* lemmas are discharged for all integers by Apalache
InvBinIsLemmaBin == (IsConfig /\ NPart(c) <= 60) =>
  \A f \in 1..NFrames(c) : \A i, j \in 1..NPart(c) : i < j =>
    \A dd \in Dist2Set(FrameH(c, f), VSub(c.frames[f][j], c.frames[f][i]), c.ppp) :
      LET k == ISqrt2(dd) \div c.wn IN (k * c.wn) * (k * c.wn) <= dd /\ dd < ((k + 1) * c.wn) * ((k + 1) * c.wn)
InvTypes      == IsConfig => Species(c) = 1..NSpecies(c) /\ PerFrameOK(c)

LatKey == LET f == c.frames[1] IN
  f[2][1] + 5 * f[2][2] + 11 * f[3][1] + 17 * f[3][2] + 23 * f[1][1] + 29 * c.wn + 31 * c.ppp[1] + 37 * c.ppp[2]
         + 41 * c.H[2][1] + 43 * (c.types[1] + 2 * c.types[2] + 4 * c.types[3])
Selected == Mode # "lattice" \/ LatKey % SAMPLE = SALT % SAMPLE
Emit == (Gen /\ IsConfig /\ Selected) => PrintT(ToJson(Case(c) @@ (IF "id" \in DOMAIN c THEN [id |-> c.id] ELSE [id |-> 0 - 1])))
=============================================================================
