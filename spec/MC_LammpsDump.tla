--------------------------- MODULE MC_LammpsDump ---------------------------
(***************************************************************************)
(* Model for property C01: the dump reader as a state machine.             *)
(* A behaviour = one file: Init builds 1..3 physical frames from the scope *)
(* index and encodes them with the LAMMPS writer convention; every         *)
(* ReadFrame action consumes exactly one frame at the cursor.              *)
(* Scope: ndim {2,3} x style {x,xs,xu} x {orthogonal, triclinic with every *)
(* sign pattern of the tilts} x 3 origins x N in 1..3 with ALL line orders *)
(* (+ two ends-fixed orders for N = 4), timesteps increasing / repeated /   *)
(* decreasing                                                              *)
(* x 0..2 trailing columns x 1..3 frames; coordinates from a per-style     *)
(* catalogue (inside, on the faces, < 1 box outside for x, several boxes   *)
(* away for xu).                                                           *)
(***************************************************************************)
EXTENDS LammpsDump, Json

CONSTANTS Tier, Gen, SHARD, NSHARDS, SAMPLE, SALT

VARIABLES st
vars == <<st>>

\* all line orders for N <= 3, and for N = 4 the two orders that keep the first and last line in place
\* (resp. exchanged) while the interior is permuted ("looks sorted at both ends")
Perms == << <<1>>, <<1, 2>>, <<2, 1>>, <<1, 2, 3>>, <<1, 3, 2>>, <<2, 1, 3>>, <<2, 3, 1>>, <<3, 1, 2>>, <<3, 2, 1>>,
            <<1, 3, 2, 4>>, <<2, 4, 1, 3>> >>
NPerms == 11
\* timestep of frame f: increasing, or repeated by consecutive frames (1,1,2), or decreasing
TsStep(s, f) == IF s % 4 = 1 THEN (f + 1) \div 2 ELSE IF s % 4 = 3 THEN 4 - f ELSE f
Tilts2 == << <<0, 0, 0>>, <<120, 0, 0>>, <<0 - 120, 0, 0>> >>
Tilts3 == << <<0, 0, 0>>,
             <<80, 100, 40>>, <<80, 100, 0 - 140>>, <<80, 0 - 60, 40>>, <<80, 0 - 60, 0 - 140>>,
             <<0 - 120, 100, 40>>, <<0 - 120, 100, 0 - 140>>, <<0 - 120, 0 - 60, 40>>, <<0 - 120, 0 - 60, 0 - 140>> >>
Origins == << <<0, 0, 0>>, <<0 - 400, 0 - 160, 0 - 80>>, <<25, 0 - 333, 7>> >>
Styles == <<"x", "xs", "xu">>

P0 == 46337
Scr(x) == ((x % P0) * (x % P0) + 3 * (x % P0) + 7) % P0
Hash(a, b, c, d) == Scr(Scr(7919 * a + 4733 * b + 3571 * c + 2909 * d) + a)

\* coordinate catalogue along one axis with origin lo and length len
Coord(style, tri, lo, len, h) ==
  IF style = "xs" THEN h % SD
  ELSE IF style = "xu" THEN << lo + len \div 4, lo - 2 * len - 3, lo + 4 * len + 1, lo + len - 1 >>[1 + (h % 4)]
  ELSE IF tri = 1 THEN << lo + len \div 4, lo + (3 * len) \div 4, lo + 1 >>[1 + (h % 3)]
  ELSE << lo + len \div 4, lo - len \div 8, lo + len + len \div 8, lo, lo + len, lo + (3 * len) \div 4,
          lo - len + 1, lo + 2 * len - 1 >>[1 + (h % 8)]

NConf2 == 3 * 3 * 3 * NPerms * 3 * 3
NConf3 == 3 * 9 * 3 * NPerms * 3 * 3
NConf  == NConf2 + NConf3
Frame(s, ndim, si, ti, oi, pi, ex, f) ==
  LET tilt == IF ndim = 2 THEN Tilts2[ti] ELSE Tilts3[ti]
      tri  == IF ti = 1 THEN 0 ELSE 1
      lo0  == Origins[oi]
      lo   == IF ndim = 2 THEN <<lo0[1], lo0[2], 0 - 50>> ELSE lo0
      len  == IF ndim = 2 THEN <<800 + 4 * f, 640 + 8 * f, 100>> ELSE <<800 + 4 * f, 640 + 8 * f, 480 + 12 * f>>
      ord  == Perms[pi]
      n    == Len(ord)
  IN  [ ts |-> 1000 * TsStep(s, f) + ((7 * s) % 1000), ndim |-> ndim, style |-> Styles[si], tri |-> tri, lo |-> lo, L |-> len, tilt |-> tilt,
        atoms |-> [id \in 1..n |-> [type |-> 1 + (Hash(s, f, id, 9) % 2),
                                    co |-> [k \in 1..3 |-> Coord(Styles[si], tri, lo[k], len[k], Hash(s, f, id, k))]]],
        order |-> (IF (f % 2) = 0 THEN [m \in 1..n |-> ord[n + 1 - m]] ELSE ord), extra |-> ex ]
Frames(s) ==
  LET two == s < NConf2
      r   == IF two THEN s ELSE s - NConf2
      nt  == IF two THEN 3 ELSE 9
      si  == 1 + (r % 3)
      ti  == 1 + ((r \div 3) % nt)
      oi  == 1 + ((r \div (3 * nt)) % 3)
      pi  == 1 + ((r \div (9 * nt)) % NPerms)
      ex  == (r \div (9 * NPerms * nt)) % 3
      nf  == 1 + ((r \div (27 * NPerms * nt)) % 3)
  IN  [f \in 1..nf |-> Frame(s, IF two THEN 2 ELSE 3, si, ti, oi, pi, ex, f)]

Init ==
  \E s \in 0..(NConf - 1) :
    /\ s % NSHARDS = SHARD
    /\ LET Ps == Frames(s) IN
       st = [id |-> s, Ps |-> Ps, lines |-> EncodeAll(Ps), ndim |-> Ps[1].ndim, cur |-> 0, out |-> << >>]

\* linearization point: return of one read of a frame from the open file
ReadFrame ==
  /\ st.cur < Len(st.lines)
  /\ LET r == Parse(st.lines, st.cur, st.ndim) IN
     st' = [st EXCEPT !.cur = r.next, !.out = Append(@, r.snap)]
Next == ReadFrame
Spec == Init /\ [][Next]_vars

InvFramesInOrder == st.out = [k \in 1..Len(st.out) |-> Meaning(st.Ps[k])]
InvCursor        == st.cur = SumSeq([k \in 1..Len(st.out) |-> FrameLen(NAtoms(st.Ps[k]))])
InvAllFrames     == st.cur >= Len(st.lines) => (st.cur = Len(st.lines) /\ Len(st.out) = Len(st.Ps))
InvRoundTrip     == \A k \in 1..Len(st.Ps) : RoundTrip(st.Ps[k])
InvWrapped       == \A k \in 1..Len(st.Ps) : WrappedInside(st.Ps[k])
InvCell          == \A k \in 1..Len(st.Ps) : HMatrixIsCell(st.Ps[k])
\* the row-wise (linear) formulation used for large frames gives the verdict of the per-id formulation: on the correct
\* snapshot, and on snapshots in which two atoms exchanged their types / their positions or one coordinate moved
ObsOf(k) == Meaning(st.Ps[k]) @@ [exact |-> 1]
SwapTypes(o) == IF o.n < 2 THEN o ELSE [o EXCEPT !.types = [@ EXCEPT ![1] = o.types[o.n], ![o.n] = o.types[1]]]
SwapPos(o)   == IF o.n < 2 THEN o ELSE [o EXCEPT !.pos = [@ EXCEPT ![1] = o.pos[o.n], ![o.n] = o.pos[1]]]
MovePos(o)   == [o EXCEPT !.pos[o.n][1] = @ + 1]
InvRowwiseAgrees ==
  \A k \in 1..Len(st.Ps) :
    LET cur0 == SumSeq([j \in 1..(k - 1) |-> FrameLen(NAtoms(st.Ps[j]))])
        exp  == Parse(st.lines, cur0, st.ndim).snap
    IN  /\ NextCur(st.lines, cur0) = Parse(st.lines, cur0, st.ndim).next
        /\ \A o \in {ObsOf(k), SwapTypes(ObsOf(k)), SwapPos(ObsOf(k)), MovePos(ObsOf(k)), [ObsOf(k) EXCEPT !.ts = @ + 1]} :
              WhySnapshotRows(o, st.lines, cur0, st.ndim) = WhySnapshot(o, exp)
CursorAdvances   == [][st'.cur > st.cur /\ Len(st'.out) = Len(st.out) + 1]_vars

Selected == st.id % SAMPLE = SALT % SAMPLE
Emit == (Gen /\ st.cur = 0 /\ Selected) =>
          PrintT(ToJson([id |-> st.id, ndim |-> st.ndim, lines |-> st.lines, nframes |-> Len(st.Ps),
                         style |-> st.Ps[1].style, tri |-> st.Ps[1].tri]))
=============================================================================
