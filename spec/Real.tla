-------------------------------- MODULE Real --------------------------------
(***************************************************************************)
(* Deep embedding of real / complex expressions as terms.                  *)
(*                                                                         *)
(* TLC cannot evaluate pi, sqrt, exp, cos.  The specification therefore    *)
(* *states* every real-valued observable as a term whose leaves are exact  *)
(* rationals decided by TLC; harness/realeval.py (generic, no domain       *)
(* knowledge) evaluates terms in floating point.  ToJson serialises a term *)
(* as nested arrays, e.g. ["div",["q",3,4],["pi"]].                        *)
(***************************************************************************)
EXTENDS Integers, Sequences

Q(n, d)      == <<"q", n, d>>          \* rational n/d
I(n)         == <<"q", n, 1>>
QR(r)        == <<"q", r[1], r[2]>>    \* from an Exact rational <<n,d>>
Pi           == <<"pi">>
Add(ts)      == <<"add", ts>>          \* ts : sequence of terms
Mul(ts)      == <<"mul", ts>>
Add2(a, b)   == <<"add", <<a, b>>>>
Sub(a, b)    == <<"add", <<a, <<"neg", b>>>>>>
Mul2(a, b)   == <<"mul", <<a, b>>>>
Mul3(a, b, c) == <<"mul", <<a, b, c>>>>
Div(a, b)    == <<"div", a, b>>
Neg(a)       == <<"neg", a>>
Sqrt(a)      == <<"sqrt", a>>
PowI(a, n)   == <<"powi", a, n>>       \* integer power
PowT(a, b)   == <<"powt", a, b>>       \* a ^ b, both terms (a > 0)
Exp(a)       == <<"exp", a>>
Log(a)       == <<"log", a>>
Cos(a)       == <<"cos", a>>
Sin(a)       == <<"sin", a>>
Cplx(re, im) == <<"cplx", re, im>>
Conj(a)      == <<"conj", a>>
Re(a)        == <<"re", a>>
Im(a)        == <<"im", a>>
Abs2(a)      == <<"abs2", a>>
AbsT(a)      == <<"abs", a>>
Zeta(k, M)   == <<"zeta", k, M>>       \* exp(2 pi i k / M)
Var(name)    == <<"var", name>>        \* free variable bound by the harness
XLogX(a)     == <<"xlogx", a>>         \* a ln a, continued by its limit 0 at a = 0
Trapz(xs, ys) == <<"trapz", xs, ys>>   \* trapezoid rule over the sequences of abscissae xs and ordinates ys
Acos(a)      == <<"acos", a>>          \* arccos in [0, pi]; not-a-number outside [-1, 1] (X01: triangle_angle)
NaNT         == <<"nan">>              \* "not a number": the documented formula has no value here (X01)
=============================================================================
