------------------------------ MODULE Neighbors ------------------------------
(***************************************************************************)
(* Neighbour lists and the neighbour-list file (property C05; the file     *)
(* semantics are used by every consumer of neighbour files).               *)
(*                                                                         *)
(* Configuration record c: H, ppp, S, types, frames, sharp as in PairHist. *)
(*                                                                         *)
(* Candidates of particle i in frame f: every j # i with its exact squared *)
(* minimum-image distance.  Equal distances form a TIE GROUP; any order    *)
(* inside a group is admissible.  A row is AMBIGUOUS (not asserted) when a *)
(* triclinic half-cell tie makes some distance two-valued or when another  *)
(* particle coincides with i.                                              *)
(*                                                                         *)
(* Expected list of one particle = [sure, maybe, take]:                    *)
(*   sure   sequence of groups (sets of ids) in order of increasing d      *)
(*   maybe  ids that may follow (distance exactly on the cut-off where the *)
(*          comparison is float-fragile)                                   *)
(*   take   -1: the list is all of sure (+ any of maybe);                  *)
(*          N >= 0: the list is the first N entries of a linearisation     *)
(***************************************************************************)
EXTENDS PairHist

\* The distance table of one frame, evaluated once (TLCEval forces the lazy function):
\* T[i][j] = set of admissible squared minimum-image distances ({0} on the diagonal)
D2Set(c, f, i, j) == Dist2Set(FrameH(c, f), VSub(c.frames[f][j], c.frames[f][i]), c.ppp)   \* the cell of frame f (PairHist!FrameH)
DT(c, f) == TLCEval([i \in 1..NPart(c) |-> [j \in 1..NPart(c) |-> IF i = j THEN {0} ELSE D2Set(c, f, i, j)]])
OthersT(T, i)    == (1..Len(T)) \ {i}
AmbiguousT(T, i) == \E j \in OthersT(T, i) : Cardinality(T[i][j]) > 1 \/ 0 \in T[i][j]
Dv(T, i, j)      == CHOOSE x \in T[i][j] : TRUE
RowAmbiguous(c, f, i) == AmbiguousT(DT(c, f), i)

\* groups of the ids in J by increasing distance from i
GroupsOf(T, i, J) ==
  LET vals == SortedSeq({Dv(T, i, j) : j \in J})
  IN  [k \in 1..Len(vals) |-> {j \in J : Dv(T, i, j) = vals[k]}]

\* ---- the three neighbour definitions ----------------------------------
NNExpected(T, i, n) ==
  [sure |-> GroupsOf(T, i, OthersT(T, i)), maybe |-> {}, take |-> n]

\* global cut-off rn (scaled units): d <= rn, boundary inclusive
CutExpected(T, sharp, i, rn) ==
  LET inside == {j \in OthersT(T, i) : Dv(T, i, j) < rn * rn}
      onb    == {j \in OthersT(T, i) : Dv(T, i, j) = rn * rn}
  IN  IF sharp = 1
      THEN [sure |-> GroupsOf(T, i, inside \cup onb), maybe |-> {}, take |-> 0 - 1]
      ELSE [sure |-> GroupsOf(T, i, inside), maybe |-> onb, take |-> 0 - 1]

\* type-pair cut-offs: R[a][b] applies to a centre of type a and a neighbour of type b
CutTypeExpected(T, types, sharp, i, R) ==
  LET rc(j)  == R[types[i]][types[j]]
      inside == {j \in OthersT(T, i) : Dv(T, i, j) < rc(j) * rc(j)}
      onb    == {j \in OthersT(T, i) : Dv(T, i, j) = rc(j) * rc(j)}
  IN  IF sharp = 1
      THEN [sure |-> GroupsOf(T, i, inside \cup onb), maybe |-> {}, take |-> 0 - 1]
      ELSE [sure |-> GroupsOf(T, i, inside), maybe |-> onb, take |-> 0 - 1]

ExpectedT(T, types, sharp, i, op) ==
  IF op.kind = "nn" THEN NNExpected(T, i, op.n)
  ELSE IF op.kind = "cut" THEN CutExpected(T, sharp, i, op.rn)
  ELSE CutTypeExpected(T, types, sharp, i, op.R)

\* ---- acceptance of an observed list -------------------------------------
GroupSizes(sure) == [k \in 1..Len(sure) |-> Cardinality(sure[k])]
Offsets(sure)    == [k \in 1..Len(sure) |-> SumSeq(SubSeq(GroupSizes(sure), 1, k - 1))]
Seg(lst, a, b)   == {lst[p] : p \in a..b}
NoDup(lst)       == Cardinality(Range(lst)) = Len(lst)
AllOf(sure)      == UNION Range(sure)

MembersOK(lst, e) ==
  IF e.take < 0
  THEN AllOf(e.sure) \subseteq Range(lst) /\ Range(lst) \subseteq (AllOf(e.sure) \cup e.maybe)
  ELSE LET off == Offsets(e.sure)
           full == UNION {e.sure[k] : k \in {k \in 1..Len(e.sure) : off[k] + Cardinality(e.sure[k]) <= e.take}}
           upto == UNION {e.sure[k] : k \in {k \in 1..Len(e.sure) : off[k] < e.take}}
       IN  Len(lst) = e.take /\ full \subseteq Range(lst) /\ Range(lst) \subseteq upto

OrderOK(lst0, e) ==
  \* boundary ("maybe") entries are removed first: with per-type cut-offs they need not be the farthest
  LET lst == IF e.take < 0 THEN SelectSeq(lst0, LAMBDA x : x \notin e.maybe) ELSE lst0
      off == Offsets(e.sure)
      lim == IF e.take < 0 THEN Len(lst) ELSE Min2(e.take, Len(lst))
  IN  \A k \in 1..Len(e.sure) :
           LET a == off[k] + 1
               b == off[k] + Cardinality(e.sure[k])
           IN  IF b <= lim THEN Seg(lst, a, b) = e.sure[k]
               ELSE IF a <= lim THEN Seg(lst, a, lim) \subseteq e.sure[k]
               ELSE TRUE

\* "" when the observed list of particle i is admissible, else the failing clause
WhyList(i, lst, e) ==
  IF i \in Range(lst) THEN "NoSelf"
  ELSE IF ~NoDup(lst) THEN "NoDuplicates"
  ELSE IF ~MembersOK(lst, e) THEN (IF e.take < 0 THEN "CutoffMembership" ELSE "ExactlyNClosest")
  ELSE IF ~OrderOK(lst, e) THEN "SortedByDistance"
  ELSE ""

\* a canonical admissible list (ids ascending inside a group)
RECURSIVE Flatten(_)
Flatten(gs) == IF gs = << >> THEN << >> ELSE SortedSeq(Head(gs)) \o Flatten(Tail(gs))
Canon(e) == LET all == Flatten(e.sure) IN IF e.take < 0 THEN all ELSE SubSeq(all, 1, Min2(e.take, Len(all)))

(***************************************************************************)
(* The neighbour-list file and its reader.                                 *)
(* A file is a sequence of frames; a frame is a sequence of rows           *)
(* [id, cn, ids] (ids 1-based as written, or integer weights for weight    *)
(* files).  One open handle = a cursor = number of frames consumed.        *)
(***************************************************************************)
RowById(fr, i) == CHOOSE r \in Range(fr) : r.id = i
FrameWellFormed(fr, n) ==           \* every particle once, in id order, cn = number of entries
  /\ Len(fr) = n
  /\ \A p \in 1..n : fr[p].id = p /\ fr[p].cn = Len(fr[p].ids)
MaxCn(fr) == SetMax({fr[p].cn : p \in 1..Len(fr)})

\* what read_neighbors returns for one frame: per particle id the (truncated) coordination
\* number, then the entries (ids shifted to zero-based under a "neighborlist" header),
\* zero-padded; min(max cn, Nmax) + 1 columns
ReadWidth(fr, nmax) == Min2(MaxCn(fr), nmax) + 1
ReadRow(r, nmax, w, shift) ==
  LET cc == Min2(r.cn, nmax)
  IN  [k \in 1..w |-> IF k = 1 THEN cc
                      ELSE IF k - 1 <= cc THEN r.ids[k - 1] - shift
                      ELSE 0]
ReadFrame(fr, n, nmax, shift) ==
  [i \in 1..n |-> ReadRow(RowById(fr, i), nmax, ReadWidth(fr, nmax), shift)]

(***************************************************************************)
(* Model-level clauses of C05 (on the canonical lists).                    *)
(***************************************************************************)
\* E[i] = [e |-> expected list record, l |-> canonical admissible list], evaluated once
ET(T, types, sharp, op) ==
  TLCEval([i \in 1..Len(T) |-> LET e == ExpectedT(T, types, sharp, i, op) IN [e |-> e, l |-> Canon(e)]])
UnambT(T) == {i \in 1..Len(T) : ~AmbiguousT(T, i)}

NoSelf(T, E) == \A i \in UnambT(T) : i \notin Range(E[i].l)

SortedByDistance(T, E) ==
  \A i \in UnambT(T) :
    \A p \in 1..(Len(E[i].l) - 1) : Dv(T, i, E[i].l[p]) <= Dv(T, i, E[i].l[p + 1])

ExactlyNClosest(T, E, op) ==
  op.kind = "nn" =>
    \A i \in UnambT(T) :
      /\ Len(E[i].l) = Min2(op.n, Len(T) - 1)
      /\ \A j \in OthersT(T, i) \ Range(E[i].l) : \A q \in Range(E[i].l) : Dv(T, i, q) <= Dv(T, i, j)

CutoffInclusive(T, E, sharp, op) ==
  (op.kind = "cut" /\ sharp = 1) =>
    \A i \in UnambT(T) : \A j \in OthersT(T, i) :
      (j \in Range(E[i].l)) <=> (Dv(T, i, j) <= op.rn * op.rn)

GlobalCutoffSymmetric(T, E, sharp, op) ==
  (op.kind = "cut" /\ sharp = 1) =>
    \A i, j \in UnambT(T) : i # j => ((j \in Range(E[i].l)) <=> (i \in Range(E[j].l)))

AcceptsCanonical(T, E) == \A i \in UnambT(T) : WhyList(i, E[i].l, E[i].e) = ""

\* a list in which two entries of different groups are exchanged is rejected
RejectsSwap(T, E) ==
  \A i \in UnambT(T) :
    LET l == E[i].l IN
    \A p \in 1..(Len(l) - 1) :
      Dv(T, i, l[p]) < Dv(T, i, l[p + 1]) => WhyList(i, [l EXCEPT ![p] = l[p + 1], ![p + 1] = l[p]], E[i].e) # ""

\* the frame a writer produces from the canonical lists, and what reading it back gives
WrittenFrame(E) == [i \in 1..Len(E) |-> [id |-> i, cn |-> Len(E[i].l), ids |-> E[i].l]]

ReadBackIsWrittenModuloTruncation(T, E, nmax) ==
  (UnambT(T) = 1..Len(T)) =>
    LET n  == Len(T)
        fr == TLCEval(WrittenFrame(E))
        m  == TLCEval(ReadFrame(fr, n, nmax, 1))
        w  == ReadWidth(fr, nmax)
    IN  /\ FrameWellFormed(fr, n)
        /\ \A i \in 1..n :
             LET l == E[i].l IN
             /\ Len(m[i]) = w
             /\ m[i][1] = Min2(Len(l), nmax)
             /\ \A k \in 1..(w - 1) :
                  m[i][k + 1] = IF k <= Min2(Len(l), nmax) THEN l[k] - 1 ELSE 0
=============================================================================
