--------------------------- MODULE MC_Conditional ---------------------------
(***************************************************************************)
(* Models for property C13.  Fam selects the scope ("all" = every family): *)
(*  "gl"  g(r), exhaustive: 3 particles (species 1,2,1) on a 4 x 4         *)
(*        sub-lattice of an 8 x 8 cell, orthogonal and triclinic, 1-2 bin  *)
(*        widths, EVERY assignment of values: non-empty boolean selections,*)
(*        reals -2..2, 5 Gaussian integers, 4 real and 3 complex           *)
(*        2-vectors, 4 symmetric and 3 general 2 x 2 tensors               *)
(*  "gh"  g(r), hashed product: 12 condition kinds x {2-D, 3-D} x 4 cells  *)
(*        (orthogonal / triclinic, dyadic or not) x 3 masks x 3 widths x   *)
(*        2 sizes (N <= 10, 1-5 species), positions (half-integers, in and *)
(*        outside the box) and values from a hash seeded by SEED           *)
(*  "sg"  S(q), exhaustive: 3 particles on the quarter-box lattice (M = 4) *)
(*        of a 4 x 8 box, every assignment of boolean / real / Gaussian /  *)
(*        2-vector values, explicit vector lists                           *)
(*  "sh"  S(q), hashed product: 7 kinds x {2-D, 3-D} x 3 boxes with unequal*)
(*        edges x M in {3,4,5,6,8} x explicit lists and default sets       *)
(* In every state the C13 clauses are INVARIANTs; Emit prints the case.    *)
(***************************************************************************)
EXTENDS Conditional, Json, IOUtils

CONSTANTS Tier, Fam, SEED, SHARD, NSHARDS,
          SAMPLE, SALT      \* exhaustive families: emit the states whose key is SALT modulo SAMPLE

VARIABLES c, o              \* configuration; its pair table and weighted histogram (g(r) families)
vars == <<c, o>>

\* ---- LatticeLemma: on small full lattices the shortcut of Conditional!WHistLat equals the pair loop (the shortcut is then
\* used by the trace specification for lattices of a thousand particles and more)
SmallLattice(n, a, wn) ==
  LET d     == Len(n)
      sites == LatSites(n, a)
      ps    == IF d = 2 THEN [m \in 1..(n[1] * n[2]) |-> <<a * ((m - 1) \div n[2]), a * ((m - 1) % n[2])>>]
               ELSE [m \in 1..(n[1] * n[2] * n[3]) |->
                       <<a * ((m - 1) \div (n[2] * n[3])), a * (((m - 1) \div n[3]) % n[2]), a * ((m - 1) % n[3])>>]
  IN  [ H |-> [k \in 1..d |-> [j \in 1..d |-> IF j = k THEN n[k] * a ELSE 0]], ppp |-> [k \in 1..d |-> 1], S |-> 10,
        types |-> [i \in 1..Len(ps) |-> 1], pos |-> ps, wn |-> wn, sharp |-> 0,
        kind |-> "bool", AS |-> 1, A |-> [i \in 1..Len(ps) |-> <<1, 0>>], lat |-> [n |-> n, a |-> a] ]
SmallLattices == { SmallLattice(<<3, 3>>, 10, 7), SmallLattice(<<3, 5>>, 10, 7), SmallLattice(<<5, 5>>, 10, 11),
                   SmallLattice(<<5, 3>>, 4, 3), SmallLattice(<<3, 3, 3>>, 10, 7), SmallLattice(<<3, 3, 5>>, 10, 7) }
\* (evaluated once per sharded run: by shard 0)
ASSUME LatticeLemma ==
  SHARD # 0 \/ \A lc \in SmallLattices :
     /\ IsFullLattice(lc)
     /\ LET a == WHistLat(lc) b == WHist(lc) IN
        /\ a.w = b.w /\ a.cnt = b.cnt /\ a.tie = b.tie /\ a.nt = b.nt /\ b.cj = 0 /\ b.tr = 0
        /\ \E k \in 1..GBins(lc) : b.cnt[k] + b.tie[k] > 0                      \* not vacuous
     /\ ~IsFullLattice([lc EXCEPT !.pos[1] = lc.pos[2]])                           \* a site missing: not a full lattice
     /\ ~IsFullLattice([lc EXCEPT !.A[1] = <<0, 0>>])                              \* not every particle selected

Tri2(a, t, b) == << <<a, 0>>, <<t, b>> >>
Tri3(a, b, cc, xy, xz, yz) == << <<a, 0, 0>>, <<xy, b, 0>>, <<xz, yz, cc>> >>
R(x) == <<x, 0>>

\* ------------------------------------------------------------- value sets (exhaustive families)
F5  == {0 - 2, 0 - 1, 0, 1, 2}
G5  == {<<1, 0>>, <<0, 1>>, <<0 - 1, 0 - 1>>, <<2, 1>>, <<0, 0 - 2>>}
V4  == { <<R(1), R(0)>>, <<R(0), R(0 - 1)>>, <<R(1), R(2)>>, <<R(0 - 2), R(1)>> }
CV3 == { << <<1, 1>>, <<0, 0 - 1>> >>, << <<0, 2>>, <<1, 0>> >>, << <<0 - 1, 0>>, <<1, 0 - 2>> >> }
T4  == { << <<R(1), R(0)>>, <<R(0), R(1)>> >>, << <<R(1), R(2)>>, <<R(2), R(0 - 1)>> >>,
         << <<R(0), R(1)>>, <<R(1), R(0)>> >>, << <<R(0 - 2), R(0)>>, <<R(0), R(1)>> >> }
GT3 == { << <<R(1), R(2)>>, <<R(0), R(1)>> >>, << <<R(0), R(1)>>, <<R(0 - 1), R(0)>> >>,
         << <<R(2), R(0 - 1)>>, <<R(1), R(1)>> >> }
Bools3 == [1..3 -> {GZero, R(1)}] \ {[i \in 1..3 |-> GZero]}
Fields(kind, set) == {[kind |-> kind, AS |-> 1, A |-> a] : a \in [1..3 -> set]}
ScalarValues == {[kind |-> "bool", AS |-> 1, A |-> a] : a \in Bools3}
                \cup {[kind |-> "float", AS |-> 1, A |-> [i \in 1..3 |-> R(a[i])]] : a \in [1..3 -> F5]}
                \cup Fields("complex", G5)
VectorValues == Fields("vector", V4) \cup Fields("vector", CV3)
TensorValues == Fields("tensor", T4) \cup Fields("tensor", GT3)

\* ------------------------------------------------------------- "gl"
LatCells == {Tri2(8, 0, 8), Tri2(8, 3, 8)}
LatP2    == {<<x, y>> : x \in {0, 2, 4, 6}, y \in (IF Tier = "quick" THEN {0, 4} ELSE {0, 2, 4, 6})}
LatP3    == IF Tier = "quick" THEN {<<3, 6>>} ELSE {<<1, 1>>, <<3, 6>>, <<6, 2>>, <<5, 5>>}
LatMasks == IF Tier = "quick" THEN {<<1, 1>>} ELSE {<<1, 1>>, <<1, 0>>, <<0, 0>>}
GLatGeoms ==
  { [fam |-> "gl", H |-> h, ppp |-> p, S |-> 1, types |-> <<1, 2, 1>>, pos |-> <<<<0, 0>>, p2, p3>>, wn |-> w, sharp |-> 1] :
      h \in LatCells, p \in LatMasks, p2 \in LatP2, p3 \in LatP3, w \in (IF Tier = "quick" THEN {1} ELSE {1, 2}) }
GLatValues == ScalarValues \cup VectorValues \cup TensorValues
\* shard key: geometry and values together (cheap to evaluate; every shard enumerates the geometries and the value sets only)
GeomKey(g) == g.pos[2][1] + 3 * g.pos[2][2] + 5 * g.pos[3][1] + 7 * g.pos[3][2] + g.wn + 56
VKey(v)    == LET rk == IF v.kind = "vector" THEN 1 ELSE IF v.kind = "tensor" THEN 2 ELSE 0 IN
              3 * Wt(rk, v.A, 1, 2) + Wt(rk, v.A, 2, 3) + 5 * Wt(rk, v.A, 3, 3) + 1000

\* ------------------------------------------------------------- "sg"
AllVecs2  == SelectSeq(DM!Cube(2, 0 - 2, 2), LAMBDA v : ~DM!IsZero(v))
SomeVecs3 == SelectSeq(DM!Cube(3, 0 - 1, 2), LAMBDA v : ~DM!IsZero(v))
FewVecs2  == << <<1, 0>>, <<0, 1>>, <<1, 1>>, <<1, 0 - 1>>, <<0 - 2, 1>>, <<0, 0 - 2>> >>
SGridP3   == IF Tier = "quick" THEN {<<1, 5>>} ELSE {<<1, 5>>, <<0 - 1, 2>>, <<3, 3>>, <<2, 0>>}
SGridGeoms ==
  { [fam |-> "sg", L |-> <<4, 8>>, S |-> 1, M |-> 4, types |-> <<1, 2, 1>>, pos |-> <<<<0, 0>>, p2, p3>>, wn |-> 0,
     sel |-> [kind |-> "list", vecs |-> IF Tier = "quick" THEN FewVecs2 ELSE AllVecs2]] :
      p2 \in (0..3) \X (IF Tier = "quick" THEN {0, 2} ELSE 0..3), p3 \in SGridP3 }
SGridValues == ScalarValues \cup VectorValues

\* ------------------------------------------------------------- hashes
P == 46337
Scr(x) == ((x % P) * (x % P) + 3 * (x % P) + 7) % P
Hash(seed, f, i, k) == Scr(Scr(7919 * (seed % P) + 4733 * f + 3571 * i + 2909 * k) + (seed % P))
HTypes(seed, n, K) == [i \in 1..n |-> IF i <= K THEN i ELSE 1 + (Scr(seed + 31 * i) % (1 + (Scr(seed + i) % K)))]
HInt(seed, i, k, lo, hi) == lo + (Hash(seed, 17, i, k) % (hi - lo + 1))
HLeaf(seed, i, k, cplx) == <<HInt(seed, i, 2 * k, 0 - 2, 2), IF cplx THEN HInt(seed, i, 2 * k + 1, 0 - 2, 2) ELSE 0>>

\* the value of particle i for a condition kind (types: species of the particles; a: chosen species)
HValue(kn, seed, i, types, a, as, nc, td) ==
  IF kn = "species" THEN (IF types[i] = a THEN R(1) ELSE GZero)
  ELSE IF kn = "bool" THEN (IF i = 1 + (seed % Len(types)) \/ Hash(seed, 23, i, 0) % 2 = 0 THEN R(1) ELSE GZero)
  ELSE IF kn = "allbool" THEN R(1)
  ELSE IF kn = "ones" THEN R(as)
  ELSE IF kn = "float" THEN <<HInt(seed, i, 0, 0 - 2 * as, 2 * as), 0>>
  ELSE IF kn = "indicator" THEN <<IF i = 1 \/ Hash(seed, 29, i, 0) % 2 = 0 THEN 1 ELSE 0, 0>>
  ELSE IF kn = "complex" THEN HLeaf(seed, i, 0, TRUE)
  ELSE IF kn = "vector" THEN [k \in 1..nc |-> HLeaf(seed, i, k, FALSE)]
  ELSE IF kn = "cvector" THEN [k \in 1..nc |-> HLeaf(seed, i, k, TRUE)]
  ELSE IF kn = "tensor" THEN [a1 \in 1..td |-> [b1 \in 1..td |-> HLeaf(seed, i, 4 * Min2(a1, b1) + Max2(a1, b1), FALSE)]]
  ELSE IF kn = "gtensor" THEN [a1 \in 1..td |-> [b1 \in 1..td |-> HLeaf(seed, i, 4 * a1 + b1, FALSE)]]
  ELSE [a1 \in 1..td |-> [b1 \in 1..td |-> HLeaf(seed, i, 4 * a1 + b1, TRUE)]]     \* "ctensor"
KindOf(kn) ==
  IF kn \in {"species", "bool", "allbool"} THEN "bool"
  ELSE IF kn \in {"ones", "float", "indicator"} THEN "float"
  ELSE IF kn = "complex" THEN "complex"
  ELSE IF kn \in {"vector", "cvector"} THEN "vector" ELSE "tensor"

\* ------------------------------------------------------------- "gh"
GKinds == <<"species", "bool", "allbool", "ones", "float", "indicator", "complex", "vector", "cvector", "tensor", "gtensor", "ctensor">>
Cells2 == << Tri2(16, 0, 16), Tri2(16, 0, 12), Tri2(16, 5, 12), Tri2(16, 0 - 6, 16) >>
Cells3 == << Tri3(8, 8, 8, 0, 0, 0), Tri3(8, 12, 8, 0, 0, 0), Tri3(8, 8, 8, 3, 0 - 2, 1), Tri3(12, 8, 8, 0 - 5, 3, 0 - 3) >>
MasksOf(d) == IF d = 2 THEN << <<1, 1>>, <<0, 0>>, <<1, 0>> >> ELSE << <<1, 1, 1>>, <<0, 0, 0>>, <<0, 1, 1>> >>
HPos(seed, i, k, L) == (Hash(seed, 1, i, k) % (2 * L)) - (L \div 2)
Reps  == IF Tier = "quick" THEN 1 ELSE 8
NMW   == IF Tier = "quick" THEN 3 ELSE 9      \* (mask, width) combinations: a Latin pairing in quick, the product in thorough
NGH   == 12 * 2 * 4 * NMW * 2 * Reps
GHashConfig(s) ==
  LET seed == s + 1 + 2003 * SEED
      kn  == GKinds[1 + (s % 12)]
      d   == 2 + ((s \div 12) % 2)
      ci  == 1 + ((s \div 24) % 4)
      mw  == (s \div 96) % NMW
      mi  == 1 + (mw % 3)
      wn  == IF NMW = 3 THEN 1 + ((mw + (s \div 24)) % 3) ELSE 1 + (mw \div 3)
      ni  == (s \div (96 * NMW)) % 2
      K   == 1 + (Scr(seed + 5) % 5)
      n   == IF ni = 0 THEN K + 2 ELSE K + 5
      h   == IF d = 2 THEN Cells2[ci] ELSE Cells3[ci]
      types == HTypes(seed, n, K)
      a   == 1 + (Scr(seed + 3) % K)
      as  == IF kn \in {"float", "ones"} THEN 1 + (Scr(seed + 9) % 2) ELSE 1
      nc  == <<2, 3, 5>>[1 + (Scr(seed + 11) % 3)]
  IN  [ fam |-> "gh", id |-> s, H |-> h, ppp |-> MasksOf(d)[mi], S |-> 2, types |-> types,
        pos |-> [i \in 1..n |-> [k \in 1..d |-> HPos(seed, i, k, h[k][k])]],
        wn |-> wn, sharp |-> (IF PH!DyadicCell(h) THEN 1 ELSE 0),
        kind |-> KindOf(kn), AS |-> as, A |-> [i \in 1..n |-> HValue(kn, seed, i, types, a, as, nc, d)] ]

\* ------------------------------------------------------------- "sh"
SKinds == <<"species", "bool", "ones", "float", "complex", "vector", "cvector">>
Opts   == <<"F", "T", "x", "y", "z">>
Boxes2 == << <<8, 12>>, <<10, 10>>, <<6, 16>> >>
Boxes3 == << <<8, 12, 6>>, <<10, 10, 10>>, <<6, 8, 16>> >>
Ms     == <<3, 4, 5, 6, 8>>
SReps  == IF Tier = "quick" THEN 1 ELSE 4
NBM    == IF Tier = "quick" THEN 5 ELSE 15    \* (box, M) combinations: paired in quick, the product in thorough
NSH    == 7 * 2 * NBM * 3 * 2 * SReps
SHashConfig(s) ==
  LET seed == s + 1 + 2003 * SEED
      kn == SKinds[1 + (s % 7)]
      d  == 2 + ((s \div 7) % 2)
      bm == (s \div 14) % NBM
      M  == Ms[1 + (bm % 5)]
      bi == IF NBM = 5 THEN 1 + ((bm + (s \div 7)) % 3) ELSE 1 + (bm \div 5)
      vi == (s \div (14 * NBM)) % 3
      ni == (s \div (42 * NBM)) % 2
      K  == 1 + (Scr(seed + 5) % 5)
      n  == IF ni = 0 THEN K + 2 ELSE K + 6
      L  == IF d = 2 THEN Boxes2[bi] ELSE Boxes3[bi]
      types == HTypes(seed, n, K)
      a  == 1 + (Scr(seed + 3) % K)
      as == IF kn \in {"float", "ones"} THEN 1 + (Scr(seed + 9) % 2) ELSE 1
      sel == IF vi = 0 THEN [kind |-> "list", vecs |-> IF d = 2 THEN AllVecs2 ELSE SubSeq(SomeVecs3, 20, 45)]
             ELSE IF vi = 1 THEN [kind |-> "list", vecs |-> IF d = 2 THEN FewVecs2 ELSE SubSeq(SomeVecs3, 5, 16)]
             ELSE [kind |-> "range", qn |-> 3 + (Scr(seed + 13) % 4), qd |-> 2, opt |-> Opts[1 + (Scr(seed + 15) % 5)]]
  IN  [ fam |-> "sh", id |-> s, L |-> L, S |-> 2, M |-> M, types |-> types,
        pos |-> [i \in 1..n |-> [k \in 1..d |-> (Hash(seed, 1, i, k) % (2 * M)) - (M \div 2)]],
        sel |-> sel,
        kind |-> KindOf(kn), AS |-> as, A |-> [i \in 1..n |-> HValue(kn, seed, i, types, a, as, d, d)] ]

\* -------------------------------------------------------------
IsG == c.fam \in {"gl", "gh"}
IsS == c.fam \in {"sg", "sh"}
Obs(cc) == IF cc.fam \in {"gl", "gh"}
           THEN LET pt == PairTable(cc) IN [pt |-> pt, h |-> WHistOf(pt, GBins(cc), Rank(cc), cc.A)]
           ELSE [pt |-> << >>, h |-> << >>]
On(f) == Fam = "all" \/ Fam = f

WithValue(g, v) == g @@ [kind |-> v.kind, AS |-> v.AS, A |-> v.A]

Init ==
  /\ \/ /\ On("gl") /\ \E g \in GLatGeoms : \E v \in GLatValues : (GeomKey(g) + VKey(v)) % NSHARDS = SHARD /\ c = WithValue(g, v)
     \/ /\ On("sg") /\ \E g \in SGridGeoms : \E v \in SGridValues : (GeomKey(g) + VKey(v)) % NSHARDS = SHARD /\ c = WithValue(g, v)
     \/ /\ On("gh") /\ \E s \in 0..(NGH - 1) : s % NSHARDS = SHARD /\ c = GHashConfig(s)
     \/ /\ On("sh") /\ \E s \in 0..(NSH - 1) : s % NSHARDS = SHARD /\ c = SHashConfig(s)
  /\ o = Obs(c)

Next == UNCHANGED vars
Spec == Init /\ [][Next]_vars

\* vectors on which the integer identities of the S(q) model are checked
Checked == LET vs == QVecs(c) IN IF c.fam = "sg" THEN Range(vs) ELSE {vs[i] : i \in 1..Min2(6, Len(vs))}

InvBoolOfSpeciesIsPartial ==
  /\ IsG => BoolOfSpeciesIsPartialG(c, o.h)
  /\ IsS => \A v \in Checked : BoolOfSpeciesIsPartialS(c, v)
InvOnesIsTotal ==
  /\ IsG => OnesIsTotalG(c, o.h)
  /\ IsS => \A v \in Checked : OnesIsTotalS(c, v)
InvVectorIsSumOfComponents ==
  /\ IsG => VectorIsSumOfComponentsG(c, o.h, o.pt) /\ SymmetricTensorIsSumOfComponentsG(c, o.h, o.pt)
  /\ IsS => \A v \in Checked : VectorIsSumOfComponentsS(c, v)
InvNormalisedVariant     == IsG => NormalisedVariantG(c, o.h, o.pt)
InvWeightSymmetric       == WeightSymmetric(c) /\ ConjugateSideUnobservable(c)
\* (PairHist's own accumulation is run a second time here: in quick only on the smaller hashed configurations)
InvCountIsPairHistTotal  == (IsG /\ (Tier # "quick" \/ NPart(c) <= 7)) => CountIsPairHistTotal(c, o.h)
InvBoolIsSubsystemTotal  == IsG => BoolIsSubsystemTotalG(c, o.h)
InvComplexIsVectorOfParts == IsG => ComplexIsVectorOfPartsG(c, o.h, o.pt)
InvSqRealNonNegative     == IsS => \A v \in Checked : SqRealNonNegative(c, v) /\ ClassSumsPartition(c, v)
InvScope ==
  /\ PH!Species(c) = 1..PH!NSpecies(c)                       \* every species id present
  /\ c.kind = "bool" => NNorm(c) >= 1                        \* a selection is not empty
  /\ IsS => (c.kind = "vector" => \A i \in 1..NPart(c) : Len(c.A[i]) = Len(c.L))

\* exhaustive families: the emitted sample is chosen by a key of the values (the invariants are checked on every state)
ValueKey == 43 * Len(c.kind) + 47 * Wt(Rank(c), c.A, 1, 2) + 53 * Wt(Rank(c), c.A, 2, 3) + 59 * Wt(Rank(c), c.A, 3, 3)
            + 61 * Wt(Rank(c), c.A, 1, 1) + 7 * GeomKey(c) + 10007
Selected4Emit == \/ c.fam \in {"gh", "sh"}
                 \/ ValueKey % SAMPLE = SALT % SAMPLE
                 \/ c.kind = "bool" /\ (ValueKey + GeomKey(c)) % 3 = SALT % 3
Emit == Selected4Emit =>
  PrintT(ToJson((IF IsG THEN GCase(c, o.h) ELSE SCase(c)) @@ [fam |-> c.fam, id |-> (IF "id" \in DOMAIN c THEN c.id ELSE 0 - 1)]))
=============================================================================
