----------------------------- MODULE LocalOrder -----------------------------
(***************************************************************************)
(* Local order parameters (property C17):                                  *)
(*   pair entropy   PyMatterSim.static.pairentropy.S2.particle_s2          *)
(*   tetrahedral    PyMatterSim.static.geometric.q8_tetrahedral            *)
(*   nematic        PyMatterSim.static.nematic.NematicOrder.tensor         *)
(*   gyration       PyMatterSim.static.shape.gyration_tensor               *)
(*                                                                         *)
(* Positions pos[i] and the cell H (rows = cell vectors) are scaled        *)
(* integers (real = / S).  Every discrete decision (which neighbours       *)
(* contribute, which pair width, which four are nearest, whether an input  *)
(* sits on a tie) is taken here in exact integer arithmetic; real-valued   *)
(* expectations are Real terms with the data filled in.                    *)
(***************************************************************************)
EXTENDS Cell, Real

RECURSIVE LoInsert(_, _)
LoInsert(v, s) == IF s = << >> THEN <<v>>
                  ELSE IF v <= Head(s) THEN <<v>> \o s ELSE <<Head(s)>> \o LoInsert(v, Tail(s))
RECURSIVE LoSort(_)      \* ascending, duplicates kept
LoSort(s) == IF s = << >> THEN << >> ELSE LoInsert(Head(s), LoSort(Tail(s)))

(***************************************************************************)
(* Pair tables.  Cell!MinImage enumerates candidate coefficient vectors    *)
(* and recomputes the adjugate per component; for the many pairs of one    *)
(* configuration the same image is obtained directly from the adjugate     *)
(* computed once (LoFastIsMinImage states the agreement, checked as an     *)
(* invariant).  At an exact half-cell tie the lower coefficient is taken   *)
(* and the pair is flagged.                                                *)
(***************************************************************************)
LoFrac(adj, det, v)     == LET a == VecMat(v, adj) IN IF det < 0 THEN VNeg(a) ELSE a
LoCoef(adj, det, v, ppp) == LET f == LoFrac(adj, det, v) IN
                            [k \in 1..Len(v) |-> IF ppp[k] = 1 THEN SetMin(NearestSet(f[k], Abs(det))) ELSE 0]
LoImg(H, adj, det, v, ppp) == VSub(v, VecMat(LoCoef(adj, det, v, ppp), H))
LoTie(adj, det, v, ppp)    == LET f == LoFrac(adj, det, v) IN
                              \E k \in 1..Len(v) : ppp[k] = 1 /\ IsHalfTie(f[k], Abs(det))
\* rt[i][j] = minimum-image vector from i to j (zero for i = j); tt[i][j] = the pair sits on a half-cell tie
LoTable(H, ppp, pos) ==
  LET adj == Adj(H)  det == Det(H) IN
  [i \in 1..Len(pos) |-> [j \in 1..Len(pos) |->
      IF i = j THEN Zero(Len(pos[1])) ELSE LoImg(H, adj, det, VSub(pos[j], pos[i]), ppp)]]
LoTieTable(H, ppp, pos) ==
  LET adj == Adj(H)  det == Det(H) IN
  [i \in 1..Len(pos) |-> [j \in 1..Len(pos) |-> i # j /\ LoTie(adj, det, VSub(pos[j], pos[i]), ppp)]]
LoFastIsMinImage(H, ppp, pos, i, j) ==
  /\ LoImg(H, Adj(H), Det(H), VSub(pos[j], pos[i]), ppp) \in MinImage(H, VSub(pos[j], pos[i]), ppp)
  /\ LoTie(Adj(H), Det(H), VSub(pos[j], pos[i]), ppp) = HasTie(H, VSub(pos[j], pos[i]), ppp)

LoOthers(n, i)           == SelectSeq([j \in 1..n |-> j], LAMBDA j : j # i)

(***************************************************************************)
(* Trajectories.  Every frame has its own cell: an input c may carry the   *)
(* optional field Hs (one cell per frame: a sheared run, the tilt factors  *)
(* change from frame to frame while the box lengths H[k][k] stay fixed) and*)
(* the optional field tys (one type vector per frame).  The routines must  *)
(* take cell, positions and types of frame f from frame f.                 *)
(***************************************************************************)
LoFrameH(c, f)     == IF "Hs" \in DOMAIN c THEN c.Hs[f] ELSE c.H
LoFrameTypes(c, f) == IF "tys" \in DOMAIN c THEN c.tys[f] ELSE c.types
LoFramesWellFormed(c, T) ==
  /\ "Hs" \in DOMAIN c => /\ Len(c.Hs) = T
                           /\ \A f \in 1..T : /\ IsLowerTri(c.Hs[f])
                                               /\ \A k \in 1..Len(c.H) : c.Hs[f][k][k] = c.H[k][k]
  /\ "tys" \in DOMAIN c => /\ Len(c.tys) = T
                            /\ \A f \in 1..T : Len(c.tys[f]) = Len(c.types)

(***************************************************************************)
(* Unwrapped coordinates.  Positions are defined up to whole cell vectors  *)
(* along the periodic axes (unwrapped xu/yu/zu columns, particles that     *)
(* crossed the box several times): displacing particle i by sum_k n(i,k)   *)
(* H[k] over the periodic axes k is the same periodic system, and the      *)
(* minimum-image vectors - hence every order parameter - do not change,    *)
(* however many cell vectors apart the raw coordinates are.                *)
(***************************************************************************)
LoUnwrap(pos, H, ppp, NN(_, _)) ==
  [i \in 1..Len(pos) |-> VAdd(pos[i], VecMat([k \in 1..Len(H) |-> IF ppp[k] = 1 THEN NN(i, k) ELSE 0], H))]
LoUnwrapInvariant(H, ppp, pos, pos0) ==
  /\ LoTable(H, ppp, pos) = LoTable(H, ppp, pos0)
  /\ LoTieTable(H, ppp, pos) = LoTieTable(H, ppp, pos0)

(***************************************************************************)
(* Neighbour files as the routines receive them: per frame a sequence of   *)
(* rows [id, list] in ANY order (the reader, property C05, files a row     *)
(* under the id of its first column) and delivers the first min(cn, Nmax)  *)
(* listed ids of every row.                                                *)
(***************************************************************************)
LoIsPerm(order, n)  == Len(order) = n /\ {order[k] : k \in 1..n} = 1..n
LoRows(nl, order)   == [k \in 1..Len(nl) |-> [id |-> order[k], list |-> nl[order[k]]]]
LoOfRows(rows)      == [i \in 1..Len(rows) |-> rows[CHOOSE k \in 1..Len(rows) : rows[k].id = i].list]
LoPermByKey(K(_), n) == LET srt == SortedSeq({K(i) * 1024 + i : i \in 1..n}) IN [k \in 1..n |-> srt[k] % 1024]
LoTruncRow(row, nmax) == SubSeq(row, 1, IF Len(row) < nmax THEN Len(row) ELSE nmax)
\* the lists of one frame as delivered for the argument Nmax (<< >> = no neighbour file)
LoTrunc(nl, nmax)   == IF nl = << >> THEN << >> ELSE [i \in 1..Len(nl) |-> LoTruncRow(nl[i], nmax)]

(***************************************************************************)
(* 1. Pair entropy S2.                                                     *)
(*   r_k = (k - 1) rdelta + rdelta / 2, k = 1..nd;  r_max = r_nd           *)
(*   g_i(r_k) = sum_{j # i, d_ij < r_max} G_{sigma(type_i, type_j)}(r_k -  *)
(*              d_ij) / (c_d pi r_k^(d-1) rho),  c_2 = 2, c_3 = 4          *)
(*   G_s(x) = exp(-x^2 / (2 s^2)) / sqrt(2 pi s^2),  rho = N / V           *)
(*   S2_i = -(d - 1) pi rho Trapz_k [ (g ln g - g + 1) r_k^(d-1) ]         *)
(* (docs/orderings.md section 3).  g ln g is continued by its limit 0 at   *)
(* g = 0, so the integrand is 1 there.                                     *)
(* Input p: [d, H, ppp, S, pos, types, sig, rn, rd, nd, rt, tt] with       *)
(* rt = LoTable, tt = LoTieTable of the configuration (S2Prep adds them),  *)
(* sig[a][b] = <<sn, sd>> the width for a centre of type a and a neighbour *)
(* of type b, rdelta = rn / rd.                                            *)
(***************************************************************************)
S2N(p) == Len(p.pos)
\* d_ij < r_max  <=>  d2 / S^2 < (rn (2 nd - 1) / (2 rd))^2, decided in integers
S2EdgeL(p, d2) == 4 * p.rd * p.rd * d2
S2EdgeR(p)     == p.S * p.S * p.rn * p.rn * (2 * p.nd - 1) * (2 * p.nd - 1)
S2InRange(p, d2) == S2EdgeL(p, d2) < S2EdgeR(p)
S2OnEdge(p, d2)  == S2EdgeL(p, d2) = S2EdgeR(p)
S2Prep(q) == [d |-> q.d, H |-> q.H, ppp |-> q.ppp, S |-> q.S, pos |-> q.pos, types |-> q.types, sig |-> q.sig,
              rn |-> q.rn, rd |-> q.rd, nd |-> q.nd,
              rt |-> LoTable(q.H, q.ppp, q.pos), tt |-> LoTieTable(q.H, q.ppp, q.pos)]
\* Scale: on a full single-species lattice in an orthogonal, fully periodic cell every particle has the same environment
\* (S2LatticeEnvironments, checked by TLC on small lattices in MC_LocalOrder), so ONE row of the tables decides all
\* particles: S2PrepOne builds row 1 only (linear in N).  Used by the trace specification for lattices of more than a
\* thousand particles, where one particle has more than 1024 neighbours inside r_max.
S2PrepOne(q) ==
  LET adj == Adj(q.H)  det == Det(q.H)  n == Len(q.pos)
      row == [j \in 1..n |-> IF j = 1 THEN Zero(q.d) ELSE LoImg(q.H, adj, det, VSub(q.pos[j], q.pos[1]), q.ppp)]
      tie == [j \in 1..n |-> j # 1 /\ LoTie(adj, det, VSub(q.pos[j], q.pos[1]), q.ppp)]
  IN  [d |-> q.d, H |-> q.H, ppp |-> q.ppp, S |-> q.S, pos |-> q.pos, types |-> q.types, sig |-> q.sig,
       rn |-> q.rn, rd |-> q.rd, nd |-> q.nd,
       rt |-> [i \in 1..n |-> IF i = 1 THEN row ELSE << >>], tt |-> [i \in 1..n |-> IF i = 1 THEN tie ELSE << >>]]
S2LatSites(n, a) ==
  IF Len(n) = 2 THEN {<<a * i, a * j>> : i \in 0..(n[1] - 1), j \in 0..(n[2] - 1)}
  ELSE {<<a * i, a * j, a * k>> : i \in 0..(n[1] - 1), j \in 0..(n[2] - 1), k \in 0..(n[3] - 1)}
S2IsLattice(r) ==
  /\ "lat" \in DOMAIN r /\ Len(r.fr) = 1 /\ "Hs" \notin DOMAIN r /\ "tys" \notin DOMAIN r /\ "fr0" \notin DOMAIN r
  /\ Len(r.lat.n) = r.d /\ r.savegr = FALSE
  /\ \A k \in 1..r.d : r.ppp[k] = 1 /\ \A j \in 1..r.d : r.H[k][j] = (IF j = k THEN r.lat.n[k] * r.lat.a ELSE 0)
  /\ \A i \in 1..Len(r.types) : r.types[i] = 1
  /\ Len(r.fr[1]) = ProdSeq(r.lat.n) /\ {r.fr[1][i] : i \in 1..Len(r.fr[1])} = S2LatSites(r.lat.n, r.lat.a)
\* every particle of the lattice sees the same bag of squared minimum-image distances (and no half-cell tie matters in
\* an orthogonal cell): the environment of particle 1 is the environment of all
S2LatticeEnvironments(p) ==
  LET others(i) == {j \in 1..S2N(p) : j # i}
      vals(i)   == {Norm2(p.rt[i][j]) : j \in others(i)}
      bag(i)    == [v \in vals(i) |-> Cardinality({j \in others(i) : Norm2(p.rt[i][j]) = v})]
  IN  \A i \in 2..S2N(p) : bag(i) = bag(1)

S2D2(p, i, j)    == Norm2(p.rt[i][j])
\* the neighbours that contribute to g_i, in id order
S2Contrib(p, i)  == SelectSeq(LoOthers(S2N(p), i), LAMBDA j : S2InRange(p, S2D2(p, i, j)))
\* a decision the floating-point code cannot be held to: distance exactly r_max, or a
\* half-cell tie of the minimum image in a non-orthogonal cell (changes the distance)
\* Dyadic inputs on which the code's floating-point comparison is exact, so that the strict
\* "<" can be asserted on the edge: scale and bin denominator powers of two, orthogonal cell,
\* squared distance a perfect square (the norm is then computed exactly).
IsPow2(n) == n \in {1, 2, 4, 8, 16, 32, 64}
S2Sharp(p, d2) == IsPow2(p.S) /\ IsPow2(p.rd) /\ IsDiagonal(p.H) /\ IsSquare(d2)
S2Tie(p, i) == \/ \E j \in 1..S2N(p) : j # i /\ S2OnEdge(p, S2D2(p, i, j)) /\ ~S2Sharp(p, S2D2(p, i, j))
               \/ (~IsDiagonal(p.H) /\ \E j \in 1..S2N(p) : p.tt[i][j])
S2HasSharpEdge(p, i) == \E j \in 1..S2N(p) : j # i /\ S2OnEdge(p, S2D2(p, i, j)) /\ S2Sharp(p, S2D2(p, i, j))
S2Sigma(p, i, j) == p.sig[p.types[i]][p.types[j]]

\* --- terms
S2RBin(p, k)   == Q(p.rn * (2 * k - 1), 2 * p.rd)
S2DistT(p, d2) == Div(Sqrt(I(d2)), I(p.S))
S2SigT(s)      == Q(s[1], s[2])
GaussT(x, s)   == Div(Exp(Neg(Div(PowI(x, 2), Mul2(I(2), PowI(s, 2))))), Sqrt(Mul(<<I(2), Pi, PowI(s, 2)>>)))
S2Vol(p)       == ProdSeq([k \in 1..p.d |-> p.H[k][k]])            \* product of the box lengths
S2RhoT(p)      == Q(S2N(p) * IPow(p.S, p.d), S2Vol(p))
S2NormT(p, k)  == Mul(<<I(IF p.d = 2 THEN 2 ELSE 4), Pi, PowI(S2RBin(p, k), p.d - 1), S2RhoT(p)>>)
S2GT(p, i, k)  ==
  LET cs == S2Contrib(p, i) IN
  Div(Add([x \in 1..Len(cs) |->
             GaussT(Sub(S2RBin(p, k), S2DistT(p, S2D2(p, i, cs[x]))), S2SigT(S2Sigma(p, i, cs[x])))]),
      S2NormT(p, k))
S2YT(p, i, k)  == LET g == S2GT(p, i, k) IN
                  Mul2(Add(<<XLogX(g), Neg(g), I(1)>>), PowI(S2RBin(p, k), p.d - 1))
S2Term(p, i)   == Mul(<<I(0 - (p.d - 1)), Pi, S2RhoT(p),
                        Trapz([k \in 1..p.nd |-> S2RBin(p, k)], [k \in 1..p.nd |-> S2YT(p, i, k)])>>)

\* --- floating-point regime of bin k of particle i (exact integer bounds).
\* In units 1/U, U = 2 rd S:  r_k = Rk / U,  d_ij = sqrt(4 rd^2 d2) / U,  sigma = sn U / (sd U).
\* exponent = (r_k - d)^2 / (2 sigma^2) = (Rk - D)^2 sd^2 / (2 sn^2 U^2)
S2U(p)        == 2 * p.rd * p.S
S2Rk(p, k)    == p.rn * (2 * k - 1) * p.S
S2DLo(p, d2)  == ISqrt2(4 * p.rd * p.rd * d2)
S2DHi(p, d2)  == LET lo == S2DLo(p, d2) IN IF lo * lo = 4 * p.rd * p.rd * d2 THEN lo ELSE lo + 1
S2AbsLo(p, k, d2) == LET r == S2Rk(p, k) IN
                     IF r >= S2DHi(p, d2) THEN r - S2DHi(p, d2)
                     ELSE IF r <= S2DLo(p, d2) THEN S2DLo(p, d2) - r ELSE 0
S2AbsHi(p, k, d2) == LET r == S2Rk(p, k) IN Max2(Abs(r - S2DLo(p, d2)), Abs(r - S2DHi(p, d2)))
\* exp(-x) is exactly 0 in IEEE doubles for x >= 746 and a normal number for x <= 700
S2SurelyZero(p, k, d2, s) == S2AbsLo(p, k, d2) * S2AbsLo(p, k, d2) * s[2] * s[2] >= 750 * 2 * s[1] * s[1] * S2U(p) * S2U(p)
S2SurelyPos(p, k, d2, s)  == S2AbsHi(p, k, d2) * S2AbsHi(p, k, d2) * s[2] * s[2] <= 700 * 2 * s[1] * s[1] * S2U(p) * S2U(p)
S2ZeroBin(p, i, k) == LET cs == S2Contrib(p, i) IN
                      \A x \in 1..Len(cs) : S2SurelyZero(p, k, S2D2(p, i, cs[x]), S2Sigma(p, i, cs[x]))
S2PosBin(p, i, k)  == LET cs == S2Contrib(p, i) IN
                      \E x \in 1..Len(cs) : S2SurelyPos(p, k, S2D2(p, i, cs[x]), S2Sigma(p, i, cs[x]))
\* "pos": g > 0 in every bin also in floating point; "zero": some bin has g = 0 exactly in
\* floating point (all others positive); "fragile": a bin in the denormal range (not asserted)
S2Class(p, i) == IF \A k \in 1..p.nd : S2PosBin(p, i, k) THEN "pos"
                 ELSE IF \A k \in 1..p.nd : S2PosBin(p, i, k) \/ S2ZeroBin(p, i, k) THEN "zero"
                 ELSE "fragile"

\* model-level clauses
S2ContribSymmetric(p) ==
  \A i, j \in 1..S2N(p) :
    (i # j /\ ~p.tt[i][j]) =>
       /\ S2D2(p, i, j) = S2D2(p, j, i)
       /\ (S2Tie(p, i) \/ S2Tie(p, j) \/ ((\E x \in 1..Len(S2Contrib(p, i)) : S2Contrib(p, i)[x] = j)
                                          <=> (\E x \in 1..Len(S2Contrib(p, j)) : S2Contrib(p, j)[x] = i)))
S2ContribExact(p) ==
  \A i \in 1..S2N(p) : \A j \in 1..S2N(p) : j # i =>
     ((\E x \in 1..Len(S2Contrib(p, i)) : S2Contrib(p, i)[x] = j) <=> S2InRange(p, S2D2(p, i, j)))
S2ClassConsistent(p) ==
  \A i \in 1..S2N(p) : \A k \in 1..p.nd : ~(S2PosBin(p, i, k) /\ S2ZeroBin(p, i, k) /\ Len(S2Contrib(p, i)) > 0)

(***************************************************************************)
(* 2. Tetrahedral order: the four nearest by exact squared minimum-image   *)
(* distance;  q_i = 1 - (3/32) sum_{j<k} (cos psi_jk + 1/3)^2.             *)
(***************************************************************************)
TeTable(H, ppp, pos)    == LoTable(H, ppp, pos)
TeTieTable(H, ppp, pos) == LoTieTable(H, ppp, pos)
\* others of i sorted by (d2, id): keys d2 * 1024 + id
TeSorted(rt, i) == LET s == SortedSeq({Norm2(rt[i][j]) * 1024 + j : j \in Range(LoOthers(Len(rt), i))})
                   IN  [x \in 1..Len(s) |-> s[x] % 1024]
TeFour(rt, i)   == SubSeq(TeSorted(rt, i), 1, 4)
\* ambiguous inputs: 4th and 5th nearest at the same distance, coincident particles, or a
\* half-cell tie (changes the bond vector) on one of the chosen bonds / anywhere in a tilted cell
TeTie(rt, tt, diag, i) ==
  LET s == TeSorted(rt, i) IN
  \/ (Len(s) >= 5 /\ Norm2(rt[i][s[4]]) = Norm2(rt[i][s[5]]))
  \/ Norm2(rt[i][s[1]]) = 0
  \/ \E x \in 1..4 : tt[i][s[x]]
  \/ (~diag /\ \E j \in 1..Len(rt) : tt[i][j])
TePairs == << <<1, 2>>, <<1, 3>>, <<1, 4>>, <<2, 3>>, <<2, 4>>, <<3, 4>> >>
\* the four bond vectors (minimum images) of particle i, nearest first
TeBonds(rt, i) == LET f == TeFour(rt, i) IN [x \in 1..4 |-> rt[i][f[x]]]
TeCosT(a, b) == Div(I(Dot(a, b)), Sqrt(Mul2(I(Norm2(a)), I(Norm2(b)))))
\* cos psi + 1/3 = 0 exactly  <=>  dot < 0 and 9 dot^2 = |a|^2 |b|^2
TeDevZero(a, b) == Dot(a, b) < 0 /\ 9 * Dot(a, b) * Dot(a, b) = Norm2(a) * Norm2(b)
TePerfectB(b) == \A x \in 1..6 : TeDevZero(b[TePairs[x][1]], b[TePairs[x][2]])
\* geometric notion: the four neighbours are the vertices of a regular tetrahedron centred on i
TeRegularB(b) ==
  /\ \A x \in 1..4 : Norm2(b[x]) = Norm2(b[1]) /\ Norm2(b[1]) > 0
  /\ \A x \in 1..6 : 3 * Norm2(VSub(b[TePairs[x][1]], b[TePairs[x][2]])) = 8 * Norm2(b[1])
TetraTermB(b) ==
  IF TePerfectB(b) THEN I(1)
  ELSE Sub(I(1), Mul2(Q(3, 32),
         Add([x \in 1..6 |-> PowI(Add2(TeCosT(b[TePairs[x][1]], b[TePairs[x][2]]), Q(1, 3)), 2)])))
\* "exactly one for perfect tetrahedral coordination"
TeRegularIsPerfect(rt, tt, diag) ==
  \A i \in 1..Len(rt) : LET b == TeBonds(rt, i) IN
     (~TeTie(rt, tt, diag, i) /\ TeRegularB(b)) => TePerfectB(b)
\* "depends only on the four nearest": the chosen four are strictly nearer than every other particle
TeFourAreNearest(rt, tt, diag) ==
  \A i \in 1..Len(rt) : ~TeTie(rt, tt, diag, i) =>
     LET f  == Range(TeFour(rt, i))
         mx == SetMax({Norm2(rt[i][x]) : x \in f}) IN
     /\ Cardinality(f) = 4 /\ i \notin f
     /\ \A j \in 1..Len(rt) : (j # i /\ j \notin f) => mx < Norm2(rt[i][j])

(***************************************************************************)
(* 3. Nematic tensor (2-D; the code supports ndim = 2 only).               *)
(* u_i = (a_i, b_i) / C with a^2 + b^2 = C^2 (Pythagorean pairs): unit     *)
(* vectors with rational components.                                       *)
(*   Q_i  = (d u u^T - I) / 2           = NmQNum(u) / (2 C^2)              *)
(*   Qcg_i = (Q_i + sum_{j in nl(i)} Q_j) / (1 + cn_i)                     *)
(* where nl(i) is the list DELIVERED for the argument Nmax (LoTrunc: the   *)
(* first min(cn, Nmax) listed ids) and cn_i its length.                    *)
(*   S_i = sqrt(d/(d-1) tr Q^2) = 2 lambda_max                             *)
(***************************************************************************)
NmQNum(u, C) == << <<2 * u[1] * u[1] - C * C, 2 * u[1] * u[2]>>, <<2 * u[1] * u[2], 2 * u[2] * u[2] - C * C>> >>
MAdd(A, B)   == [a \in 1..Len(A) |-> VAdd(A[a], B[a])]
RECURSIVE MSumSeq(_)
MSumSeq(s)   == IF Len(s) = 1 THEN s[1] ELSE MAdd(Head(s), MSumSeq(Tail(s)))
\* numerator of the (coarse-grained) tensor of particle i over NmDen; nl = << >> : raw tensor
NmNum(us, C, nl, i) ==
  IF nl = << >> THEN NmQNum(us[i], C)
  ELSE MSumSeq(<<NmQNum(us[i], C)>> \o [x \in 1..Len(nl[i]) |-> NmQNum(us[nl[i][x]], C)])
NmDen(C, nl, i) == 2 * C * C * (IF nl = << >> THEN 1 ELSE 1 + Len(nl[i]))
NmTr2Num(M)   == M[1][1] * M[1][1] + 2 * M[1][2] * M[2][1] + M[2][2] * M[2][2]      \* tr(M M)
\* S = sqrt(2 tr Q^2) = sqrt(2) sqrt(tr2num) / den
NmOrderT(us, C, nl, i) ==
  Mul2(Sqrt(I(2)), Div(Sqrt(I(NmTr2Num(NmNum(us, C, nl, i)))), I(NmDen(C, nl, i))))
NmTensorT(us, C, nl, i) == LET M == NmNum(us, C, nl, i) IN
                           [a \in 1..2 |-> [b \in 1..2 |-> Q(M[a][b], NmDen(C, nl, i))]]
\* clauses: symmetric, traceless, order from the trace = twice the largest eigenvalue
\* (eigenvalues of a symmetric traceless 2x2 matrix are +-sqrt(-det): (2 lambda)^2 = -4 det = 2 tr Q^2),
\* raw tensor of a unit vector has order 1, order in [0, 1]
NmSymTraceless(us, C, nl) ==
  \A i \in 1..Len(us) : LET M == NmNum(us, C, nl, i) IN M[1][2] = M[2][1] /\ M[1][1] + M[2][2] = 0
NmTraceEqualsEigen(us, C, nl) ==
  \A i \in 1..Len(us) : LET M == NmNum(us, C, nl, i) IN
     2 * NmTr2Num(M) = 0 - 4 * (M[1][1] * M[2][2] - M[1][2] * M[2][1])
NmRawIsOne(us, C) ==
  \A i \in 1..Len(us) : 2 * NmTr2Num(NmQNum(us[i], C)) = 4 * C * C * C * C
NmInUnitRange(us, C, nl) ==
  \A i \in 1..Len(us) : 2 * NmTr2Num(NmNum(us, C, nl, i)) <= NmDen(C, nl, i) * NmDen(C, nl, i)
\* truncation: the delivered list is the prefix of length min(cn, Nmax) of the listed ids; an Nmax at or
\* above every count changes nothing
NmTruncation(nl, nmax) ==
  nl # << >> =>
    LET t == LoTrunc(nl, nmax) IN
    /\ \A i \in 1..Len(nl) : /\ Len(t[i]) = (IF Len(nl[i]) <= nmax THEN Len(nl[i]) ELSE nmax)
                             /\ \A k \in 1..Len(t[i]) : t[i][k] = nl[i][k]
    /\ (\A i \in 1..Len(nl) : Len(nl[i]) <= nmax) => t = nl

(***************************************************************************)
(* 4. Gyration tensor of a point cloud x[1..N] (integers / S).             *)
(*   T_mn = (1/N) sum_i (x_im - xbar_m)(x_in - xbar_n)                     *)
(*        = GyNum[m][n] / (N^2 S^2),  GyNum = N sum x_m x_n - sum x_m sum x_n *)
(*   Rg^2 = tr T;  eigenvalues l1 <= l2 (<= l3)                            *)
(*   2-D: acylindricity c = l2 - l1 = sqrt((T11 - T22)^2 + 4 T12^2)        *)
(*   3-D: asphericity b = l3 - (l1 + l2)/2, acylindricity c = l2 - l1,     *)
(*        kappa^2 = (b^2 + 3 c^2 / 4) / Rg^4 = 3/2 tr T^2 / (tr T)^2 - 1/2 *)
(*   fractal dimension = log N / log Rg (as the code computes it)          *)
(***************************************************************************)
GyNum(x) ==
  LET n == Len(x)  d == Len(x[1])
      s1 == [m \in 1..d |-> SumSeq([i \in 1..n |-> x[i][m]])]
  IN  [m \in 1..d |-> [k \in 1..d |-> n * SumSeq([i \in 1..n |-> x[i][m] * x[i][k]]) - s1[m] * s1[k]]]
GyDen(x, S) == Len(x) * Len(x) * S * S
GyTr(M)     == SumSeq([m \in 1..Len(M) |-> M[m][m]])
GyTr2(M)    == SumSeq([m \in 1..Len(M) |-> SumSeq([k \in 1..Len(M) |-> M[m][k] * M[k][m]])])
GyRg2(x, S) == RNorm(GyTr(GyNum(x)), GyDen(x, S))
GyRgT(x, S) == Sqrt(QR(GyRg2(x, S)))
GyFractalT(x, S) == Div(Log(I(Len(x))), Log(GyRgT(x, S)))
GyFractalDefined(x, S) == GyRg2(x, S) # <<1, 1>> /\ GyRg2(x, S)[1] > 0
\* 2-D closed form
GyAcyl2T(x, S) == LET M == GyNum(x) IN
  Div(Sqrt(I((M[1][1] - M[2][2]) * (M[1][1] - M[2][2]) + 4 * M[1][2] * M[1][2])), I(GyDen(x, S)))
\* kappa^2 from traces (any 3-D cloud)
GyKappa2(x) == LET M == GyNum(x) IN RSub(RNorm(3 * GyTr2(M), 2 * GyTr(M) * GyTr(M)), <<1, 2>>)
\* clouds with axis-aligned principal axes: off-diagonal moments vanish, eigenvalues = diagonal
GyAxisAligned(x) == LET M == GyNum(x) IN \A m, k \in 1..Len(M) : m # k => M[m][k] = 0
GyEigs(x) == LoSort([m \in 1..Len(x[1]) |-> GyNum(x)[m][m]])      \* ascending numerators over GyDen
GyAsph(x, S)  == LET e == GyEigs(x) IN RNorm(2 * e[3] - e[1] - e[2], 2 * GyDen(x, S))
GyAcyl3(x, S) == LET e == GyEigs(x) IN RNorm(e[2] - e[1], GyDen(x, S))
GyKappaFromEigs(x) ==
  LET e == GyEigs(x)  b2 == 2 * e[3] - e[1] - e[2]  c == e[2] - e[1]  t == e[1] + e[2] + e[3] IN
  RNorm(b2 * b2 + 3 * c * c, 4 * t * t)
\* the documented function of the eigenvalues equals the trace formula; ranges
GyKappaIdentity(x) == (Len(x[1]) = 3 /\ GyAxisAligned(x) /\ GyTr(GyNum(x)) > 0) => GyKappaFromEigs(x) = GyKappa2(x)
GyRanges(x) ==
  LET M == GyNum(x) IN
  /\ \A m \in 1..Len(M) : M[m][m] >= 0
  /\ (Len(M) = 3 /\ GyTr(M) > 0) => RLeq(<<0, 1>>, GyKappa2(x)) /\ RLeq(GyKappa2(x), <<1, 1>>)
  /\ (Len(M) = 3 /\ GyAxisAligned(x)) => LET e == GyEigs(x) IN 2 * e[3] - e[1] - e[2] >= 0 /\ e[2] - e[1] >= 0
\* translation invariance of the centred tensor
GyShiftInvariant(x, t) == GyNum([i \in 1..Len(x) |-> VAdd(x[i], t)]) = GyNum(x)
\* rotated clouds: y_i = x_i R^T with R = Rn / rden a rational rotation; then
\* T_y = R T_x R^T and the columns of R are eigenvectors: T_y (R e_a) = l_a (R e_a)
GyRotate(x, Rn) == [i \in 1..Len(x) |-> [a \in 1..Len(Rn) |-> Dot(Rn[a], x[i])]]
GyIsRotation(Rn, rden) ==
  \A a, b \in 1..Len(Rn) : Dot(Rn[a], Rn[b]) = (IF a = b THEN rden * rden ELSE 0)
GyRotatedEigen(x, Rn, rden) ==
  (GyAxisAligned(x) /\ GyIsRotation(Rn, rden)) =>
    LET My == GyNum(GyRotate(x, Rn))  Mx == GyNum(x) IN
    \A a \in 1..Len(Rn) :
       LET col == [m \in 1..Len(Rn) |-> Rn[m][a]] IN
       [m \in 1..Len(Rn) |-> Dot(My[m], col)] = VScale(rden * rden * Mx[a][a], col)
\* the same observables as terms with the large products left unevaluated (inputs whose
\* exact second moments exceed TLC's 32-bit integers: direction B)
GyAcyl2TBig(x, S) == LET M == GyNum(x) IN
  Div(Sqrt(Add2(PowI(I(M[1][1] - M[2][2]), 2), Mul2(I(4), PowI(I(M[1][2]), 2)))), I(GyDen(x, S)))
GyKappa2T(x) == LET M == GyNum(x)  d == Len(M) IN
  Sub(Div(Mul2(I(3), Add([e \in 1..(d * d) |-> PowI(I(M[1 + ((e - 1) \div d)][1 + ((e - 1) % d)]), 2)])),
          Mul2(I(2), PowI(I(GyTr(M)), 2))), Q(1, 2))
=============================================================================
