------------------------------ MODULE Session ------------------------------
(***************************************************************************)
(* Layer 2: a user session of the analysis library (property C18).         *)
(*                                                                         *)
(* A session works on two shared Snapshots objects (targets 1, 2), the     *)
(* shared array arguments derived from them, the shared neighbour / weight *)
(* files, and one user-owned open handle per target on the neighbour file. *)
(* Actions are the public API calls.  A call is c = [e, s, v]: entry point *)
(* e of the registry Reg, target s, argument variant v (which argument     *)
(* flavour - plain / non-contiguous view / read-only / integer -, which    *)
(* branch, output file requested or not).                                  *)
(*                                                                         *)
(* The specification is PURE BY CONSTRUCTION: Exec(c) leaves the version   *)
(* of every shared object unchanged, its result is the abstract value      *)
(* Val = <call identity, versions of the inputs> (so it is a function of   *)
(* the inputs only), it enters memo if the identity is new, and an output  *)
(* file holds Written(result).  Analysis objects (boo_3d, S2, ...) live in *)
(* `ana`: only the constructor / the state-setting method of the family    *)
(* may change that state; the identity of a method call contains the       *)
(* NOMINAL state (what the calls made so far imply), its value depends on  *)
(* the ACTUAL state - the two coincide unless an impure action ran.        *)
(* read_neighbors on the user's handle is the one routine whose meaning    *)
(* includes a side effect: it consumes one frame (cursor + 1).             *)
(*                                                                         *)
(* The impure behaviours are written down too (MutatingCall, CachedCall,   *)
(* FileFromOtherObject, StateCorruptingCall, CursorStealingCall,           *)
(* AliasedResultCall).  They are NOT part of Next; MC_Session adds one at  *)
(* a time (constant Impure) to show that each invariant is violated by the *)
(* behaviour it forbids.  Scribble (the user overwrites a returned value   *)
(* in place) IS a legitimate user action: it changes nothing else.         *)
(***************************************************************************)
EXTENDS Integers, Sequences, FiniteSets, TLC

----------------------------------------------------------------------------
(* Registry of the public analysis entry points.
   role : "fn" stateless function | "ctor" constructor of an analysis object |
          "setter" method that (re)computes the object's state | "method" |
          "reader" read_neighbors on the user's handle | "reopen" the user reopens the handle
   nv   : number of argument variants        d  : 0 any dimension | 2 | 3
   fr   : 0 any trajectory | 1 at least two frames | 2 at least two evenly spaced frames
   cost : 1 = too slow for the large sample trajectories
   need : the setter a method needs to have run
   fv   : variants that request an output file holding the returned value
   fvc  : constructor variants under which the method writes such a file     *)
E(n, fam, role, nv, d, fr, cost, need, fv, fvc) ==
  [n |-> n, fam |-> fam, role |-> role, nv |-> nv, d |-> d, fr |-> fr, cost |-> cost,
   need |-> need, fv |-> fv, fvc |-> fvc]
F(n, nv, d, fr, cost, fv) == E(n, "", "fn", nv, d, fr, cost, "", fv, {})

Reg == <<
  F("conditional_gr", 6, 0, 0, 0, {}),
  F("conditional_sq", 4, 0, 0, 0, {}),
  F("q8_tetrahedral", 2, 3, 0, 0, {1}),
  F("packing_capability_2d", 2, 2, 0, 1, {1}),
  F("gyration_tensor", 4, 0, 0, 0, {}),
  F("participation_ratio", 4, 0, 0, 0, {}),
  F("local_vector_alignment", 3, 0, 0, 0, {}),
  F("phase_quotient", 3, 0, 0, 0, {}),
  F("divergence_curl", 3, 0, 0, 0, {}),
  F("vibrability", 2, 0, 0, 0, {1}),
  F("vector_decomposition_sq", 3, 0, 0, 0, {1}),
  F("vector_fft_corr", 3, 0, 1, 0, {0, 1, 2}),
  F("time_correlation", 4, 0, 0, 0, {1, 3}),
  F("Nnearests", 2, 0, 0, 0, {}),
  F("cutoffneighbors", 2, 0, 0, 0, {}),
  F("cutoffneighbors_particletype", 3, 0, 0, 0, {}),
  E("read_neighbors", "", "reader", 2, 0, 0, 0, "", {}, {}),
  E("reopen", "", "reopen", 1, 0, 0, 0, "", {}, {}),
  F("cal_neighbors", 1, 0, 0, 0, {}),
  F("VolumeMatrix", 3, 0, 0, 1, {1}),
  F("remove_pbc", 4, 0, 0, 0, {}),
  F("time_average", 4, 0, 1, 0, {}),
  F("spatial_average", 4, 0, 0, 0, {1}),
  F("gaussian_blurring", 2, 0, 0, 0, {1}),
  F("triangle_area", 4, 0, 0, 0, {}),
  F("moment_of_inertia", 4, 0, 0, 0, {}),
  F("Filon_COS", 3, 0, 0, 0, {1}),
  F("lines_intersection", 1, 0, 0, 0, {}),
  F("LineWithinSquare", 1, 0, 0, 0, {}),
  F("cage_relative", 2, 0, 0, 0, {}),
  F("s2_integral", 2, 0, 0, 0, {}),
  F("grid_gaussian", 2, 0, 0, 0, {}),
  F("choosewavevector", 2, 0, 0, 0, {}),
  F("sph_harm_l", 3, 0, 0, 0, {}),
  F("Wignerindex", 1, 0, 0, 0, {}),
  F("write_dump_header", 1, 0, 0, 0, {}),
  E("gr", "gr", "ctor", 2, 0, 0, 0, "", {}, {}),
  E("gr.getresults", "gr", "method", 1, 0, 0, 0, "", {}, {1}),
  E("sq", "sq", "ctor", 3, 0, 0, 0, "", {}, {}),
  E("sq.getresults", "sq", "method", 1, 0, 0, 0, "", {}, {1}),
  E("boo_3d", "boo3d", "ctor", 2, 3, 0, 0, "", {}, {}),
  E("boo_3d.ql_Ql", "boo3d", "method", 3, 3, 0, 0, "", {1, 2}, {}),
  E("boo_3d.sij_ql_Ql", "boo3d", "method", 2, 3, 0, 0, "", {1}, {}),
  E("boo_3d.w_W_cap", "boo3d", "method", 2, 3, 0, 1, "", {1}, {}),
  E("boo_3d.spatial_corr", "boo3d", "method", 2, 3, 0, 0, "", {1}, {}),
  E("boo_3d.time_corr", "boo3d", "method", 2, 3, 0, 0, "", {1}, {}),
  E("boo_2d", "boo2d", "ctor", 2, 2, 0, 0, "", {1}, {}),
  E("boo_2d.time_average", "boo2d", "method", 2, 2, 1, 0, "", {1}, {}),
  E("boo_2d.spatial_corr", "boo2d", "method", 2, 2, 0, 0, "", {1}, {}),
  E("boo_2d.time_corr", "boo2d", "method", 2, 2, 0, 0, "", {1}, {}),
  E("NematicOrder", "nematic", "ctor", 1, 2, 0, 0, "", {}, {}),
  E("NematicOrder.tensor", "nematic", "setter", 3, 2, 0, 0, "", {0, 1, 2}, {}),
  E("NematicOrder.spatial_corr", "nematic", "method", 2, 2, 0, 1, "NematicOrder.tensor", {1}, {}),
  E("NematicOrder.time_corr", "nematic", "method", 2, 2, 0, 0, "NematicOrder.tensor", {1}, {}),
  E("S2", "s2", "ctor", 2, 0, 0, 1, "", {}, {}),
  E("S2.particle_s2", "s2", "setter", 2, 0, 0, 1, "", {1}, {}),
  E("S2.spatial_corr", "s2", "method", 2, 0, 0, 1, "S2.particle_s2", {1}, {}),
  E("S2.time_corr", "s2", "method", 2, 0, 0, 1, "S2.particle_s2", {1}, {}),
  E("Dynamics", "dyn", "ctor", 2, 0, 2, 0, "", {}, {}),
  E("Dynamics.relaxation", "dyn", "method", 2, 0, 2, 0, "", {1}, {}),
  E("Dynamics.sq4", "dyn", "method", 2, 0, 2, 0, "", {1}, {}),
  E("LogDynamics", "logdyn", "ctor", 2, 0, 1, 0, "", {}, {}),
  E("LogDynamics.relaxation", "logdyn", "method", 2, 0, 1, 0, "", {1}, {}),
  E("HessianMatrix", "hess", "ctor", 1, 0, 0, 1, "", {}, {}),
  E("HessianMatrix.diagonalize_hessian", "hess", "method", 2, 0, 0, 1, "", {}, {}),
  F("fits", 2, 0, 0, 0, {}),
  F("continuousvector", 1, 0, 0, 0, {}),
  F("triangle_angle", 1, 0, 0, 0, {}),
  F("indicehis", 1, 0, 0, 0, {})
>>

NE      == Len(Reg)
Targets == {1, 2}
Fams    == {Reg[i].fam : i \in 1..NE} \ {""}
IdxOf   == [nm \in {Reg[i].n : i \in 1..NE} |-> CHOOSE i \in 1..NE : Reg[i].n = nm]
CtorOf  == [f \in Fams |-> CHOOSE i \in 1..NE : Reg[i].fam = f /\ Reg[i].role = "ctor"]
Mk(e, s, v) == [e |-> e, s |-> s, v |-> v]

(* A world describes the two shared trajectories:
   [dim, T = <<frames of target 1, of target 2>>, lin = evenly spaced timesteps?, ori = orientation
    snapshots available?, heavy = large sample trajectory?]                                        *)
Applicable(e, s, W) ==
  LET r == Reg[e] IN
  /\ r.d \in {0, W.dim}
  /\ r.fr = 0 \/ (W.T[s] >= 2 /\ (r.fr = 1 \/ W.lin[s]))
  /\ r.cost = 0 \/ ~W.heavy
  /\ r.fam = "nematic" => W.ori[s]

(* argument variants that are too slow on the large sample trajectories (tensor condition: N^2 Python loop) *)
SlowVariants(e) == IF Reg[e].n = "conditional_gr" THEN {4} ELSE {}
IsCall(c, W)   == /\ c.e \in 1..NE /\ c.s \in Targets /\ c.v \in 0..(Reg[c.e].nv - 1)
                  /\ Applicable(c.e, c.s, W) /\ ~(W.heavy /\ c.v \in SlowVariants(c.e))
AllCalls(W)    == {c \in [e : 1..NE, s : Targets, v : 0..5] : IsCall(c, W)}
BaseCalls(W)   == {c \in AllCalls(W) : c.v = 0}

----------------------------------------------------------------------------
(* Analysis objects, per (family, target), present in `an` once constructed:
   cv  constructor variant, sv setter variant (-1: state not computed yet) - the NOMINAL state, implied by
       the calls made so far; it is part of the identity of a method call;
   dirt  number of modifications of the object's state arrays by calls that do not own them - the ACTUAL
       state differs from the nominal one iff dirt > 0 (always 0 in the pure specification).            *)
NoAna   == [made |-> FALSE, cv |-> 0, sv |-> 0 - 1, dirt |-> 0]
AnaOf(an, f, s) == IF <<f, s>> \in DOMAIN an THEN an[<<f, s>>] ELSE NoAna
Put(fn, x, y)   == [z \in DOMAIN fn \cup {x} |-> IF z = x THEN y ELSE fn[z]]

(* The user's handle on the neighbour file of target s: nom = frames the user has read since (re)opening
   (what read_neighbors is specified to have consumed), act = where the handle really is.            *)
CurInit == [s \in Targets |-> [nom |-> 0, act |-> 0]]

(* The steps a user call expands to: the constructor and the default setter it needs, a reopen of
   the handle at end of file.  The harness executes exactly these steps.                        *)
Plan(c, an, cur, W) ==
  LET r == Reg[c.e] IN
  IF r.role \in {"method", "setter"} THEN
    LET a  == AnaOf(an, r.fam, c.s)
        p1 == IF ~a.made THEN << Mk(CtorOf[r.fam], c.s, 0) >> ELSE << >>
        p2 == IF r.need # "" /\ (~a.made \/ a.sv < 0) THEN << Mk(IdxOf[r.need], c.s, 0) >> ELSE << >>
    IN  p1 \o p2 \o << c >>
  ELSE IF r.role = "reader" /\ cur[c.s].nom >= W.T[c.s] THEN << Mk(IdxOf["reopen"], c.s, 0), c >>
  ELSE << c >>

(* a step is executable iff its own plan is the step alone *)
Ready(c, an, cur, W) == Plan(c, an, cur, W) = << c >>

(* Call identity: routine, target, argument variant and the part of the session state the routine
   legitimately reads (nominal state of its analysis object; nominal position of the user's handle). *)
Key(c, an, cur) ==
  LET r == Reg[c.e]
      a == AnaOf(an, r.fam, c.s) IN
  IF r.role \in {"method", "setter"} THEN << c.e, c.s, c.v, a.cv, IF r.need # "" THEN a.sv ELSE 0 - 1 >>
  ELSE IF r.role = "reader" THEN << c.e, c.s, c.v, cur[c.s].nom, 0 - 1 >>
  ELSE << c.e, c.s, c.v, 0 - 1, 0 - 1 >>

(* what the routine actually reads besides the shared objects *)
Hidden(c, an, cur) ==
  LET r == Reg[c.e] IN
  IF r.role \in {"method", "setter"} THEN AnaOf(an, r.fam, c.s).dirt
  ELSE IF r.role = "reader" THEN cur[c.s].act - cur[c.s].nom
  ELSE 0

AnaAfter(c, an) ==
  LET r == Reg[c.e] IN
  IF r.role = "ctor"   THEN Put(an, <<r.fam, c.s>>, [made |-> TRUE, cv |-> c.v, sv |-> 0 - 1, dirt |-> 0])
  ELSE IF r.role = "setter" THEN Put(an, <<r.fam, c.s>>, [AnaOf(an, r.fam, c.s) EXCEPT !.sv = c.v, !.dirt = 0])
  ELSE an

CurAfter(c, cur) ==
  LET r == Reg[c.e] IN
  IF r.role = "reader" THEN [cur EXCEPT ![c.s] = [nom |-> @.nom + 1, act |-> @.act + 1]]
  ELSE IF r.role = "reopen" THEN [cur EXCEPT ![c.s] = [nom |-> 0, act |-> 0]]
  ELSE cur

(* does the call write an output file that must hold the returned value? *)
Writes(c, an) ==
  LET r == Reg[c.e] IN
  \/ c.v \in r.fv
  \/ r.fvc # {} /\ AnaOf(an, r.fam, c.s).made /\ AnaOf(an, r.fam, c.s).cv \in r.fvc

(* which family state / cursor may the step change *)
MayChangeAna(c, f, s) == Reg[c.e].fam = f /\ c.s = s /\ Reg[c.e].role \in {"ctor", "setter"}
MayChangeCur(c, s)    == c.s = s /\ Reg[c.e].role \in {"reader", "reopen"}

----------------------------------------------------------------------------
(* State machine (W = world descriptor, defined by the model / given by the trace).
   Shared objects 1..6: snapshot arrays, array arguments, input files of target 1, 2. *)
Objects == 1..6
ObjsOfTarget(s) == {s, s + 2, s + 4}

VARIABLES objs,      \* version of every shared object (snapshot arrays, array arguments, input files)
          ana,       \* analysis objects per (family, target)
          cursor,    \* the user's neighbour-file handle per target
          disk,      \* output files: step number -> content
          memo,      \* call identity -> result of the first call with that identity
          cache,     \* module-level cache (used by the impure CachedCall only)
          hist,      \* executed steps with their observations
          pending,   \* planned steps of the current user call still to execute
          word       \* the user calls so far
vars == <<objs, ana, cursor, disk, memo, cache, hist, pending, word>>

ObjsInit == [o \in Objects |-> 0]

Val(k, ob, hid) == << k, ob, hid >>               \* the value: a function of identity and inputs only
PureVal(k)      == Val(k, ObjsInit, 0)
Written(x)      == << "file", x >>                \* projection of a value to the written precision

Init == /\ objs = ObjsInit /\ ana = << >> /\ cursor = CurInit
        /\ disk = << >> /\ memo = << >> /\ cache = << >>
        /\ hist = << >> /\ pending = << >> /\ word = << >>

Step(W, c, res, objs2, ana2, cur2, filecontent) ==
  LET k == Key(c, ana, cursor)
      w == Writes(c, ana)
      n == Len(hist) + 1
  IN  /\ objs' = objs2 /\ ana' = ana2 /\ cursor' = cur2
      /\ memo' = IF k \in DOMAIN memo THEN memo ELSE Put(memo, k, res)
      /\ disk' = IF w THEN Put(disk, n, filecontent) ELSE disk
      /\ hist' = Append(hist, [c |-> c, key |-> k, res |-> res,
                               ochg  |-> {o \in Objects : objs2[o] # objs[o]},
                               achg  |-> {x \in DOMAIN ana2 : AnaOf(ana2, x[1], x[2]) # AnaOf(ana, x[1], x[2])},
                               cchg  |-> {s \in Targets : cur2[s] # cursor[s]},
                               cur   |-> << cur2[1].act, cur2[2].act >>,
                               wrote |-> w, ready |-> Ready(c, ana, cursor, W), scr |-> FALSE])

Here(c) == Val(Key(c, ana, cursor), objs, Hidden(c, ana, cursor))

(* the pure call: the only kind of call in Next *)
Exec(W, c) ==
  /\ Step(W, c, Here(c), objs, AnaAfter(c, ana), CurAfter(c, cursor), Written(Here(c)))
  /\ UNCHANGED cache

(* The user overwrites, in place, the value that step i returned (y *= w, y[:] = 0, ...).  A result is a
   fresh value owned by the caller: in the pure specification nothing else changes - in particular a later
   call with the same identity still returns the original value (RepeatAgrees).  Only a value handed out
   from a shared cache (AliasedResultCall below) is affected.                                          *)
Scribble(i) ==
  /\ i \in DOMAIN hist /\ ~hist[i].scr
  /\ hist'  = [hist EXCEPT ![i].scr = TRUE]
  /\ cache' = [k \in DOMAIN cache |-> IF k = hist[i].key THEN << "scribbled", cache[k] >> ELSE cache[k]]
  /\ UNCHANGED <<objs, ana, cursor, disk, memo, pending, word>>

(* ---- impure behaviours (not in Next) ---- *)
(* memoisation keyed by the FULL call identity (functools.lru_cache) that hands out the cached object
   itself instead of a copy: pure until a caller modifies what it was given                      *)
AliasedResultCall(W, c) ==
  LET k   == Key(c, ana, cursor)
      res == IF k \in DOMAIN cache THEN cache[k] ELSE Here(c) IN
  /\ Step(W, c, res, objs, AnaAfter(c, ana), CurAfter(c, cursor), Written(res))
  /\ cache' = Put(cache, k, res)
(* in-place centring / normalising / sorting of a snapshot array or an array argument *)
MutatingCall(W, c, o) ==
  /\ o \in ObjsOfTarget(c.s)
  /\ Step(W, c, Here(c), [objs EXCEPT ![o] = @ + 1], AnaAfter(c, ana), CurAfter(c, cursor), Written(Here(c)))
  /\ UNCHANGED cache
(* module-level cache keyed by the routine only: a different call gets the stale result *)
CachedCall(W, c) ==
  LET res == IF c.e \in DOMAIN cache THEN cache[c.e] ELSE Here(c) IN
  /\ Step(W, c, res, objs, AnaAfter(c, ana), CurAfter(c, cursor), Written(res))
  /\ cache' = Put(cache, c.e, res)
(* the file is written from another (differently rounded / recomputed) object than the one returned *)
FileFromOtherObject(W, c) ==
  /\ Writes(c, ana)
  /\ Step(W, c, Here(c), objs, AnaAfter(c, ana), CurAfter(c, cursor), Written(<< "other", Here(c) >>))
  /\ UNCHANGED cache
(* a plain method modifies the state arrays of its analysis object in place *)
StateCorruptingCall(W, c) ==
  LET r == Reg[c.e] IN
  /\ r.role = "method"
  /\ Step(W, c, Here(c), objs, Put(ana, <<r.fam, c.s>>, [AnaOf(ana, r.fam, c.s) EXCEPT !.dirt = @ + 1]),
          CurAfter(c, cursor), Written(Here(c)))
  /\ UNCHANGED cache
(* a routine that was given the file name reads from the user's open handle instead *)
CursorStealingCall(W, c) ==
  /\ Reg[c.e].role \notin {"reader", "reopen"}
  /\ cursor[c.s].act < W.T[c.s]
  /\ Step(W, c, Here(c), objs, AnaAfter(c, ana), [cursor EXCEPT ![c.s].act = @ + 1], Written(Here(c)))
  /\ UNCHANGED cache

----------------------------------------------------------------------------
(* The clauses of C18 on the model *)
InputsUnchanged ==
  /\ objs = ObjsInit
  /\ \A i \in DOMAIN hist : hist[i].ochg = {}
RepeatAgrees ==
  \A i, j \in DOMAIN hist : hist[i].key = hist[j].key => hist[i].res = hist[j].res
ResultDetermined ==                     \* stronger: the result is THE function of identity and inputs
  /\ \A i \in DOMAIN hist : hist[i].res = PureVal(hist[i].key)
  /\ \A k \in DOMAIN memo : memo[k] = PureVal(k)
FileHoldsReturned ==
  /\ \A i \in DOMAIN hist : hist[i].wrote => (i \in DOMAIN disk /\ disk[i] = Written(hist[i].res))
  /\ \A i \in DOMAIN disk : hist[i].wrote
StateOnlyByOwner ==
  \A i \in DOMAIN hist : \A x \in hist[i].achg : MayChangeAna(hist[i].c, x[1], x[2])
CursorOnlyByReader ==
  \A i \in DOMAIN hist : \A s \in hist[i].cchg : MayChangeCur(hist[i].c, s)
PlannedOnly == \A i \in DOMAIN hist : hist[i].ready
=============================================================================
