--------------------------- MODULE MC_LocalOrder ---------------------------
(***************************************************************************)
(* Models of property C17.  One state = one input `c` of one of four       *)
(* sub-models (constant Model): "s2" | "tetra" | "nematic" | "gyr".        *)
(* The clauses that TLC can decide exactly are the Inv* invariants; with   *)
(* Gen = TRUE every state prints its case: the abstract input, the         *)
(* discrete decisions (contributing neighbours, pair widths, the four      *)
(* nearest, tie / float-regime flags) and the expectation as Real terms.   *)
(***************************************************************************)
EXTENDS LocalOrder, TLC, Json

CONSTANTS Tier, Model, Gen, SHARD, NSHARDS
VARIABLES c
vars == <<c>>
Thorough == Tier = "thorough"
IsM(m) == Model = m

Hh(a, b, k) == (a * 7919 + b * 104729 + k * 1299709 + a * b * 31 + b * k * 17 + a * k * 13 + 4321) % 10007
Rnd(seed, i, k, lo, hi) == lo + (Hh(seed, i, k) % (hi - lo + 1))
Pick(seed, salt, s) == s[1 + (Hh(seed, salt, 7) % Len(s))]
MaskBits(x, d)  == [k \in 1..d |-> (x \div IPow(2, k - 1)) % 2]
Tri2(a, t, b) == << <<a, 0>>, <<t, b>> >>
Tri3(a, b, cc, xy, xz, yz) == << <<a, 0, 0>>, <<xy, b, 0>>, <<xz, yz, cc>> >>
Others(n, i)     == SelectSeq([j \in 1..n |-> j], LAMBDA j : j # i)
RevSeq(s)        == [k \in 1..Len(s) |-> s[Len(s) + 1 - k]]
NLRnd(seed, n)   ==
  [i \in 1..n |->
     LET o   == Others(n, i)
         sel == SelectSeq(o, LAMBDA j : (Hh(seed, i, j) % 3) # 0)
         s   == IF sel = << >> THEN << o[1 + (Hh(seed, i, 0) % Len(o))] >> ELSE sel
     IN  IF Hh(seed, i, 99) % 2 = 0 THEN s ELSE RevSeq(s)]

NSeeds == IF IsM("s2") THEN (IF Thorough THEN 3000 ELSE 140)
          ELSE IF IsM("tetra") THEN (IF Thorough THEN 10000 ELSE 500)
          ELSE IF IsM("nematic") THEN (IF Thorough THEN 12000 ELSE 600)
          ELSE (IF Thorough THEN 15000 ELSE 800)

(***************************************************************************)
(* s2                                                                      *)
(***************************************************************************)
S2Cells2 == << Tri2(5, 0, 7), Tri2(7, 2, 5), Tri2(9, 0 - 3, 7), Tri2(4, 0, 6) >>
S2Cells3 == << Tri3(5, 7, 5, 0, 0, 0), Tri3(7, 5, 7, 2, 0 - 1, 3), Tri3(4, 4, 6, 0, 0, 0) >>
Widths   == << <<1, 10>>, <<1, 5>>, <<3, 10>>, <<1, 2>>, <<1, 20>>, <<1, 50>>, <<3, 20>>, <<1, 1>>, <<2, 5>> >>
Deltas   == << <<1, 10>>, <<1, 5>>, <<1, 4>>, <<1, 2>>, <<3, 10>> >>
S2Scope ==
  { LET d  == 2 + (seed % 2)
        n  == 2 + (Hh(seed, 1, 1) % 4)
        K  == 1 + (Hh(seed, 1, 2) % 3)
        H  == IF d = 2 THEN Pick(seed, 3, S2Cells2) ELSE Pick(seed, 3, S2Cells3)
        T  == 1 + ((Hh(seed, 1, 3) % 4) \div 3)
        dl == Pick(seed, 8, Deltas)
        pp == MaskBits(Hh(seed, 4, 4), d)
        f0 == [f \in 1..T |-> [i \in 1..n |-> [k \in 1..d |-> Rnd(seed, 40 * f + i, k, 0 - 1, H[k][k] + 1)]]]
    IN  [id |-> seed, d |-> d, H |-> H, ppp |-> pp, S |-> Pick(seed, 5, <<1, 2>>),
         fr0 |-> f0,      \* every other seed: each particle displaced by -2..3 whole cell vectors per periodic axis
         fr |-> IF Hh(seed, 2, 7) % 2 = 0 THEN f0
                ELSE [f \in 1..T |-> LoUnwrap(f0[f], H, pp, LAMBDA i, k : Rnd(seed, 90 + i + 7 * f, k, 0 - 2, 3))],
         types |-> [i \in 1..n |-> IF i <= K THEN i ELSE Rnd(seed, 30, i, 1, K)],
         sig |-> [a \in 1..K |-> [b \in 1..K |-> Pick(seed + 3 * a + 11 * b, 6, Widths)]],
         rn |-> dl[1], rd |-> dl[2], nd |-> Rnd(seed, 9, 9, 4, IF d = 2 THEN 18 ELSE 12),
         savegr |-> ((Hh(seed, 2, 2) % 3) = 0)] : seed \in 1..NSeeds }
\* dyadic family with neighbours exactly at r_max = rdelta (2 nd - 1) / 2 = 7/4 (S = 4: d2 = 49):
\* the comparison is strict, such a neighbour does not contribute
S2EdgeScope ==
  { [id |-> 0, d |-> 2, H |-> Tri2(32, 0, 32), ppp |-> p, S |-> 4,
     fr0 |-> << << <<4, 4>>, <<11, 4>>, <<4, 11>>, q, <<4 + 32, 4 - 3>> >> >>,
     fr |-> << << <<4, 4>>, <<11, 4>>, <<4, 11>>, q, <<4 + 32, 4 - 3>> >> >>,
     types |-> <<1, 1, 2, 1, 2>>, sig |-> << <<w, <<1, 4>>>>, <<<<1, 2>>, w>> >>,
     rn |-> 1, rd |-> 2, nd |-> 4, savegr |-> FALSE] :
       p \in {<<1, 1>>, <<0, 0>>}, w \in {<<1, 4>>, <<1, 8>>}, q \in {<<7, 8>>, <<8, 8>>, <<10, 4>>} }
\* sheared runs: 2-3 frames, constant box lengths, tilt factors (and, for every other seed, the type
\* vector) change from frame to frame.  Only seeds are kept for which the frame's own cell matters:
\* some pair of a later frame has a different minimum-image distance under the first frame's cell.
NShear == IF Thorough THEN 600 ELSE 36
ShearH(seed, d, f) ==
  IF d = 2 THEN Tri2(7, Rnd(seed, 70 + f, 1, 0 - 3, 3), 5)
  ELSE Tri3(7, 5, 7, Rnd(seed, 70 + f, 1, 0 - 3, 3), Rnd(seed, 70 + f, 2, 0 - 3, 3), Rnd(seed, 70 + f, 3, 0 - 2, 2))
S2ShearRaw ==
  { LET d  == 2 + (seed % 2)
        n  == 3 + (Hh(seed, 1, 1) % 3)
        K  == 1 + (Hh(seed, 1, 2) % 2)
        T  == 2 + (Hh(seed, 1, 3) % 2)
        dl == Pick(seed, 8, <<<<1, 5>>, <<1, 4>>, <<1, 2>>>>)
        ty == [i \in 1..n |-> IF i <= K THEN i ELSE Rnd(seed, 30, i, 1, K)]
        pp == IF Hh(seed, 4, 4) % 3 = 0 THEN MaskBits(Hh(seed, 4, 5), d) ELSE [k \in 1..d |-> 1]
        f0 == [f \in 1..T |-> [i \in 1..n |-> [k \in 1..d |-> Rnd(seed, 40 * f + i, k, 0 - 1, 8)]]]
        base == [id |-> 20000 + seed, d |-> d, H |-> ShearH(seed, d, 1), ppp |-> pp, S |-> Pick(seed, 5, <<1, 2>>),
                 fr0 |-> f0,
                 fr |-> IF seed % 3 # 0 THEN f0
                        ELSE [f \in 1..T |-> LoUnwrap(f0[f], ShearH(seed, d, f), pp, LAMBDA i, k : Rnd(seed, 90 + i + 7 * f, k, 0 - 2, 3))],
                 types |-> ty,
                 sig |-> [a \in 1..K |-> [b \in 1..K |-> Pick(seed + 3 * a + 11 * b, 6, <<<<1, 5>>, <<3, 10>>, <<1, 2>>, <<1, 1>>, <<2, 5>>>>)]],
                 rn |-> dl[1], rd |-> dl[2], nd |-> Rnd(seed, 9, 9, 8, 16), savegr |-> ((Hh(seed, 2, 2) % 4) = 0),
                 Hs |-> [f \in 1..T |-> ShearH(seed, d, f)]]
    IN  IF seed % 2 = 0 /\ K = 2
        THEN base @@ [tys |-> [f \in 1..T |-> IF f = 1 THEN ty ELSE [i \in 1..n |-> ty[n + 1 - i]]]]
        ELSE base : seed \in 1..NShear }
ShearMatters(x) ==
  \E f \in 2..Len(x.fr) : \E i, j \in 1..Len(x.types) :
     i < j /\ Norm2(LoImg(x.Hs[f], Adj(x.Hs[f]), Det(x.Hs[f]), VSub(x.fr[f][j], x.fr[f][i]), x.ppp))
               # Norm2(LoImg(x.Hs[1], Adj(x.Hs[1]), Det(x.Hs[1]), VSub(x.fr[f][j], x.fr[f][i]), x.ppp))
S2ShearScope == {x \in S2ShearRaw : ShearMatters(x)}
\* the single-frame view of frame f (the operators of LocalOrder take one configuration): cell and types of frame f
S2Raw(f) == [d |-> c.d, H |-> LoFrameH(c, f), ppp |-> c.ppp, S |-> c.S, pos |-> c.fr[f], types |-> LoFrameTypes(c, f),
             sig |-> c.sig, rn |-> c.rn, rd |-> c.rd, nd |-> c.nd]
\* all frames with their pair tables (bind with LET: evaluated once per use site)
S2Frames == [f \in 1..Len(c.fr) |-> S2Prep(S2Raw(f))]

(***************************************************************************)
(* tetra                                                                   *)
(***************************************************************************)
Diamond8 == << <<0, 0, 0>>, <<0, 2, 2>>, <<2, 0, 2>>, <<2, 2, 0>>, <<1, 1, 1>>, <<1, 3, 3>>, <<3, 1, 3>>, <<3, 3, 1>> >>
TetA == << <<1, 1, 1>>, <<1, 0 - 1, 0 - 1>>, <<0 - 1, 1, 0 - 1>>, <<0 - 1, 0 - 1, 1>> >>
Cluster(c0, a, sg, far) ==       \* centre + regular tetrahedron of half-edge a (mirror image for sg = -1) + far atoms
  <<c0>> \o [x \in 1..4 |-> VAdd(c0, VScale(a * sg, TetA[x]))] \o far
\* displacement of particle i by whole cell vectors: -2..3 per axis (applied along periodic axes only)
UnwN(seed, i, k) == Rnd(seed, 90 + i, k, 0 - 2, 3)
TetraFixed ==
  { LET H == Tri3(4 * a, 4 * a, 4 * a, 0, 0, 0)
        p0 == [i \in 1..8 |-> VAdd(VScale(a, Diamond8[i]), t)]
    IN  [id |-> 0, kind |-> "diamond", H |-> H, ppp |-> <<1, 1, 1>>, S |-> s, pos0 |-> p0,
         pos |-> IF u = 0 THEN p0 ELSE LoUnwrap(p0, H, <<1, 1, 1>>, LAMBDA i, k : UnwN(17 * u + a, i, k))] :
       a \in {1, 2}, s \in {1, 2}, t \in {<<0, 0, 0>>, <<1, 0 - 2, 5>>}, u \in {0, 1, 2} }
  \cup
  { [id |-> 0, kind |-> "cluster", H |-> Tri3(31, 31, 31, 0, 0, 0), ppp |-> p, S |-> 1, pos0 |-> Cluster(<<4, 5, 6>>, a, sg, far),
     pos |-> IF sg = 1 THEN Cluster(<<4, 5, 6>>, a, sg, far)
             ELSE LoUnwrap(Cluster(<<4, 5, 6>>, a, sg, far), Tri3(31, 31, 31, 0, 0, 0), p, LAMBDA i, k : UnwN(a, i, k))] :
       a \in {1, 2}, sg \in {1, 0 - 1}, p \in {<<0, 0, 0>>, <<1, 1, 1>>},
       far \in { << >>, << <<12, 12, 12>> >>, << <<12, 12, 12>>, <<13, 0, 1>>, <<0 - 3, 9, 9>> >> } }
TetraRnd ==
  { LET n == 5 + (Hh(seed, 1, 1) % 4)
        H == Pick(seed, 3, << Tri3(7, 7, 9, 0, 0, 0), Tri3(9, 7, 7, 2, 0 - 3, 1), Tri3(5, 5, 5, 0, 0, 0), Tri3(11, 9, 7, 0, 0, 0) >>)
        pp == MaskBits(Hh(seed, 4, 4), 3)
        p0 == [i \in 1..n |-> [k \in 1..3 |-> Rnd(seed, 40 + i, k, 0 - 1, H[k][k])]]
        base == [id |-> seed, kind |-> "rnd", H |-> H, ppp |-> pp, S |-> Pick(seed, 5, <<1, 2, 4>>), pos0 |-> p0,
                 pos |-> IF Hh(seed, 2, 7) % 2 = 0 THEN p0 ELSE LoUnwrap(p0, H, pp, LAMBDA i, k : UnwN(seed, i, k))]
    IN  \* every third case is a two-frame trajectory: another configuration in a cell with the same box
        \* lengths and other tilt factors (the routine must take positions AND cell of frame 2 from frame 2)
        IF seed % 3 = 0
        THEN base @@ [H2   |-> Tri3(H[1][1], H[2][2], H[3][3], Rnd(seed, 71, 1, 0 - 3, 3), Rnd(seed, 71, 2, 0 - 3, 3), Rnd(seed, 71, 3, 0 - 2, 2)),
                      pos2 |-> [i \in 1..n |-> [k \in 1..3 |-> Rnd(seed, 80 + i, k, 0 - 1, H[k][k])]]]
        ELSE base : seed \in 1..NSeeds }
\* a perturbed diamond cell: one atom displaced on the fine grid
TetraPert ==
  { LET p0 == [i \in 1..8 |-> IF i = 1 + (seed % 8)
                             THEN VAdd(VScale(3, Diamond8[i]), [k \in 1..3 |-> Rnd(seed, 7, k, 0 - 1, 1)])
                             ELSE VScale(3, Diamond8[i])]
    IN  [id |-> seed, kind |-> "pert", H |-> Tri3(12, 12, 12, 0, 0, 0), ppp |-> <<1, 1, 1>>, S |-> 3, pos0 |-> p0,
         pos |-> IF seed % 2 = 0 THEN p0 ELSE LoUnwrap(p0, Tri3(12, 12, 12, 0, 0, 0), <<1, 1, 1>>, LAMBDA i, k : UnwN(seed, i, k))] :
      seed \in 1..(IF Thorough THEN 400 ELSE 60) }
TetraScope == TetraFixed \cup TetraRnd \cup TetraPert

(***************************************************************************)
(* nematic                                                                 *)
(***************************************************************************)
Pyth(C) == IF C = 5 THEN << <<3, 4>>, <<4, 3>>, <<5, 0>>, <<0, 5>> >>
           ELSE IF C = 13 THEN << <<5, 12>>, <<12, 5>>, <<13, 0>>, <<0, 13>> >>
           ELSE IF C = 25 THEN << <<7, 24>>, <<24, 7>>, <<15, 20>>, <<20, 15>>, <<25, 0>>, <<0, 25>> >>
           ELSE << <<16, 63>>, <<63, 16>>, <<25, 60>>, <<60, 25>>, <<33, 56>>, <<56, 33>>, <<39, 52>>, <<52, 39>>, <<65, 0>>, <<0, 65>> >>
UnitVec(seed, i, C) == LET p == Pick(seed + 5 * i, 20 + i, Pyth(C))
                           sx == 1 - 2 * (Hh(seed, i, 21) % 2)  sy == 1 - 2 * (Hh(seed, i, 22) % 2)
                       IN  <<sx * p[1], sy * p[2]>>
\* row order of the neighbour file of one frame (identity for a third of the frames)
NemOrder(seed, n) == IF Hh(seed, 8, 8) % 3 = 0 THEN [k \in 1..n |-> k] ELSE LoPermByKey(LAMBDA i : Hh(seed, i, 55) % 512, n)
NemScope ==
  { LET n == 2 + (Hh(seed, 1, 1) % 4)
        C == Pick(seed, 2, <<5, 13, 25, 65>>)
        T == 1 + (Hh(seed, 1, 3) % 2)
        hasnl == (Hh(seed, 1, 4) % 4) # 0
    IN  [id |-> seed, C |-> C,
         fr |-> [f \in 1..T |-> [i \in 1..n |-> UnitVec(seed + 1000 * f, i, C)]],
         nl |-> IF hasnl THEN [f \in 1..T |-> NLRnd(seed + 77 * f, n)] ELSE << >>,
         roword |-> [f \in 1..T |-> NemOrder(seed + f, n)],
         Nmax |-> Pick(seed, 5, <<30, 4, 10, 1, 2, 3>>)] : seed \in 1..NSeeds }     \* 1..3: below / at / above the counts
\* long lists (cut-off style: 31..39 listed neighbours for each of 40 particles, more than the default
\* Nmax = 30 of the routines) with Nmax above every count, between the counts, at a count, at the default, far below
NBig == IF Thorough THEN 120 ELSE 14
BigList(seed, n, i) ==
  LET o  == Others(n, i)
      pm == LoPermByKey(LAMBDA x : Hh(seed, i, x) % 512, Len(o))
  IN  [x \in 1..(31 + (Hh(seed, i, 3) % 9)) |-> o[pm[x]]]
NemBigScope ==
  { LET n == 40
        C == Pick(seed, 2, <<5, 13>>)
        T == 1 + (Hh(seed, 1, 3) % 2)
    IN  [id |-> 30000 + seed, C |-> C,
         fr |-> [f \in 1..T |-> [i \in 1..n |-> UnitVec(seed + 1000 * f, i, C)]],
         nl |-> [f \in 1..T |-> [i \in 1..n |-> BigList(seed + 77 * f, n, i)]],
         roword |-> [f \in 1..T |-> NemOrder(seed + f, n)],
         Nmax |-> Pick(seed, 5, <<50, 39, 35, 30, 31, 12, 200>>)] : seed \in 1..NBig }
\* the lists of frame f as delivered for the argument Nmax
NemNL(f) == IF c.nl = << >> THEN << >> ELSE LoTrunc(c.nl[f], c.Nmax)

(***************************************************************************)
(* gyr                                                                     *)
(***************************************************************************)
Rots == << [n |-> << <<1, 2, 2>>, <<2, 1, 0 - 2>>, <<2, 0 - 2, 1>> >>, den |-> 3],
           [n |-> << <<2, 3, 6>>, <<3, 0 - 6, 2>>, <<6, 2, 0 - 3>> >>, den |-> 7],
           [n |-> << <<1, 4, 8>>, <<4, 7, 0 - 4>>, <<8, 0 - 4, 1>> >>, den |-> 9],
           [n |-> << <<0, 0, 1>>, <<1, 0, 0>>, <<0, 1, 0>> >>, den |-> 1] >>
\* orbit of generator points under x -> -x, y -> -y (off-diagonal second moments vanish), then shifted
Orbit(gs, t) ==
  LET pts == UNION {{<<g[1], g[2], g[3]>>, <<0 - g[1], g[2], g[3]>>, <<g[1], 0 - g[2], g[3]>>, <<0 - g[1], 0 - g[2], g[3]>>} :
                      g \in Range(gs)}
      key(p) == ((p[1] + 8) * 17 + (p[2] + 8)) * 17 + (p[3] + 8)
      ks  == SortedSeq({key(p) : p \in pts})
  IN  [x \in 1..Len(ks) |-> VAdd(CHOOSE p \in pts : key(p) = ks[x], t)]
GyrScope ==
  { LET kind == Pick(seed, 1, <<"2d", "2d", "3d", "axis", "axis", "rot">>)
        n    == 2 + (Hh(seed, 1, 1) % 5)
        gens == [g \in 1..(1 + (Hh(seed, 1, 2) % 2)) |-> [k \in 1..3 |-> Rnd(seed, 50 + g, k, 0, 3)]]
        t    == [k \in 1..3 |-> Rnd(seed, 60, k, 0 - 3, 3)]
        base == IF kind = "2d" THEN [i \in 1..n |-> [k \in 1..2 |-> Rnd(seed, 40 + i, k, 0 - 5, 5)]]
                ELSE IF kind = "3d" THEN [i \in 1..n |-> [k \in 1..3 |-> Rnd(seed, 40 + i, k, 0 - 4, 4)]]
                ELSE Orbit(gens, IF kind = "axis" THEN t ELSE <<0, 0, 0>>)
        rot  == Pick(seed, 4, Rots)
    IN  [id |-> seed, kind |-> kind, S |-> Pick(seed, 5, <<1, 2>>), base |-> base,
         Rn |-> (IF kind = "rot" THEN rot.n ELSE << >>), rden |-> (IF kind = "rot" THEN rot.den ELSE 1)] :
       seed \in 1..NSeeds }
\* the cloud handed to the code: integers over c.S * c.rden
GyCloud == IF c.kind = "rot" THEN GyRotate(c.base, c.Rn) ELSE c.base
GyScale == c.S * c.rden

Scope == IF IsM("s2") THEN S2Scope \cup S2EdgeScope \cup S2ShearScope ELSE IF IsM("tetra") THEN TetraScope
         ELSE IF IsM("nematic") THEN NemScope \cup NemBigScope ELSE {x \in GyrScope : Len(x.base) >= 2 /\ GyTr(GyNum(x.base)) > 0}

Key(x) == x.id + (IF IsM("tetra") THEN x.pos[1][1] + x.S + x.H[1][1] + Len(x.pos) + x.ppp[1] + x.pos[2][2] ELSE 0)
Init == /\ c \in Scope
        /\ Key(c) % NSHARDS = SHARD
Next == UNCHANGED vars
Spec == Init /\ [][Next]_vars

(***************************************************************************)
(* invariants                                                              *)
(***************************************************************************)
InvS2ContribExact     == IsM("s2") => LET P == S2Frames IN \A f \in 1..Len(c.fr) : S2ContribExact(P[f])
InvS2ContribSymmetric == IsM("s2") => LET P == S2Frames IN \A f \in 1..Len(c.fr) : S2ContribSymmetric(P[f])
\* S2LatticeLemma: on small full lattices every particle sees the environment of particle 1 (the trace specification then
\* decides lattices of more than a thousand particles from row 1 alone, LocalOrder!S2PrepOne); evaluated by shard 0
S2SmallLat(n, a) ==
  LET N == ProdSeq(n)
      sites == IF Len(n) = 2 THEN [m \in 1..N |-> <<a * ((m - 1) \div n[2]), a * ((m - 1) % n[2])>>]
               ELSE [m \in 1..N |-> <<a * ((m - 1) \div (n[2] * n[3])), a * (((m - 1) \div n[3]) % n[2]), a * ((m - 1) % n[3])>>]
  IN
  S2Prep([d |-> Len(n), H |-> [k \in 1..Len(n) |-> [j \in 1..Len(n) |-> IF j = k THEN n[k] * a ELSE 0]],
          ppp |-> [k \in 1..Len(n) |-> 1], S |-> 10, pos |-> sites, types |-> [i \in 1..Len(sites) |-> 1],
          sig |-> << << <<3, 10>> >> >>, rn |-> 1, rd |-> 2, nd |-> 6])
ASSUME S2LatticeLemma ==
  (~IsM("s2") \/ SHARD # 0) \/
  \A n \in { <<3, 3>>, <<3, 4>>, <<4, 5>>, <<3, 3, 3>>, <<2, 3, 4>> } :
     LET P == S2SmallLat(n, 10) IN
     /\ S2LatticeEnvironments(P)
     /\ LET P1 == S2PrepOne(P) IN
        /\ P1.rt[1] = P.rt[1] /\ P1.tt[1] = P.tt[1]
        /\ S2Term(P1, 1) = S2Term(P, 1) /\ S2Class(P1, 1) = S2Class(P, 1) /\ S2Tie(P1, 1) = S2Tie(P, 1)
        /\ \A i \in 2..S2N(P) : Len(S2Contrib(P, i)) = Len(S2Contrib(P, 1)) /\ S2Class(P, i) = S2Class(P, 1)

InvS2ClassConsistent  == IsM("s2") => LET P == S2Frames IN \A f \in 1..Len(c.fr) : S2ClassConsistent(P[f])
\* the directly computed pair tables agree with Cell!MinImage (sampled pairs of every configuration)
InvFastImage ==
  /\ IsM("s2") => \A f \in 1..Len(c.fr) : \A j \in 2..Len(c.types) : LoFastIsMinImage(LoFrameH(c, f), c.ppp, c.fr[f], 1, j)
  /\ IsM("tetra") => \A j \in {2, 3, Len(c.pos)} : LoFastIsMinImage(c.H, c.ppp, c.pos, 1, j) /\ LoFastIsMinImage(c.H, c.ppp, c.pos, j, 1)
\* the edge family really has neighbours exactly at r_max, decided sharply (not as ties)
InvS2EdgeFamily == (IsM("s2") /\ c.id = 0) =>
   LET P == S2Frames IN /\ S2HasSharpEdge(P[1], 1) /\ ~S2Tie(P[1], 1)
                        /\ 2 \notin Range(S2Contrib(P[1], 1)) /\ 3 \notin Range(S2Contrib(P[1], 1))

\* per-frame cells: well formed, box lengths (hence the density) the same in every frame, and every
\* sheared case has a later frame in which the frame's own cell decides a distance
InvS2FrameCells == IsM("s2") =>
   LET P == S2Frames IN
   /\ LoFramesWellFormed(c, Len(c.fr))
   /\ \A f \in 1..Len(c.fr) : S2Vol(P[f]) = S2Vol(P[1]) /\ P[f].H = LoFrameH(c, f) /\ P[f].types = LoFrameTypes(c, f)
   /\ c.id > 20000 => ShearMatters(c)
\* unwrapped coordinates: whole cell vectors along periodic axes change no minimum-image vector
InvS2UnwrapInvariant == IsM("s2") =>
   \A f \in 1..Len(c.fr) : LoUnwrapInvariant(LoFrameH(c, f), c.ppp, c.fr[f], c.fr0[f])

TeRT == TeTable(c.H, c.ppp, c.pos)
TeTT == TeTieTable(c.H, c.ppp, c.pos)
TeDg == IsDiagonal(c.H)
\* second frame of a two-frame case
TeHas2 == "pos2" \in DOMAIN c
TeRT2 == TeTable(c.H2, c.ppp, c.pos2)
TeTT2 == TeTieTable(c.H2, c.ppp, c.pos2)
TeDg2 == IsDiagonal(c.H2)
InvTeRegularIsPerfect == IsM("tetra") => /\ TeRegularIsPerfect(TeRT, TeTT, TeDg)
                                         /\ TeHas2 => TeRegularIsPerfect(TeRT2, TeTT2, TeDg2)
InvTeFourAreNearest   == IsM("tetra") => /\ TeFourAreNearest(TeRT, TeTT, TeDg)
                                         /\ TeHas2 => TeFourAreNearest(TeRT2, TeTT2, TeDg2)
\* unwrapped coordinates: whole cell vectors along periodic axes change no bond vector
InvTeUnwrapInvariant == IsM("tetra") => LoUnwrapInvariant(c.H, c.ppp, c.pos, c.pos0)
\* frames of a trajectory: same particle number and box lengths, lower-triangular cells
InvTeFrames == (IsM("tetra") /\ TeHas2) => /\ Len(c.pos2) = Len(c.pos) /\ IsLowerTri(c.H2)
                                            /\ \A k \in 1..3 : c.H2[k][k] = c.H[k][k]
\* the diamond-lattice environment is perfect for every atom, and so is the centre of each cluster
InvTeDiamond == IsM("tetra") =>
   /\ c.kind = "diamond" => \A i \in 1..8 : ~TeTie(TeRT, TeTT, TeDg, i) /\ TePerfectB(TeBonds(TeRT, i))
   /\ c.kind = "cluster" => (~TeTie(TeRT, TeTT, TeDg, 1) /\ TePerfectB(TeBonds(TeRT, 1)))

InvNmSymTraceless   == IsM("nematic") => \A f \in 1..Len(c.fr) : NmSymTraceless(c.fr[f], c.C, NemNL(f))
InvNmTraceEqualsEig == IsM("nematic") => \A f \in 1..Len(c.fr) : NmTraceEqualsEigen(c.fr[f], c.C, NemNL(f))
InvNmRawIsOne       == IsM("nematic") => \A f \in 1..Len(c.fr) : NmRawIsOne(c.fr[f], c.C)
InvNmInUnitRange    == IsM("nematic") => \A f \in 1..Len(c.fr) : NmInUnitRange(c.fr[f], c.C, NemNL(f))
\* truncation to Nmax; the row order of the file is not part of the input; the long-list family really
\* has counts above the routines' default of 30
InvNmTruncation     == IsM("nematic") => \A f \in 1..Len(c.fr) : c.nl # << >> => NmTruncation(c.nl[f], c.Nmax)
InvNmRowOrder       == IsM("nematic") => \A f \in 1..Len(c.fr) :
                          /\ LoIsPerm(c.roword[f], Len(c.fr[f]))
                          /\ c.nl # << >> => LoOfRows(LoRows(c.nl[f], c.roword[f])) = c.nl[f]
InvNmBigFamily      == (IsM("nematic") /\ c.id > 30000) =>
                          \A f \in 1..Len(c.fr) : \A i \in 1..Len(c.fr[f]) : Len(c.nl[f][i]) > 30 /\ Len(c.nl[f][i]) < 40
InvNmUnitVectors    == IsM("nematic") => \A f \in 1..Len(c.fr) : \A i \in 1..Len(c.fr[f]) : Norm2(c.fr[f][i]) = c.C * c.C

InvGyKappaIdentity  == IsM("gyr") => GyKappaIdentity(c.base)
InvGyRanges         == IsM("gyr") => GyRanges(c.base)
InvGyShiftInvariant == IsM("gyr") => GyShiftInvariant(c.base, [k \in 1..Len(c.base[1]) |-> 3 - 2 * k])
InvGyRotatedEigen   == (IsM("gyr") /\ c.kind = "rot") => /\ GyIsRotation(c.Rn, c.rden)
                                                        /\ GyAxisAligned(c.base)
                                                        /\ GyRotatedEigen(c.base, c.Rn, c.rden)
InvGyAxisKinds      == (IsM("gyr") /\ c.kind = "axis") => GyAxisAligned(c.base)

(***************************************************************************)
(* emission                                                                *)
(***************************************************************************)
CaseS2 ==
  LET P == S2Frames  T == Len(c.fr)  n == Len(c.types) IN
  [ m |-> "s2", id |-> c.id, d |-> c.d, H |-> c.H, ppp |-> c.ppp, S |-> c.S, fr |-> c.fr, fr0 |-> c.fr0, types |-> c.types,
    sig |-> c.sig, rn |-> c.rn, rd |-> c.rd, nd |-> c.nd, savegr |-> c.savegr,
    Hs  |-> [f \in 1..T |-> LoFrameH(c, f)], tys |-> [f \in 1..T |-> LoFrameTypes(c, f)],
    contrib |-> [f \in 1..T |-> [i \in 1..n |-> S2Contrib(P[f], i)]],
    tie     |-> [f \in 1..T |-> [i \in 1..n |-> S2Tie(P[f], i)]],
    edge    |-> [f \in 1..T |-> [i \in 1..n |-> S2HasSharpEdge(P[f], i)]],
    cls     |-> [f \in 1..T |-> [i \in 1..n |-> S2Class(P[f], i)]],
    s2      |-> [f \in 1..T |-> [i \in 1..n |-> S2Term(P[f], i)]],
    g       |-> IF c.savegr
                THEN [f \in 1..T |-> [i \in 1..n |-> [k \in 1..c.nd |-> S2GT(P[f], i, k)]]]
                ELSE << >> ]

TetraRow(rt, tt, dg, i) ==
  LET tie == TeTie(rt, tt, dg, i)
      b   == TeBonds(rt, i)
  IN  [ tie |-> tie, four |-> TeFour(rt, i), perfect |-> (~tie /\ TePerfectB(b)),
        q |-> IF tie THEN "tie" ELSE TetraTermB(b) ]
CaseTetra ==
  LET rt == TeRT  tt == TeTT
      one == [ m |-> "tetra", id |-> c.id, kind |-> c.kind, H |-> c.H, ppp |-> c.ppp, S |-> c.S, pos |-> c.pos, pos0 |-> c.pos0,
               rows |-> [i \in 1..Len(c.pos) |-> TetraRow(rt, tt, TeDg, i)] ]
  IN  IF TeHas2
      THEN LET rt2 == TeRT2  tt2 == TeTT2 IN
           one @@ [ H2 |-> c.H2, pos2 |-> c.pos2, rows2 |-> [i \in 1..Len(c.pos2) |-> TetraRow(rt2, tt2, TeDg2, i)] ]
      ELSE one

CaseNem ==
  [ m |-> "nematic", id |-> c.id, C |-> c.C, fr |-> c.fr, nl |-> c.nl, Nmax |-> c.Nmax,
    rows   |-> IF c.nl = << >> THEN << >> ELSE [f \in 1..Len(c.fr) |-> LoRows(c.nl[f], c.roword[f])],
    used   |-> [f \in 1..Len(c.fr) |-> IF c.nl = << >> THEN << >> ELSE [i \in 1..Len(c.fr[f]) |-> Len(NemNL(f)[i])]],
    order  |-> [f \in 1..Len(c.fr) |-> [i \in 1..Len(c.fr[f]) |-> NmOrderT(c.fr[f], c.C, NemNL(f), i)]],
    tensor |-> [f \in 1..Len(c.fr) |-> [i \in 1..Len(c.fr[f]) |-> NmTensorT(c.fr[f], c.C, NemNL(f), i)]] ]

CaseGyr ==
  LET x == c.base  d == Len(c.base[1])  aligned == (d = 3 /\ c.kind # "3d" /\ GyAxisAligned(c.base)) IN
  [ m |-> "gyr", id |-> c.id, kind |-> c.kind, S |-> GyScale, cloud |-> GyCloud, d |-> d,
    rg      |-> GyRgT(x, c.S),
    fractal |-> IF GyFractalDefined(x, c.S) THEN GyFractalT(x, c.S) ELSE "undef",
    acyl    |-> IF d = 2 THEN GyAcyl2T(x, c.S) ELSE IF aligned THEN QR(GyAcyl3(x, c.S)) ELSE "na",
    asph    |-> IF aligned THEN QR(GyAsph(x, c.S)) ELSE "na",
    kappa2  |-> IF d = 3 THEN QR(GyKappa2(x)) ELSE "na" ]

Case == IF IsM("s2") THEN CaseS2 ELSE IF IsM("tetra") THEN CaseTetra ELSE IF IsM("nematic") THEN CaseNem ELSE CaseGyr
Emit == Gen => PrintT(ToJson(Case))
=============================================================================
