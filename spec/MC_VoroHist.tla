---------------------------- MODULE MC_VoroHist ----------------------------
(***************************************************************************)
(* Model of indicehis (VoroHist.tla, growth check X02 b): the multiset     *)
(* count as a state machine over the rows of a voroindex file - one action *)
(* CountRowA per row, a counter per signature - over every sequence of     *)
(* 1..4 (thorough: 1..5) rows from a catalogue of row shapes: short rows   *)
(* (zero-padded), rows of the full 15 entries, rows that differ only       *)
(* outside <n3 n4 n5 n6> (same signature).  The clauses are checked for    *)
(* the documented cut HistTop = 50 and, so that the cut is exercised in    *)
(* scope, for a cut of 2.  The final state of every behaviour is printed.  *)
(***************************************************************************)
EXTENDS VoroHist, Json

CONSTANTS Tier, Gen, SHARD, NSHARDS

VARIABLES rows, hs
vars == <<rows, hs>>
Thorough == Tier = "thorough"

Shapes == << <<0, 0, 0, 4>>, <<0, 0, 0, 2, 2, 1>>, <<0, 0, 0, 0, 12>>, <<0, 0, 0, 2, 2, 1, 0, 3>>, <<0, 0>>,
             <<0, 0, 0, 0, 2, 8, 4, 1, 0, 0, 0, 0, 0, 0, 2>>, <<1, 2, 3, 0, 12, 0, 0, 5>> >>
NShapes == IF Thorough THEN 7 ELSE 6
MaxLen  == IF Thorough THEN 5 ELSE 4
RowSeqs == UNION {[1..L -> 1..NShapes] : L \in 1..MaxLen}
MkRows(pick) == [k \in 1..Len(pick) |-> <<k>> \o Shapes[pick[k]]]

Init == /\ \E pick \in RowSeqs : SumSeq(pick) % NSHARDS = SHARD /\ rows = MkRows(pick)
        /\ hs = HistInit
CountRowA == hs.i < Len(rows) /\ hs' = CountRow(hs, rows) /\ UNCHANGED rows
Next == CountRowA
Spec == Init /\ [][Next]_vars

Final == hs.i = Len(rows)
Seen  == SubSeq(rows, 1, hs.i)
Tops  == {2, HistTop}
\* after every action: the counters are the multiplicities of the rows consumed so far
InvAlgorithmIsDefinition == hs.cnt = HistDef(Seen) /\ hs.cnt = HistCount(Seen)
InvEveryRowOnce          == CntTotal(hs.cnt) = hs.i
InvFractionsSumToOne     == Final => \A top \in Tops : HistFractionsSumToOne(rows, top)
InvCanonicalAccepted     == Final => \A top \in Tops : HistCanonicalAccepted(rows, top)
InvCutKeepsMostFrequent  == Final => \A top \in Tops : HistCutKeepsMostFrequent(rows, top)
InvRejectsCorruptions    == Final => \A top \in Tops : HistRejectsCorruptions(rows, top)
InvShortRowsPadded       == \A k \in 1..Len(rows) : \A q \in 3..6 : Len(rows[k]) < q + 2 => Sig(rows[k])[q - 2] = 0
PropRowsUnchanged        == [][rows' = rows]_vars

Case ==
  LET gs == HistGroups(hs.cnt) IN
  [ m |-> "hist", lines |-> <<HdrLine(<<"id", "voro_index", "0_to_7_faces">>)>> \o [k \in 1..Len(rows) |-> RowLine(rows[k])],
    hist |-> [total |-> Len(rows), top |-> HistTop, header |-> HistHeader,
              groups |-> [k \in 1..Len(gs) |-> [count |-> gs[k].count, sigs |-> SetToSeq(gs[k].sigs),
                                                frac |-> SetToSeq(FracSet(gs[k].count, Len(rows)))]]] ]
Emit == (Gen /\ Final) => PrintT(ToJson(Case))
=============================================================================
