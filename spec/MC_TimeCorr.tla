---------------------------- MODULE MC_TimeCorr ----------------------------
(***************************************************************************)
(* Model of property C14.  One behaviour per series of the scope: the      *)
(* loop of time_correlation runs to completion (action Acc = one (n, nn)   *)
(* iteration); the clauses are INVARIANT / PROPERTY lines; at termination  *)
(* one JSON case is printed for replay into the real time_correlation.     *)
(*                                                                         *)
(* Scope (Tier):                                                           *)
(*  Fam   - T in 1..5, N = 2, ranks 0/1/2 (dim 2; rank 1 also dim 3), real *)
(*          and complex, values from a 6-element integer / Gaussian set    *)
(*          chosen per (frame, particle, component) by a hash of the       *)
(*          family index, 8 timestep patterns (evenly spaced with several  *)
(*          intervals and offsets; uneven, incl. uneven only in the last   *)
(*          difference), 3 time steps.                                     *)
(*  Exh   - rank 0, N = 2, ALL assignments from the value set for T = 1, 2 *)
(*          (quick) and T = 3 over a 4-element set (thorough).             *)
(***************************************************************************)
EXTENDS TimeCorr, TLC, Json

CONSTANTS Tier, Part, SEED, SHARD, NSHARDS     \* Part = "fam" | "exh"

VARIABLES s, aux, st
vars == <<s, aux, st>>

RealSet  == << <<1, 0>>, <<0 - 1, 0>>, <<2, 0>>, <<0, 0>>, <<0 - 3, 0>>, <<3, 0>> >>
GaussSet == << <<1, 0>>, <<0, 1>>, <<1, 1>>, <<2, 0 - 1>>, <<0 - 1, 2>>, <<0, 0 - 2>> >>
ValSet(c) == IF c = 1 THEN GaussSet ELSE RealSet

\* small deterministic mixing function (all intermediate values < 2^30)
M1(x) == (x * 7919 + 10477) % 65521
Mix4(a, b, c, d) == M1((M1((M1((M1(a % 65521) + b) % 65521) + c) % 65521) + d) % 65521)

\* timestep patterns (prefix of length T is used)
Patterns == << <<0, 1, 2, 3, 4>>,            \* linear, interval 1
               <<100, 105, 110, 115, 120>>,  \* linear, offset, interval 5
               <<7, 1007, 2007, 3007, 4007>>,\* linear, large interval
               <<0, 1, 2, 4, 8>>,            \* log from T = 4
               <<0, 1, 3, 4, 5>>,            \* uneven from T = 3, first difference repeated later
               <<10, 20, 40, 80, 160>>,      \* log from T = 3
               <<0, 2, 4, 6, 9>>,            \* uneven only in the last difference (T = 5)
               <<5, 6, 8, 10, 12>>,          \* uneven only in the first difference
               <<0, 200000, 400000, 600001, 800001>>,   \* long intervals with a slip of one step (T >= 4): NOT evenly spaced
               <<3, 500003, 1000004, 1500005, 2000006>> >> \* every interval after the first longer by one step
Dts == << <<1, 500>>, <<1, 4>>, <<3, 1>> >>

MkVal(T, N, rank, dim, c, fam) ==
  LET V == ValSet(c)
      pick(f, i, k, l) == V[1 + (Mix4(fam + 31 * SEED, f, i, 3 * k + l) % 6)]
  IN  [f \in 1..T |-> [i \in 1..N |->
        IF rank = 0 THEN pick(f, i, 0, 0)
        ELSE IF rank = 1 THEN [k \in 1..dim |-> pick(f, i, k, 0)]
        ELSE [k \in 1..dim |-> [l \in 1..dim |-> pick(f, i, k, l)]]]]

NFam == IF Tier = "quick" THEN 6 ELSE 24
Shapes == {<<0, 1>>, <<1, 2>>, <<1, 3>>, <<2, 2>>} \cup (IF Tier = "quick" THEN {} ELSE {<<2, 3>>})

FamInputs ==
  { <<[T |-> T, N |-> N, rank |-> sh[1], dim |-> sh[2], ts |-> SubSeq(Patterns[p], 1, T),
       val |-> MkVal(T, N, sh[1], sh[2], c, 100 * fam + 10 * p + T)],
      [cplx |-> c, dt |-> Dts[1 + ((p + fam) % 3)], fam |-> fam, pat |-> p]>> :
      T \in 1..5, N \in (IF Tier = "quick" THEN {2} ELSE {1, 2, 3}), sh \in Shapes, c \in {0, 1},
      p \in 1..Len(Patterns), fam \in 1..NFam }

ExhSet(c, T) == IF T = 3 THEN {ValSet(c)[j] : j \in {1, 2, 4, 5}} ELSE {ValSet(c)[j] : j \in 1..6}
ExhT == IF Tier = "quick" THEN {1, 2} ELSE {1, 2, 3}
ExhInputs ==
  UNION { { <<[T |-> tc[1], N |-> 2, rank |-> 0, dim |-> 1, ts |-> SubSeq(Patterns[p], 1, tc[1]), val |-> v],
              [cplx |-> tc[2], dt |-> Dts[1 + (p % 3)], fam |-> 0, pat |-> p]>> :
              p \in {2, 5}, v \in [1..tc[1] -> [1..2 -> ExhSet(tc[2], tc[1])]] } :
          tc \in ExhT \X {0, 1} }

Inputs == IF Part = "fam" THEN FamInputs ELSE ExhInputs

\* shard key from the data itself
Key(x) == LET ser == x[1] IN
  (ser.T * 7 + ser.N * 3 + ser.rank + ser.dim + x[2].cplx + x[2].pat * 5 + x[2].fam * 11
   + SumSeq([f \in 1..ser.T |-> P(ser, f, 1) + 1000])) % NSHARDS

Init == /\ \E x \in Inputs : /\ Key(x) = SHARD
                             /\ s = x[1] /\ aux = x[2]
                             /\ Defined(x[1])
        /\ st = StInit(s)
Acc  == /\ ~st.done
        /\ st' = StAcc(s, st)
        /\ UNCHANGED <<s, aux>>
Next == Acc
Spec == Init /\ [][Next]_vars

\* ---- clauses of C14 on the model ----
InvCounts    == CountsPerLag(s, st)
InvPairs     == PairsAreDefinition(s, st)
InvAlgDef    == AlgorithmEqualsDefinition(s, st)
InvLagZero   == LagZeroIsOne(s, st)
InvConjSym   == ConjugateSymmetric(s)
InvSingle    == SingleFrame(s)
InvLogOrigin == LogIsOriginZero(s)
InvKind      == (Kind(s.ts) = "linear") <=> (\A k \in 1..(s.T - 1) : s.ts[k + 1] - s.ts[k] = s.ts[2] - s.ts[1])
EveryOriginLagPairOnce == [][NoPairTwice(st')]_vars

\* ---- emission ----
Case ==
  [ m |-> "TimeCorr", T |-> s.T, N |-> s.N, rank |-> s.rank, dim |-> s.dim, cplx |-> aux.cplx,
    ts |-> s.ts, dt |-> aux.dt, val |-> s.val, kind |-> Kind(s.ts),
    counts |-> st.counts,
    corr   |-> [k \in 1..s.T |-> Corr(s, k - 1)],
    corrT  |-> [k \in 1..s.T |-> CorrTerm(s, k - 1)],
    tT     |-> [k \in 1..s.T |-> TimeTerm(s, k - 1, aux.dt[1], aux.dt[2])],
    \* does dropping the conjugate change some lag?  (non-vacuity witness for the harness statistics)
    conjMatters |-> \E a, b \in 1..s.T :
        SumSeq([i \in 1..s.N |-> IF s.rank = 0 THEN GPlainRe(s.val[a][i], s.val[b][i]) ELSE 0])
          # (IF s.rank = 0 THEN P(s, a, b) ELSE 0) ]
Emit == st.done => PrintT(ToJson(Case))
=============================================================================
