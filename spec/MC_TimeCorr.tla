---------------------------- MODULE MC_TimeCorr ----------------------------
(***************************************************************************)
(* Model of property C14.  One behaviour per series of the scope: the      *)
(* loop of time_correlation runs to completion (action Acc = one (n, nn)   *)
(* iteration); the clauses are INVARIANT / PROPERTY lines; at termination  *)
(* one JSON case is printed for replay into the real time_correlation.     *)
(*                                                                         *)
(* Scope (Tier):                                                           *)
(*  Fam   - T in 1..5, N = 2, ranks 0/1/2 (dim 2; rank 1 also dim 3), real *)
(*          and complex, values from a 6-element integer / Gaussian set    *)
(*          chosen per (frame, particle, component) by a hash of the       *)
(*          family index, 8 timestep patterns (evenly spaced with several  *)
(*          intervals and offsets; uneven, incl. uneven only in the last   *)
(*          difference), 3 time steps.                                     *)
(*  Exh   - rank 0, N = 2, ALL assignments from the value set for T = 1, 2 *)
(*          (quick) and T = 3 over a 4-element set (thorough).             *)
(*  Rep   - storage representations: T in {1, 3, 4}, N in {2, 3}, all      *)
(*          shapes, value sets sized to the ranges of the narrow integer   *)
(*          types (0/1 flags; |v| <= 11 / 15 / 181 / 255: products fit the  *)
(*          type, sums of two do not; |v| up to 128 / 255 / 2000: products *)
(*          leave it), timestep labels around 2 10^9; and WIDE series:     *)
(*          T in {2, 3}, N in the hundreds / thousands (flags, integers,   *)
(*          Gaussian integers).  The spec states per series which types    *)
(*          hold it and what leaves their range (TimeCorr!IntReps).        *)
(*  Long  - T in 257..300 (quick) / 256..1100 incl. powers of two and      *)
(*          their neighbours (thorough), evenly and unevenly spaced,       *)
(*          scalar / vector / tensor: one state per series, the terminal   *)
(*          loop state is stated directly from the definition (StDirect).  *)
(***************************************************************************)
EXTENDS TimeCorr, TLC, Json

CONSTANTS Tier, Part, SEED, SHARD, NSHARDS     \* Part = "fam" | "exh" | "rep" | "long"

VARIABLES s, aux, st
vars == <<s, aux, st>>

RealSet  == << <<1, 0>>, <<0 - 1, 0>>, <<2, 0>>, <<0, 0>>, <<0 - 3, 0>>, <<3, 0>> >>
GaussSet == << <<1, 0>>, <<0, 1>>, <<1, 1>>, <<2, 0 - 1>>, <<0 - 1, 2>>, <<0, 0 - 2>> >>
ValSet(c) == IF c = 1 THEN GaussSet ELSE RealSet

\* small deterministic mixing function (all intermediate values < 2^30)
M1(x) == (x * 7919 + 10477) % 65521
Mix4(a, b, c, d) == M1((M1((M1((M1(a % 65521) + b) % 65521) + c) % 65521) + d) % 65521)

\* timestep patterns (prefix of length T is used)
Patterns == << <<0, 1, 2, 3, 4>>,            \* linear, interval 1
               <<100, 105, 110, 115, 120>>,  \* linear, offset, interval 5
               <<7, 1007, 2007, 3007, 4007>>,\* linear, large interval
               <<0, 1, 2, 4, 8>>,            \* log from T = 4
               <<0, 1, 3, 4, 5>>,            \* uneven from T = 3, first difference repeated later
               <<10, 20, 40, 80, 160>>,      \* log from T = 3
               <<0, 2, 4, 6, 9>>,            \* uneven only in the last difference (T = 5)
               <<5, 6, 8, 10, 12>>,          \* uneven only in the first difference
               <<0, 200000, 400000, 600001, 800001>>,   \* long intervals with a slip of one step (T >= 4): NOT evenly spaced
               <<3, 500003, 1000004, 1500005, 2000006>> >> \* every interval after the first longer by one step
Dts == << <<1, 500>>, <<1, 4>>, <<3, 1>> >>

MkValV(V, T, N, rank, dim, fam) ==
  LET pick(f, i, k, l) == V[1 + (Mix4(fam + 31 * SEED, f, i, 3 * k + l) % Len(V))]
  IN  [f \in 1..T |-> [i \in 1..N |->
        IF rank = 0 THEN pick(f, i, 0, 0)
        ELSE IF rank = 1 THEN [k \in 1..dim |-> pick(f, i, k, 0)]
        ELSE [k \in 1..dim |-> [l \in 1..dim |-> pick(f, i, k, l)]]]]
MkVal(T, N, rank, dim, c, fam) == MkValV(ValSet(c), T, N, rank, dim, fam)

AllInt == {IntTypes[j].name : j \in 1..Len(IntTypes)}

NFam == IF Tier = "quick" THEN 6 ELSE 24
Shapes == {<<0, 1>>, <<1, 2>>, <<1, 3>>, <<2, 2>>} \cup (IF Tier = "quick" THEN {} ELSE {<<2, 3>>})

FamInputs ==
  { <<[T |-> T, N |-> N, rank |-> sh[1], dim |-> sh[2], ts |-> SubSeq(Patterns[p], 1, T),
       val |-> MkVal(T, N, sh[1], sh[2], c, 100 * fam + 10 * p + T)],
      [cplx |-> c, dt |-> Dts[1 + ((p + fam) % 3)], fam |-> fam, pat |-> p, tys |-> AllInt]>> :
      T \in 1..5, N \in (IF Tier = "quick" THEN {2} ELSE {1, 2, 3}), sh \in Shapes, c \in {0, 1},
      p \in 1..Len(Patterns), fam \in 1..NFam }

ExhSet(c, T) == IF T = 3 THEN {ValSet(c)[j] : j \in {1, 2, 4, 5}} ELSE {ValSet(c)[j] : j \in 1..6}
ExhT == IF Tier = "quick" THEN {1, 2} ELSE {1, 2, 3}
ExhInputs ==
  UNION { { <<[T |-> tc[1], N |-> 2, rank |-> 0, dim |-> 1, ts |-> SubSeq(Patterns[p], 1, tc[1]), val |-> v],
              [cplx |-> tc[2], dt |-> Dts[1 + (p % 3)], fam |-> 0, pat |-> p, tys |-> AllInt]>> :
              p \in {2, 5}, v \in [1..tc[1] -> [1..2 -> ExhSet(tc[2], tc[1])]] } :
          tc \in ExhT \X {0, 1} }

\* ---- storage representations: value sets sized to the ranges of the narrow integer types ----
R(x) == <<x, 0>>
Flags == << R(1), R(1), R(0), R(1), R(1), R(1) >>
RepSets == <<
  Flags,                                                            \* bool / any type: sums of two leave bool
  << R(11), R(0 - 11), R(9), R(0 - 10), R(0), R(7) >>,              \* int8: products fit, sums of two leave
  << R(100), R(0 - 128), R(127), R(0 - 90), R(12), R(0) >>,         \* int8: products leave
  << R(15), R(14), R(0), R(13), R(15), R(9) >>,                     \* uint8: products fit, sums leave (int8: products leave)
  << R(200), R(255), R(16), R(0), R(128), R(17) >>,                 \* uint8: products leave
  << R(181), R(0 - 181), R(150), R(0 - 170), R(0), R(99) >>,        \* int16: products fit, sums of two leave
  << R(2000), R(0 - 1500), R(182), R(0 - 183), R(0), R(700) >>,     \* int16: products leave
  << R(255), R(254), R(0), R(200), R(255), R(131) >>,               \* uint16: products fit, sums leave
  << R(2000), R(256), R(300), R(0), R(1000), R(1999) >> >>          \* uint16: products leave
RepPatterns == << <<2000000000, 2000000001, 2000000002, 2000000003>>,   \* evenly spaced, labels beyond 2^24 (and 2^30)
                  <<2000000000, 2000000001, 2000000003, 2000000004>>,   \* unevenly spaced from T = 3, such labels
                  <<100, 105, 110, 115>>,
                  <<0, 2, 4, 7>> >>                                     \* uneven only in the last difference (T = 4)
\* index tuples <<"n", T, N, rank, dim, p, v>>: the (large) value arrays are built only for the tuples of the shard
NarrowIdx == { <<"n", T, N, sh[1], sh[2], p, v>> :
               T \in {1, 3, 4}, N \in {2, 3}, sh \in {<<0, 1>>, <<1, 2>>, <<1, 3>>, <<2, 2>>},
               p \in 1..Len(RepPatterns), v \in 1..Len(RepSets) }
\* wide series: many particles, few frames (size thresholds can be on N as well as on T)
WideShapes == IF Tier = "quick"
              THEN {<<0, 1, 600>>, <<0, 1, 1300>>, <<1, 2, 300>>, <<1, 3, 1100>>, <<2, 2, 200>>, <<2, 2, 520>>}
              ELSE {<<0, 1, 600>>, <<0, 1, 2500>>, <<0, 1, 5003>>, <<1, 2, 300>>, <<1, 3, 1200>>, <<1, 2, 2053>>,
                    <<2, 2, 200>>, <<2, 2, 700>>, <<2, 3, 1030>>}
WidePatterns == << <<0, 1, 2>>, <<0, 1, 3>> >>
WideSets == << Flags, RealSet, GaussSet >>
WideIdx == { <<"w", tp[1], sh[3], sh[1], sh[2], tp[2], v>> :
             tp \in {<<2, 1>>, <<3, 1>>, <<3, 2>>}, sh \in WideShapes, v \in 1..3 }
RepIdx == NarrowIdx \cup WideIdx
RepKey(ix) == (ix[2] * 7 + ix[3] * 3 + ix[4] + ix[5] * 13 + ix[6] * 5 + ix[7] * 11) % NSHARDS
RepInput(ix) ==
  LET T == ix[2]  N == ix[3]  rank == ix[4]  dim == ix[5]  p == ix[6]  v == ix[7] IN
  IF ix[1] = "n"
  THEN <<[T |-> T, N |-> N, rank |-> rank, dim |-> dim, ts |-> SubSeq(RepPatterns[p], 1, T),
          val |-> MkValV(RepSets[v], T, N, rank, dim, 1000 * v + 10 * p + T)],
         [cplx |-> 0, dt |-> Dts[1 + ((p + v) % 3)], fam |-> v, pat |-> p, tys |-> AllInt]>>
  ELSE <<[T |-> T, N |-> N, rank |-> rank, dim |-> dim, ts |-> SubSeq(WidePatterns[p], 1, T),
          val |-> MkValV(WideSets[v], T, N, rank, dim, 7000 + 100 * v + 10 * p + T)],
         [cplx |-> IF v = 3 THEN 1 ELSE 0, dt |-> Dts[1 + ((p + v) % 3)], fam |-> 100 + v, pat |-> p,
          tys |-> AllInt]>>

\* ---- long series: <<T, N, rank, dim, complex, spacing>> ----
\* spacing 1: evenly spaced; 2: evenly spaced except the last difference; 3: differences growing (k^2)
LongSpecs ==
  LET quick == << <<300, 2, 0, 1, 0, 1>>, <<257, 2, 0, 1, 1, 1>>, <<300, 2, 1, 2, 0, 1>>, <<291, 1, 1, 3, 1, 1>>,
                  <<258, 2, 2, 2, 0, 1>>, <<300, 2, 0, 1, 0, 2>>, <<270, 2, 1, 2, 1, 3>>, <<259, 1, 2, 2, 0, 2>> >>
      Ts    == <<256, 257, 300, 365, 511, 512, 513, 700, 1023, 1024, 1025, 1100>>
      more  == [j \in 1..(2 * Len(Ts)) |->
                  IF j <= Len(Ts) THEN <<Ts[j], 2, 0, 1, 0, 1>> ELSE <<Ts[j - Len(Ts)], 1, 1, 2, 1, 1>>]
      logs  == << <<512, 2, 0, 1, 1, 2>>, <<1025, 1, 1, 2, 0, 3>>, <<600, 1, 2, 2, 1, 3>>, <<400, 2, 2, 2, 0, 1>> >>
  IN  IF Tier = "quick" THEN quick ELSE quick \o more \o logs
LongTs(T, sp, j) ==
  LET t0 == 100 * (j % 3)
      iv == 1 + (j % 4)
  IN  [k \in 1..T |-> IF sp = 3 THEN t0 + (k - 1) * (k - 1)
                       ELSE t0 + iv * (k - 1) + (IF sp = 2 /\ k = T THEN iv ELSE 0)]
LongInput(j) ==
  LET q == LongSpecs[j] IN
  <<[T |-> q[1], N |-> q[2], rank |-> q[3], dim |-> q[4], ts |-> LongTs(q[1], q[6], j),
     val |-> MkVal(q[1], q[2], q[3], q[4], q[5], 9000 + j)],
    [cplx |-> q[5], dt |-> Dts[1 + (j % 3)], fam |-> 200 + j, pat |-> q[6], tys |-> {"int8", "int16"}]>>

Inputs == IF Part = "fam" THEN FamInputs ELSE ExhInputs

\* shard key from the data itself
Key(x) == LET ser == x[1] IN
  (ser.T * 7 + ser.N * 3 + ser.rank + ser.dim + x[2].cplx + x[2].pat * 5 + x[2].fam * 11
   + SumSeq([f \in 1..ser.T |-> P(ser, f, 1) + 1000])) % NSHARDS

Long == Part = "long"
Init == IF Long
        THEN \E j \in 1..Len(LongSpecs) :
               /\ j % NSHARDS = SHARD
               /\ s = LongInput(j)[1] /\ aux = LongInput(j)[2]
               /\ Defined(s)
               /\ st = StDirect(s)          \* the T (T + 1) / 2 loop steps are not enumerated for long series
        ELSE IF Part = "rep"
        THEN \E ix \in RepIdx :
               /\ RepKey(ix) = SHARD
               /\ s = RepInput(ix)[1] /\ aux = RepInput(ix)[2]
               /\ Defined(s)
               /\ st = StInit(s)
        ELSE /\ \E x \in Inputs : /\ Key(x) = SHARD
                                  /\ s = x[1] /\ aux = x[2]
                                  /\ Defined(x[1])
             /\ st = StInit(s)
Acc  == /\ ~st.done
        /\ st' = StAcc(s, st)
        /\ UNCHANGED <<s, aux>>
Next == Acc
Spec == Init /\ [][Next]_vars

\* ---- clauses of C14 on the model ----
InvCounts    == CountsPerLag(s, st)
InvPairs     == Long \/ PairsAreDefinition(s, st)
InvAlgDef    == Long \/ AlgorithmEqualsDefinition(s, st)      \* long series: st IS the definition (StDirect)
InvLagZero   == LagZeroIsOne(s, st)
InvConjSym   == Long \/ s.N > 100 \/ ConjugateSymmetric(s)   \* a per-particle identity: checked on the narrow series
InvSingle    == SingleFrame(s)
InvLogOrigin == LogIsOriginZero(s)
InvKind      == (Kind(s.ts) = "linear") <=> (\A k \in 1..(s.T - 1) : s.ts[k + 1] - s.ts[k] = s.ts[2] - s.ts[1])
EveryOriginLagPairOnce == [][NoPairTwice(st')]_vars

\* ---- emission ----
Case ==
  [ m |-> "TimeCorr", T |-> s.T, N |-> s.N, rank |-> s.rank, dim |-> s.dim, cplx |-> aux.cplx,
    ts |-> s.ts, dt |-> aux.dt, val |-> s.val, kind |-> Kind(s.ts),
    counts |-> st.counts,
    corr   |-> IF Long THEN << >> ELSE [k \in 1..s.T |-> Corr(s, k - 1)],
    corrT  |-> [k \in 1..s.T |-> IF Long THEN StCorrTerm(st, k - 1) ELSE CorrTerm(s, k - 1)],
    \* storage types that hold the series (with what leaves their range) / in which the evaluation is exact
    ireps  |-> IntReps(s, aux.tys),
    freps  |-> FloatReps(s),
    dtInt  |-> aux.dt[2] = 1,
    tT     |-> [k \in 1..s.T |-> TimeTerm(s, k - 1, aux.dt[1], aux.dt[2])],
    \* does dropping the conjugate change some lag?  (non-vacuity witness for the harness statistics)
    conjMatters |-> ~Long /\ \E a, b \in 1..s.T :
        SumSeq([i \in 1..s.N |-> IF s.rank = 0 THEN GPlainRe(s.val[a][i], s.val[b][i]) ELSE 0])
          # (IF s.rank = 0 THEN P(s, a, b) ELSE 0) ]
Emit == st.done => PrintT(ToJson(Case))
=============================================================================
