--------------------------- MODULE TraceTimeCorr ---------------------------
(***************************************************************************)
(* Trace validation for C14 (direction B).  Every record is one call of    *)
(* time_correlation recorded from the real code:                           *)
(*   [T, N, rank, dim, ts, dt |-> <<n, d>>, val (scaled Gaussian integers),*)
(*    obs |-> [rows  |-> number of rows of the returned frame,             *)
(*             tq    |-> returned time column divided by dt, as integers,  *)
(*             tq_ok |-> 1 iff that division was integral to 1e-9,         *)
(*             one   |-> 1 iff the lag-zero value is exactly 1.0]]         *)
(* For each record the spec runs the loop state machine of TimeCorr (one   *)
(* Acc step per (n, nn) iteration - the history is carried here, not in    *)
(* Python), then Finish decides the discrete observables (Why names the    *)
(* failing clause) and prints the expected correlation as terms.           *)
(* Records with more than 24 frames start in the terminal loop state       *)
(* stated from the definition (no per-iteration states).                   *)
(***************************************************************************)
EXTENDS TimeCorr, TLC, Json, IOUtils

Tr == ndJsonDeserialize(IOEnv.TRACE_FILE)

VARIABLES l, bad, st
vars == <<l, bad, st>>

Ser(rec) == [T |-> rec.T, N |-> rec.N, rank |-> rec.rank, dim |-> rec.dim, ts |-> rec.ts, val |-> rec.val]

Why(rec, state) ==
  LET s == Ser(rec) IN
  IF rec.obs.rows # s.T THEN "Rows"
  ELSE IF rec.obs.tq_ok # 1 THEN "TimeAxis"
  ELSE IF \E k \in 1..s.T : rec.obs.tq[k] # s.ts[k] - s.ts[1] THEN "TimeAxis"
  ELSE IF rec.obs.one # 1 THEN "LagZeroIsOne"
  ELSE ""

Expected(rec, state) ==
  [ rec  |-> l,
    kind |-> Kind(rec.ts),
    tT   |-> [k \in 1..rec.T |-> TimeTerm(Ser(rec), k - 1, rec.dt[1], rec.dt[2])],
    corr |-> [k \in 1..rec.T |-> Div(Q(state.acc[k], state.counts[k]), Q(state.acc[1], state.counts[1]))] ]

\* long series (T (T + 1) / 2 loop steps are too many to enumerate one TLC state each): the terminal loop state
\* is stated directly from the definition (TimeCorr!StDirect) and Finish follows at once
LongRec(rec) == rec.T > 24
StStart(rec) == IF LongRec(rec) THEN StDirect(Ser(rec)) ELSE StInit(Ser(rec))

Init == /\ l = 1 /\ bad = ""
        /\ st = IF Len(Tr) >= 1 THEN StStart(Tr[1]) ELSE [done |-> TRUE]
Acc == /\ l <= Len(Tr) /\ bad = "" /\ ~st.done
       /\ st' = StAcc(Ser(Tr[l]), st)
       /\ UNCHANGED <<l, bad>>
Finish == /\ l <= Len(Tr) /\ bad = "" /\ st.done
          /\ LET w == Why(Tr[l], st) IN
             IF w = ""
             THEN /\ PrintT(ToJson(Expected(Tr[l], st)))
                  /\ l' = l + 1 /\ bad' = ""
                  /\ st' = IF l + 1 <= Len(Tr) THEN StStart(Tr[l + 1]) ELSE st
             ELSE /\ bad' = w /\ UNCHANGED <<l, st>>
Next == Acc \/ Finish
Spec == Init /\ [][Next]_vars

Accepted == bad = ""
\* model-level: the loop state the trace spec carried equals the definition
TraceAlgDef == (l <= Len(Tr) /\ st.done /\ ~LongRec(Tr[l])) =>
                  /\ AlgorithmEqualsDefinition(Ser(Tr[l]), st)
                  /\ CountsPerLag(Ser(Tr[l]), st)
                  /\ PairsAreDefinition(Ser(Tr[l]), st)
=============================================================================
