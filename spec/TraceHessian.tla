--------------------------- MODULE TraceHessian ---------------------------
(***************************************************************************)
(* Trace validation for C11 (direction B).  Every record is one call of    *)
(* HessianMatrix.diagonalize_hessian recorded from the real code:          *)
(*   the configuration as scaled integers / rationals (fields of           *)
(*   Hessian!config, shift as 0/1; K <= 3 species of which any non-empty   *)
(*   subset occurs; morder = the order in which the mass map was written), *)
(*   and the observations                                                  *)
(*     pattern   = pairs <<i, j>>, i < j, whose off-diagonal block of the  *)
(*                 saved matrix is not identically zero,                   *)
(*     symmetric = 1 iff the saved matrix is symmetric (harness, 1e-9),    *)
(*     finite    = 1 iff every entry is finite.                            *)
(* A record is consumed iff the pattern is exactly the interacting pair    *)
(* set decided here by exact comparison; for a consumed record the         *)
(* expected entries are printed as terms (assembled with the same          *)
(* Hessian!AddPairTo).  Records with a half-cell tie, coincident particles *)
(* or a pair exactly at the cut-off are consumed as ties.                  *)
(***************************************************************************)
EXTENDS Hessian, Json, IOUtils

Tr == ndJsonDeserialize(IOEnv.TRACE_FILE)

VARIABLES l, bad, tabs
vars == <<l, bad, tabs>>

CfgOfRec(rec) ==
  [ dim |-> rec.dim, S |-> rec.S, H |-> rec.H, ppp |-> rec.ppp, pos |-> rec.pos, typ |-> rec.typ,
    mroot |-> rec.mroot, model |-> rec.model, shift |-> (rec.shift = 1), eps |-> rec.eps,
    sigma |-> rec.sigma, rc |-> rec.rc, n |-> rec.n, A |-> rec.A, alpha |-> rec.alpha ]

IsTie(g) == AnyTie(g) \/ AnyZero(g) \/ \E k \in 1..Len(g) : g[k].edge
ExpectedPattern(g) == {<<g[k].i, g[k].j>> : k \in Interacting(g)}

\* a record is well formed when its species labels lie in the species table 1..K (any non-empty subset may
\* occur), the parameter matrices are K x K and `morder` (the order in which the mass map was written down)
\* enumerates 1..K; a malformed record is a fault of the recorder, not of the code
WellFormed(rec) ==
  LET c == CfgOfRec(rec) IN
  /\ SpeciesOK(c) /\ IsEnumeration(rec.morder, NSpecies(c))
  /\ Len(c.eps) = NSpecies(c) /\ Len(c.sigma) = NSpecies(c) /\ Len(c.rc) = NSpecies(c)

\* a lattice record (scale): decided from the row of particle 1 (Hessian!GeoOne); the interacting pair set of all N^2 pairs is
\* not enumerated, the matrix is compared entry by entry with the blocks placed by index difference
WhyLat(rec) ==
  LET g == TLCEval(GeoOne(CfgOfRec(rec))) IN
  IF ~(WellFormed(rec) /\ IsHessLattice(rec)) THEN "BadRecord"
  ELSE IF IsTie(g) THEN ""
  ELSE IF rec.finite # 1 THEN "Finite"
  ELSE IF rec.symmetric # 1 THEN "Symmetric"
  ELSE ""
ExpectLat(rec) ==
  LET c  == CfgOfRec(rec)
      g  == TLCEval(GeoOne(c))
      ks == SortedSeq(Interacting(g))
  IN  IF IsTie(g) THEN [m |-> "TraceTie", id |-> rec.id]
      ELSE [ m |-> "TraceLattice", id |-> rec.id,
             defs  |-> Defs(c, g, tabs[c.model]),
             table |-> [t \in 1..Len(ks) |-> [k |-> ks[t], delta |-> LatDelta(rec, 1, g[ks[t]].j), d |-> g[ks[t]].d]],
             mroot |-> c.mroot[1] ]

Why(rec) ==
  LET g == TLCEval(GeoOf(CfgOfRec(rec))) IN
  IF ~WellFormed(rec) THEN "BadRecord"
  ELSE IF IsTie(g) THEN ""
  ELSE IF rec.finite # 1 THEN "Finite"
  ELSE IF Range(rec.pattern) # ExpectedPattern(g) THEN "InteractingPairSet"
  ELSE IF rec.symmetric # 1 THEN "Symmetric"
  ELSE ""

RECURSIVE AssembleAll(_, _, _, _)
AssembleAll(acc, c, g, ks) ==
  IF ks = << >> THEN acc ELSE AssembleAll(AddPairTo(acc, c, g, Head(ks)), c, g, Tail(ks))

Expect(rec) ==
  LET c   == CfgOfRec(rec)
      g   == TLCEval(GeoOf(c))
      N   == NPart(c)
  IN  IF IsTie(g) THEN [m |-> "TraceTie", id |-> rec.id]
      ELSE LET acc == TLCEval(AssembleAll(AccZero(N, Len(g)), c, g, SortedSeq(Interacting(g)))) IN
           [ m      |-> "TraceExpect", id |-> rec.id,
             pairs  |-> [k \in 1..Len(g) |-> [i |-> g[k].i, j |-> g[k].j, d |-> g[k].d, n2 |-> g[k].n2,
                                               inter |-> g[k].inter, edge |-> g[k].edge]],
             defs   |-> Defs(c, g, tabs[c.model]),
             matrix |-> MatrixT(acc, N, Len(g), c.dim),
             trans  |-> IF \A a \in 1..c.dim : c.ppp[a] = 1 THEN TransT(c, N, c.dim) ELSE << >>,
             shape  |-> ShapeT(N, c.dim),
             formal |-> /\ SymmetricAcc(acc, N)
                        /\ TranslationNullAcc(acc, c, N, Len(g))
                        /\ EachPairOnceAcc(acc, c, g, Interacting(g), N, Len(g)) ]

Init == l = 1 /\ bad = "" /\ tabs = PotTable
Step == /\ l <= Len(Tr) /\ bad = ""
        /\ LET isl == "lat" \in DOMAIN Tr[l]
               w   == IF isl THEN WhyLat(Tr[l]) ELSE Why(Tr[l]) IN
           IF w = "" THEN /\ PrintT(ToJson(IF isl THEN ExpectLat(Tr[l]) ELSE Expect(Tr[l])))
                          /\ l' = l + 1 /\ bad' = ""
           ELSE l' = l /\ bad' = w
        /\ UNCHANGED tabs
Spec == Init /\ [][Step]_vars
Accepted == bad = ""
=============================================================================
