------------------------------ MODULE MC_Cell ------------------------------
(***************************************************************************)
(* Model of property C02 (minimum image).  One state per                   *)
(* (cell, periodicity mask, displacement); the C02 clauses are INVARIANTs. *)
(* In "gen" mode (r fixed) one case per (cell, mask) is printed with the   *)
(* admissible result set of every displacement of the scope, for replay    *)
(* into PyMatterSim.utils.pbc.remove_pbc.                                  *)
(***************************************************************************)
EXTENDS Cell, TLC, Json

CONSTANTS Tier,      \* "quick" | "thorough"
          D,         \* 2 | 3
          Gen,       \* TRUE: emission mode
          SHARD, NSHARDS

VARIABLES H, ppp, r
vars == <<H, ppp, r>>

Tri2(a, t, b) == << <<a, 0>>, <<t, b>> >>
Tri3(a, b, c, xy, xz, yz) == << <<a, 0, 0>>, <<xy, b, 0>>, <<xz, yz, c>> >>

Cells2 ==
  IF Tier = "quick"
  THEN {Tri2(a, 0, b) : a \in {3, 8}, b \in {4, 6}}
       \cup {Tri2(a, t, b) : a \in {4, 8}, b \in {6}, t \in {0 - 3, 0 - 1, 2}}
  ELSE {Tri2(a, 0, b) : a \in {3, 4, 6, 8}, b \in {3, 4, 6, 8}}
       \cup {Tri2(a, t, b) : a \in {4, 6, 8}, b \in {4, 6, 8}, t \in {0 - 3, 0 - 1, 1, 2, 3}}

Cells3 ==
  IF Tier = "quick"
  THEN { Tri3(4, 4, 4, 0, 0, 0), Tri3(3, 4, 6, 0, 0, 0),
         Tri3(4, 6, 4, 1, 0 - 2, 3), Tri3(6, 4, 8, 0 - 3, 1, 0 - 1) }
  ELSE { Tri3(4, 4, 4, 0, 0, 0), Tri3(3, 4, 6, 0, 0, 0), Tri3(4, 6, 8, 0, 0, 0) }
       \cup { Tri3(4, 6, 4, xy, xz, yz) : xy \in {0 - 1, 2}, xz \in {0 - 2, 1}, yz \in {0 - 3, 3} }
       \cup { Tri3(6, 4, 8, 0 - 3, 1, 0 - 1), Tri3(8, 4, 6, 3, 3, 0 - 2) }

Cells == IF D = 2 THEN Cells2 ELSE Cells3

\* displacement grid: [-Ext, Ext] in units of the largest cell length / 2
MaxLen(h) == LET S == {Abs(h[i][j]) : i \in 1..D, j \in 1..D} IN CHOOSE m \in S : \A x \in S : x <= m
Ext(h) == IF D = 2 THEN (IF Tier = "quick" THEN MaxLen(h) ELSE 2 * MaxLen(h))
                   ELSE (IF Tier = "quick" THEN MaxLen(h) \div 2 + 1 ELSE MaxLen(h))
Disp(h) == [1..D -> (0 - Ext(h))..Ext(h)]

Masks  == [1..D -> {0, 1}]
Shifts == IF D = 2 THEN [1..D -> (0 - 2)..2] ELSE [1..D -> {0 - 1, 0, 2}]

Key(h) == SumSeq([i \in 1..D |-> SumSeq([j \in 1..D |-> (h[i][j] + 16) * (IF i = 1 /\ j = 1 THEN 1 ELSE 37) ])])

Init ==
  /\ H \in Cells
  /\ ppp \in Masks
  /\ IF Gen THEN r = Zero(D) ELSE r \in Disp(H)
  /\ (Key(H) + SumSeq(ppp) + SumSeq([k \in 1..D |-> (2 * k + 1) * r[k]])) % NSHARDS = SHARD

Next == UNCHANGED vars
Spec == Init /\ [][Next]_vars

InvLattice   == OnlyLatticeTranslations(H, r, ppp)
InvHalfCell  == HalfCell(H, r, ppp)
InvUntouched == NonPeriodicUntouched(H, r, ppp)
InvShift     == ShiftInvariantOffTies(H, r, ppp, Shifts)
InvIdem      == Idempotent(H, r, ppp)
InvShortest  == ShortestImageOrthogonal(H, r, ppp)
InvNonEmpty  == MinImage(H, r, ppp) # {}
\* the image counts TLC uses are the set characterised (for all integers) in MinImageLemma.tla
InvNearestIsLemmaSet == \A k \in 1..D : NearestIsClosedHalfCell(FracNum(H, r)[k], FracDen(H))

\* ---- emission (direction A): one case per (cell, mask) ----
RECURSIVE Pow(_, _)
Pow(b, e) == IF e = 0 THEN 1 ELSE b * Pow(b, e - 1)
\* all D-vectors over lo..hi in lexicographic order, as a sequence
GridSeq(lo, hi) ==
  LET n == hi - lo + 1 IN
  [i \in 1..Pow(n, D) |-> [k \in 1..D |-> lo + (((i - 1) \div Pow(n, D - k)) % n)]]
Case ==
  LET rs == GridSeq(0 - Ext(H), Ext(H)) IN
  [ m    |-> "Cell",
    H    |-> H,
    ppp  |-> ppp,
    rs   |-> rs,
    imgs |-> [i \in 1..Len(rs) |-> MinImage(H, rs[i], ppp)],
    ties |-> [i \in 1..Len(rs) |-> HasTie(H, rs[i], ppp)] ]
Emit == Gen => PrintT(ToJson(Case))
=============================================================================
