---------------------------- MODULE VectorField ----------------------------
(***************************************************************************)
(* Vector-field measures (property C15): PyMatterSim.static.vector.        *)
(*                                                                         *)
(* A field is a sequence e[1..N] of integer d-vectors; the real field is   *)
(* e / S (S = scale chosen by the model).  A neighbour list is a function  *)
(* id -> sequence of ids (1-based), an abstract input chosen by the model  *)
(* (its file syntax and reader belong to module Neighbors, property C05).  *)
(* Everything below is exact (integers / rationals <<n,d>> / Gaussian      *)
(* integers <<re,im>>); only the final expectations that contain pi or     *)
(* square roots are emitted as Real terms.                                 *)
(*                                                                         *)
(* Documented definitions (docs/vectors.md):                               *)
(*   PR      = (sum_i |e_i|^2)^2 / (N sum_i |e_i|^4)                       *)
(*   Psi_i   = (1/CN_i) sum_{j in nl(i)} e_i . e_j                         *)
(*   PQ      = sum_i sum_j e_i.e_j / sum_i sum_j |e_i.e_j|                 *)
(*   div_i   = (1/CN_i) sum_j (R_j - R_i) . (u_j - u_i)   (minimum image)  *)
(*   curl_i  = (1/CN_i) sum_j (R_j - R_i) x (u_j - u_i)   (3-D only)       *)
(*   Psi_i   = sum_modes |e_{l,i}|^2 / omega_l^2          (vibrability)    *)
(*   j(q)    = N^{-1/2} sum_m v_m exp(-i q.r_m),  j_L = (j.qhat) qhat,     *)
(*   j_T = j - j_L,  S = |j|^2, S_L = |j_L|^2, S_T = |j_T|^2               *)
(***************************************************************************)
EXTENDS Cell, Real

RECURSIVE VfRSum(_)
VfRSum(s) == IF s = << >> THEN <<0, 1>> ELSE RAdd(Head(s), VfRSum(Tail(s)))

NP(e) == Len(e)

VfLcm2(a, b) == (a * b) \div Gcd(a, b)
RECURSIVE VfLcm(_)
VfLcm(s) == IF s = << >> THEN 1 ELSE VfLcm2(Head(s), VfLcm(Tail(s)))

(***************************************************************************)
(* 1. participation ratio                                                  *)
(***************************************************************************)
Sum2(e) == SumSeq([i \in 1..Len(e) |-> Norm2(e[i])])
Sum4(e) == SumSeq([i \in 1..Len(e) |-> Norm2(e[i]) * Norm2(e[i])])
PRDefined(e) == Sum4(e) > 0
PR(e)   == RNorm(Sum2(e) * Sum2(e), Len(e) * Sum4(e))
ScaleField(c, e) == [i \in 1..Len(e) |-> VScale(c, e[i])]

PRInRange(e)        == PRDefined(e) => RLeq(<<1, Len(e)>>, PR(e)) /\ RLeq(PR(e), <<1, 1>>)
PRScaleInvariant(e, Cs) == PRDefined(e) => \A c \in Cs : PR(ScaleField(c, e)) = PR(e)
\* the extremes: all |e_i| equal <=> PR = 1 ; one particle carries everything <=> PR = 1/N
PRExtremes(e) ==
  PRDefined(e) =>
    /\ (PR(e) = <<1, 1>>) <=> (\A i, j \in 1..Len(e) : Norm2(e[i]) = Norm2(e[j]))
    /\ (PR(e) = RNorm(1, Len(e))) <=> (Cardinality({i \in 1..Len(e) : Norm2(e[i]) > 0}) = 1)

(***************************************************************************)
(* 2./3. local alignment and phase quotient                                *)
(***************************************************************************)
DotsOf(e, nl, i)  == [k \in 1..Len(nl[i]) |-> Dot(e[i], e[nl[i][k]])]
AlignNum(e, nl, i) == SumSeq(DotsOf(e, nl, i))
\* real field e/S: dot products carry 1/S^2
Align(e, nl, i, S) == RNorm(AlignNum(e, nl, i), Len(nl[i]) * S * S)
PQNum(e, nl) == SumSeq([i \in 1..Len(e) |-> AlignNum(e, nl, i)])
PQDen(e, nl) == SumSeq([i \in 1..Len(e) |->
                   SumSeq([k \in 1..Len(nl[i]) |-> Abs(DotsOf(e, nl, i)[k])])])
PQDefined(e, nl) == PQDen(e, nl) > 0
PQ(e, nl) == RNorm(PQNum(e, nl), PQDen(e, nl))
PQInRange(e, nl) == PQDefined(e, nl) => RLeq(<<0 - 1, 1>>, PQ(e, nl)) /\ RLeq(PQ(e, nl), <<1, 1>>)
\* PQ = +1 iff no neighbour pair is anti-aligned, -1 iff none is aligned
PQExtremes(e, nl) ==
  PQDefined(e, nl) =>
    /\ (PQ(e, nl) = <<1, 1>>) <=> (\A i \in 1..Len(e) : \A k \in 1..Len(nl[i]) : DotsOf(e, nl, i)[k] >= 0)
    /\ (PQ(e, nl) = <<0 - 1, 1>>) <=> (\A i \in 1..Len(e) : \A k \in 1..Len(nl[i]) : DotsOf(e, nl, i)[k] <= 0)
\* alignment is the mean: cn * Psi_i * S^2 = sum of the listed dot products, and a
\* uniform field has Psi_i = |e|^2
AlignUniform(e, nl, S) ==
  (\A i, j \in 1..Len(e) : e[i] = e[j]) =>
     \A i \in 1..Len(e) : Len(nl[i]) > 0 => Align(e, nl, i, S) = RNorm(Norm2(e[1]), S * S)

(***************************************************************************)
(* 4. divergence and curl                                                  *)
(* positions pos[i] and cell H are scaled integers (real = / S); the field *)
(* u is integer (real = u / SU).                                           *)
(***************************************************************************)
Cross3(a, b) == << a[2] * b[3] - a[3] * b[2], a[3] * b[1] - a[1] * b[3], a[1] * b[2] - a[2] * b[1] >>
RECURSIVE VfVSum(_, _)
VfVSum(s, d) == IF s = << >> THEN Zero(d) ELSE VAdd(Head(s), VfVSum(Tail(s), d))

\* The minimum image of Cell!MinImage computed directly from the adjugate (no enumeration of
\* candidate coefficient vectors); at an exact half-cell tie the lower coefficient is taken and
\* the pair is flagged.  VfFastIsMinImage states the agreement with Cell (checked as an invariant).
VfFrac(H, v)       == LET a == VecMat(v, Adj(H)) IN IF Det(H) < 0 THEN VNeg(a) ELSE a
VfImg(H, v, ppp)   == LET f == VfFrac(H, v)  den == Abs(Det(H)) IN
                      VSub(v, VecMat([k \in 1..Len(v) |-> IF ppp[k] = 1 THEN SetMin(NearestSet(f[k], den)) ELSE 0], H))
VfTie(H, v, ppp)   == LET f == VfFrac(H, v)  den == Abs(Det(H)) IN \E k \in 1..Len(v) : ppp[k] = 1 /\ IsHalfTie(f[k], den)
VfFastIsMinImage(H, v, ppp) == VfImg(H, v, ppp) \in MinImage(H, v, ppp) /\ VfTie(H, v, ppp) = HasTie(H, v, ppp)
Rij(H, ppp, pos, i, j) == VfImg(H, VSub(pos[j], pos[i]), ppp)
Uij(u, i, j)           == VSub(u[j], u[i])
PairTie(H, ppp, pos, nl) ==
  \E i \in 1..Len(pos) : \E k \in 1..Len(nl[i]) : VfTie(H, VSub(pos[nl[i][k]], pos[i]), ppp)

\* bonds of particle i: minimum-image vectors to the listed neighbours, in list order
Bonds(H, ppp, pos, nl, i) == [k \in 1..Len(nl[i]) |-> Rij(H, ppp, pos, i, nl[i][k])]
DivNumB(R, u, nl, i)  == SumSeq([k \in 1..Len(R) |-> Dot(R[k], Uij(u, i, nl[i][k]))])
CurlNumB(R, u, nl, i) == VfVSum([k \in 1..Len(R) |-> Cross3(R[k], Uij(u, i, nl[i][k]))], 3)
DivNum(H, ppp, pos, u, nl, i)  == DivNumB(Bonds(H, ppp, pos, nl, i), u, nl, i)
CurlNum(H, ppp, pos, u, nl, i) == CurlNumB(Bonds(H, ppp, pos, nl, i), u, nl, i)
Divergence(H, ppp, pos, u, nl, i, S, SU)  == RNorm(DivNum(H, ppp, pos, u, nl, i), Len(nl[i]) * S * SU)
CurlVec(H, ppp, pos, u, nl, i, S, SU) ==
  [a \in 1..3 |-> RNorm(CurlNum(H, ppp, pos, u, nl, i)[a], Len(nl[i]) * S * SU)]

\* linear field u = A r (u_a = sum_b A[a][b] r_b) on open boundaries
VfMatVec(A, v)       == [a \in 1..Len(A) |-> Dot(A[a], v)]
LinearField(A, pos) == [i \in 1..Len(pos) |-> VfMatVec(A, pos[i])]
\* numerator of the neighbour second-moment tensor M_i = (1/cn) sum_j r_ij r_ij^T
MomNumB(R, d) == [a \in 1..d |-> [b \in 1..d |-> SumSeq([k \in 1..Len(R) |-> R[k][a] * R[k][b]])]]
MomNum(H, ppp, pos, nl, i) == MomNumB(Bonds(H, ppp, pos, nl, i), Len(pos[1]))
VfTrace(M)  == SumSeq([a \in 1..Len(M) |-> M[a][a]])
Axial3(M) == << M[3][2] - M[2][3], M[1][3] - M[3][1], M[2][1] - M[1][2] >>
IsIsotropic(M, m) == \A a, b \in 1..Len(M) : M[a][b] = (IF a = b THEN m ELSE 0)
\* For u = A r the documented neighbour averages are tr(A M_i) and the axial
\* vector of A M_i; for a neighbour shell with isotropic second moment m
\* (M_i = m I) they are m div u = m tr A and m curl u = m (A32-A23, A13-A31, A21-A12).
LinearFieldHasAnalyticDivCurl(A, H, pos, nl) ==
  LET d   == Len(pos[1])
      ppp == Zero(d)
      u   == LinearField(A, pos)
  IN  \A i \in 1..Len(pos) :
        LET R  == Bonds(H, ppp, pos, nl, i)
            M  == MomNumB(R, d)
            AM == MatMul(A, M)
            dv == DivNumB(R, u, nl, i)
            cv == IF d = 3 THEN CurlNumB(R, u, nl, i) ELSE << >>
        IN  /\ dv = VfTrace(AM)
            /\ d = 3 => cv = Axial3(AM)
            /\ IsIsotropic(M, M[1][1]) =>
                   /\ dv = M[1][1] * VfTrace(A)
                   /\ d = 3 => cv = VScale(M[1][1], Axial3(A))
\* a uniform translation of the field and a common shift of all positions change nothing
DivCurlShiftInvariant(H, ppp, pos, u, nl, t, w) ==
  LET pos2 == [i \in 1..Len(pos) |-> VAdd(pos[i], t)]
      u2   == [i \in 1..Len(u) |-> VAdd(u[i], w)]
  IN  \A i \in 1..Len(pos) :
        /\ DivNum(H, ppp, pos2, u2, nl, i) = DivNum(H, ppp, pos, u, nl, i)
        /\ Len(pos[1]) = 3 => CurlNum(H, ppp, pos2, u2, nl, i) = CurlNum(H, ppp, pos, u, nl, i)

(***************************************************************************)
(* 5. vibrability                                                          *)
(* ev is a (d N) x nm integer matrix (rows = components, particle-major:   *)
(* row (i-1) d + k is component k of particle i; column l = mode l), real  *)
(* eigenvector = ev / S; om[l] / SO is the eigenfrequency of mode l, a     *)
(* non-zero integer of EITHER sign: the weight of a mode is 1 / omega^2,   *)
(* so the sign of a frequency entry carries no information.                *)
(***************************************************************************)
ModeWeight(ev, d, i, l) == SumSeq([k \in 1..d |-> ev[(i - 1) * d + k][l] * ev[(i - 1) * d + k][l]])
\* over the common denominator lc^2 S^2, lc a common multiple of the om[l] (keeps TLC's 32-bit
\* integers small); lc \div om[l] is exact, its square is lc^2 / om[l]^2 whatever the sign of om[l]
VibLc(om) == VfLcm([l \in 1..Len(om) |-> Abs(om[l])])
Vib(ev, om, d, i, S, SO) ==
  LET lc == VibLc(om) IN
  RNorm(SumSeq([l \in 1..Len(om) |-> ModeWeight(ev, d, i, l) * (lc \div om[l]) * (lc \div om[l]) * SO * SO]),
        lc * lc * S * S)
\* the literal definition, mode by mode in rationals: sum_l |e_{l,i}|^2 / omega_l^2
VibLiteral(ev, om, d, i, S, SO) ==
  VfRSum([l \in 1..Len(om) |-> RNorm(ModeWeight(ev, d, i, l) * SO * SO, om[l] * om[l] * S * S)])
VibIsLiteral(ev, om, d, n, S, SO) == \A i \in 1..n : Vib(ev, om, d, i, S, SO) = VibLiteral(ev, om, d, i, S, SO)
VibTotal(ev, om, d, n, S, SO) == VfRSum([i \in 1..n |-> Vib(ev, om, d, i, S, SO)])
\* sum over particles = sum over modes of |e_l|^2 / omega_l^2 ; non-negative
VibSumRule(ev, om, d, n, S, SO) ==
  /\ VibTotal(ev, om, d, n, S, SO) =
       VfRSum([l \in 1..Len(om) |->
          RNorm(SumSeq([r \in 1..(d * n) |-> ev[r][l] * ev[r][l]]) * SO * SO, om[l] * om[l] * S * S)])
  /\ \A i \in 1..n : RLeq(<<0, 1>>, Vib(ev, om, d, i, S, SO))
\* doubling every frequency divides by four
VibFreqScaling(ev, om, d, n, S, SO) ==
  \A i \in 1..n : Vib(ev, [l \in 1..Len(om) |-> 2 * om[l]], d, i, S, SO)
                   = RMul(<<1, 4>>, Vib(ev, om, d, i, S, SO))
\* omega -> -omega changes nothing: for all modes at once, for every single mode, and
\* against the all-positive array |omega|; flipping the sign of a mode vector changes nothing either
VibSignInvariant(ev, om, d, n, S, SO) ==
  LET neg  == [l \in 1..Len(om) |-> 0 - om[l]]
      absv == [l \in 1..Len(om) |-> Abs(om[l])]
  IN  \A i \in 1..n :
        /\ Vib(ev, neg, d, i, S, SO)  = Vib(ev, om, d, i, S, SO)
        /\ Vib(ev, absv, d, i, S, SO) = Vib(ev, om, d, i, S, SO)
        /\ \A l \in 1..Len(om) : Vib(ev, [om EXCEPT ![l] = 0 - om[l]], d, i, S, SO) = Vib(ev, om, d, i, S, SO)
        /\ \A l \in 1..Len(om) :
              Vib([r \in 1..Len(ev) |-> [ev[r] EXCEPT ![l] = 0 - ev[r][l]]], om, d, i, S, SO) = Vib(ev, om, d, i, S, SO)

(***************************************************************************)
(* 6. Fourier-space longitudinal / transverse split on the quarter-box     *)
(* lattice: r_i = L_k m_ik / 4, q_k = 2 pi n_k / L_k, so                   *)
(* exp(-i q.r_i) = (-i)^(n . m_i) is a Gaussian integer.                   *)
(* G(n) = sqrt(N) * FFT(n) is a vector of Gaussian integers <<re, im>>.    *)
(* With lc = lcm of the box lengths and w_k = n_k lc / L_k (so q = 2 pi w  *)
(* / lc), W2 = |w|^2:  L = w (w.G) / W2,  T = G - L; numerators over W2    *)
(* are Gaussian integers.                                                  *)
(***************************************************************************)
GAdd(a, b)   == <<a[1] + b[1], a[2] + b[2]>>
GSub(a, b)   == <<a[1] - b[1], a[2] - b[2]>>
GScale(c, a) == <<c * a[1], c * a[2]>>
GMul(a, b)   == <<a[1] * b[1] - a[2] * b[2], a[1] * b[2] + a[2] * b[1]>>
GConj(a)     == <<a[1], 0 - a[2]>>
GAbs2(a)     == a[1] * a[1] + a[2] * a[2]
RECURSIVE VfGSum(_)
VfGSum(s) == IF s = << >> THEN <<0, 0>> ELSE GAdd(Head(s), VfGSum(Tail(s)))
\* (-i)^k
MinusIPow(k) == LET r == k % 4 IN
                IF r = 0 THEN <<1, 0>> ELSE IF r = 1 THEN <<0, 0 - 1>>
                ELSE IF r = 2 THEN <<0 - 1, 0>> ELSE <<0, 1>>


\* G_k(n) = sum_i e_ik (-i)^(n . m_i)
GField(n, m, e) ==
  [k \in 1..Len(n) |-> VfGSum([i \in 1..Len(e) |-> GScale(e[i][k], MinusIPow(Dot(n, m[i])))])]
WVec(n, L)  == LET lc == VfLcm(L) IN [k \in 1..Len(n) |-> n[k] * (lc \div L[k])]
W2(n, L)    == Norm2(WVec(n, L))
GDotW(G, w) == VfGSum([k \in 1..Len(w) |-> GScale(w[k], G[k])])
\* numerators over W2
LNum(n, L, G) == LET w == WVec(n, L)  g == GDotW(G, w) IN [k \in 1..Len(n) |-> GScale(w[k], g)]
TNum(n, L, G) == LET w2 == W2(n, L)  ln == LNum(n, L, G) IN
                 [k \in 1..Len(n) |-> GSub(GScale(w2, G[k]), ln[k])]
GNorm2(V) == SumSeq([k \in 1..Len(V) |-> GAbs2(V[k])])

\* S, S_L, S_T as rationals (1/N normalisation; field e/S)
SqTot(n, L, G, N, S) == RNorm(GNorm2(G), N * S * S)
SqL(n, L, G, N, S)   == RNorm(GAbs2(GDotW(G, WVec(n, L))), N * S * S * W2(n, L))
SqT(n, L, G, N, S) ==
  LET w2 == W2(n, L) IN RMul(RNorm(GNorm2(TNum(n, L, G)), w2 * w2), <<1, N * S * S>>)

LongitudinalParallelToQ(n, L, G) ==
  LET w == WVec(n, L)  Ln == LNum(n, L, G) IN
  \A a, b \in 1..Len(n) : GSub(GScale(w[b], Ln[a]), GScale(w[a], Ln[b])) = <<0, 0>>
TransverseOrthogonalToQ(n, L, G) == GDotW(TNum(n, L, G), WVec(n, L)) = <<0, 0>>
PartsAddUp(n, L, G) ==
  \A k \in 1..Len(n) : GAdd(LNum(n, L, G)[k], TNum(n, L, G)[k]) = GScale(W2(n, L), G[k])
SqSplits(n, L, G, N, S) ==
  RAdd(SqL(n, L, G, N, S), SqT(n, L, G, N, S)) = SqTot(n, L, G, N, S)
\* S(-q) = S(q) for a real field, L and T of -q are the conjugates
MinusQConjugate(n, L, m, e) ==
  LET G == GField(n, m, e)  Gm == GField(VNeg(n), m, e) IN
  /\ \A k \in 1..Len(n) : Gm[k] = GConj(G[k])
  /\ \A k \in 1..Len(n) : LNum(VNeg(n), L, Gm)[k] = GConj(LNum(n, L, G)[k])

\* all non-zero integer vectors in {-h..h}^d, in lexicographic order
AllQ(d, h) ==
  LET nn  == 2 * h + 1
      all == [i \in 1..IPow(nn, d) |-> [k \in 1..d |-> (((i - 1) \div IPow(nn, d - k)) % nn) - h]]
  IN  SelectSeq(all, LAMBDA v : v # Zero(d))

\* groups of equal wave number |q| (exact: equal W2), ascending
W2Set(qs, L)   == {W2(qs[x], L) : x \in 1..Len(qs)}
QGroups(qs, L) == LET ks == SortedSeq(W2Set(qs, L)) IN
                  [g \in 1..Len(ks) |-> [w2 |-> ks[g], idx |-> {x \in 1..Len(qs) : W2(qs[x], L) = ks[g]}]]
RMeanOver(F(_), idx) == LET s == SortedSeq(idx) IN
                        RMul(VfRSum([x \in 1..Len(s) |-> F(s[x])]), <<1, Len(s)>>)

(***************************************************************************)
(* 7. time correlation of the transformed field (composition with the      *)
(* public time_correlation, property C14): X[f] = vector of Gaussian       *)
(* integers (numerators over a frame-independent denominator) at frame f.  *)
(*   evenly spaced frames: C(k) = mean over origins o of                   *)
(*        Re sum_c X[o+k]_c conj(X[o]_c);  uneven: origin = first frame    *)
(*   value = C(k) / C(0)                                                   *)
(***************************************************************************)
ReDotConj(X, Y) == SumSeq([c \in 1..Len(X) |-> GMul(X[c], GConj(Y[c]))[1]])
IsLinear(ts) == Len(ts) >= 2 /\ \A f \in 2..(Len(ts) - 1) : ts[f + 1] - ts[f] = ts[2] - ts[1]
\* unnormalised C(k) as a rational (k = 0..T-1)
CorrRaw(X, ts, k) ==
  IF IsLinear(ts)
  THEN RNorm(SumSeq([o \in 1..(Len(ts) - k) |-> ReDotConj(X[o + k], X[o])]), Len(ts) - k)
  ELSE <<ReDotConj(X[k + 1], X[1]), 1>>
CorrDefined(X, ts) == CorrRaw(X, ts, 0)[1] # 0
Corr(X, ts, k) == RDiv(CorrRaw(X, ts, k), CorrRaw(X, ts, 0))
(***************************************************************************)
(* 9. Neighbour files as the routines receive them.  A frame of a file is  *)
(* a sequence of rows [id, list], one per particle, in ANY order: the      *)
(* reader (property C05) files every row under the id written in its first *)
(* column.  A neighbour list nl (function id -> list) written in the row   *)
(* order `order` (a permutation of the ids) is therefore the same input.   *)
(***************************************************************************)
IsPerm(order, n)   == Len(order) = n /\ {order[k] : k \in 1..n} = 1..n
NlRows(nl, order)  == [k \in 1..Len(nl) |-> [id |-> order[k], list |-> nl[order[k]]]]
NlOfRows(rows)     == [i \in 1..Len(rows) |-> rows[CHOOSE k \in 1..Len(rows) : rows[k].id = i].list]
RowOrderIrrelevant(nl, order) == IsPerm(order, Len(nl)) /\ NlOfRows(NlRows(nl, order)) = nl
\* ids sorted by a key (used by the models to pick a row order)
PermByKey(K(_), n) == LET s == SortedSeq({K(i) * 1024 + i : i \in 1..n}) IN [k \in 1..n |-> s[k] % 1024]

(***************************************************************************)
(* 8. The split for positions on an arbitrary division grid r = L m / M:   *)
(* exp(-i q.r_i) = zeta_M^(-(n.m_i)) with zeta_M = exp(2 pi i / M).  The   *)
(* transform is a cyclotomic integer: per component the vector of          *)
(* coefficients C[res] = sum of e_ik over particles with n.m_i = res mod M.*)
(* Stated as Real terms (used by the trace specification for M # 4).       *)
(***************************************************************************)
CycCoef(n, m, e, k, M) ==
  [r \in 1..M |-> SumSeq([i \in 1..Len(e) |-> IF Dot(n, m[i]) % M = r - 1 THEN e[i][k] ELSE 0])]
\* F_k(n) = (1 / (sqrt(N) S)) sum_res C[res] zeta^(-res)
FTerm(n, m, e, k, M, S) ==
  LET C == CycCoef(n, m, e, k, M) IN
  Div(Add([r \in 1..M |-> Mul2(I(C[r]), Zeta((M - (r - 1)) % M, M))]), Mul2(Sqrt(I(Len(e))), I(S)))
FTerms(n, m, e, M, S) == [k \in 1..Len(n) |-> FTerm(n, m, e, k, M, S)]
WDotF(n, L, F) == LET w == WVec(n, L) IN Add([k \in 1..Len(n) |-> Mul2(I(w[k]), F[k])])
LTerms(n, L, F) == LET w == WVec(n, L) IN [k \in 1..Len(n) |-> Mul2(Q(w[k], W2(n, L)), WDotF(n, L, F))]
TTerms(n, L, F) == LET Lt == LTerms(n, L, F) IN [k \in 1..Len(n) |-> Sub(F[k], Lt[k])]
Norm2Term(V) == Add([k \in 1..Len(V) |-> Abs2(V[k])])
MeanTerm(ts) == Div(Add(ts), I(Len(ts)))
=============================================================================
