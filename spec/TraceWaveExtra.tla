--------------------------- MODULE TraceWaveExtra ---------------------------
(***************************************************************************)
(* Trace validation (direction B) for the wave-vector generators           *)
(* (WaveExtra.tla, growth check X02 c).  Records:                          *)
(*  [op |-> "wv", d, n, rows]          wavevector2d / wavevector3d(n)      *)
(*  [op |-> "cont", d, q, pos, rows]   continuousvector(d, q, pos = 0 | 1) *)
(*  [op |-> "choose", d, q, pos, cont, rows]   choosewavevector(d, q, pos) *)
(*        returned rows, continuousvector(d, q, pos) returned cont: the    *)
(*        former is the latter restricted to integer norms, same order     *)
(*  [op |-> "bounded", d, n, wv, choose]   wavevectorNd(n) returned wv,    *)
(*        choosewavevector(d, 2 n, True) returned choose: the vectors of   *)
(*        wv are those of choose whose norm is below n                     *)
(***************************************************************************)
EXTENDS WaveExtra, Json, IOUtils

Tr == ndJsonDeserialize(IOEnv.TRACE_FILE)

VARIABLES l, bad
vars == <<l, bad>>

Why(rec) ==
  CASE rec.op = "wv"   -> WhyWV(rec.rows, rec.d, rec.n)
    [] rec.op = "cont" -> WhyCont(rec.rows, rec.d, rec.q, rec.pos = 1)
    [] rec.op = "choose" ->
         IF rec.rows = SelectSeq(rec.cont, LAMBDA v : IsSquare(Norm2(v))) THEN "" ELSE "ChooseIsFilterOfCont"
    [] rec.op = "bounded" ->
         IF {Tail1(rec.wv[k]) : k \in 1..Len(rec.wv)}
              = {v \in Range(rec.choose) : Norm2(v) <= (rec.n - 1) * (rec.n - 1)} THEN "" ELSE "WVIsBoundedChoose"
    [] OTHER -> "UnknownRecord"

Init == l = 1 /\ bad = ""
Step == /\ l <= Len(Tr) /\ bad = ""
        /\ LET w == Why(Tr[l]) IN IF w = "" THEN l' = l + 1 /\ bad' = "" ELSE l' = l /\ bad' = w
Spec == Init /\ [][Step]_vars
Accepted == bad = ""
=============================================================================
