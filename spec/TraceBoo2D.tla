----------------------------- MODULE TraceBoo2D -----------------------------
(***************************************************************************)
(* Direction B for C10.  Records, in the order the library consumed them:  *)
(*  [op |-> "open", l, H, ppp, nmax, nb, wt]   a boo_2d object was built   *)
(*        on a neighbour file with frames nb[f][i] (listed ids) and a      *)
(*        weight file wt[f][i] (integers, same shape) or wt = << >>        *)
(*  [op |-> "frame", id, pos (, H)]            next snapshot of that       *)
(*        trajectory, positions as scaled integers (and the cell of that   *)
(*        snapshot when it differs from the first one: sheared runs)       *)
(* The cursor on the two files is a variable of this spec: snapshot number *)
(* k of an object is paired with file frame k because one frame is         *)
(* consumed per snapshot.  psi is real-valued, so nothing is rejected      *)
(* here; for every "frame" record the expected psi of every particle is    *)
(* printed as a term together with the tie flag (a bond on an exact        *)
(* half-cell tie: either image admissible, the harness skips the particle) *)
(* and the def flag (psi undefined: empty list, zero bond, zero weights).   *)
(***************************************************************************)
EXTENDS Boo2D, TLC, Json, IOUtils

Tr == ndJsonDeserialize(IOEnv.TRACE_FILE)

VARIABLES l, bad, obj, cursor
vars == <<l, bad, obj, cursor>>

\* the cell of a snapshot: a "frame" record may carry its own cell (sheared trajectory: the tilt changes from
\* frame to frame at constant edge lengths); otherwise the cell given when the object was built
CfAt(rec) == [t |-> 0, H |-> (IF "H" \in DOMAIN rec THEN rec.H ELSE obj.H), ppp |-> obj.ppp, nmax |-> obj.nmax, pos |-> rec.pos,
              nb |-> obj.nb[cursor + 1], wt |-> IF obj.wt = << >> THEN << >> ELSE obj.wt[cursor + 1]]
Expect(rec) ==
  LET cf == CfAt(rec) IN
  [i \in 1..Len(rec.pos) |->
     [tie |-> HasBondTie(cf, i),
      def |-> Defined(cf, i),          \* FALSE: empty list, zero-length bond or zero weight sum (psi undefined)
      n   |-> Len(Bonds1(cf, i)),
      psi |-> IF Defined(cf, i) THEN PsiT(0, Bonds1(cf, i), WeightsOf(cf, i), obj.l) ELSE << >>]]

Why(rec) ==
  CASE rec.op = "open"  -> ""
    [] rec.op = "frame" -> IF cursor >= Len(obj.nb) THEN "FileCursor:file-exhausted"
                           ELSE ""
    [] OTHER -> "UnknownRecord"

Init == l = 1 /\ bad = "" /\ obj = [nb |-> << >>] /\ cursor = 0
Step ==
  /\ l <= Len(Tr) /\ bad = ""
  /\ LET rec == Tr[l]
         w   == Why(rec)
     IN  /\ IF w = "" THEN l' = l + 1 /\ bad' = "" ELSE l' = l /\ bad' = w
         /\ IF rec.op = "open" THEN obj' = rec /\ cursor' = 0
            ELSE IF w = "" THEN cursor' = cursor + 1 /\ UNCHANGED obj
            ELSE UNCHANGED <<obj, cursor>>
         /\ ((rec.op = "frame" /\ w = "") => PrintT(ToJson([rec |-> rec.id, exp |-> Expect(rec)])))
Spec == Init /\ [][Step]_vars
Accepted == bad = ""
=============================================================================
