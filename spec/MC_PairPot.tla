---------------------------- MODULE MC_PairPot ----------------------------
(***************************************************************************)
(* Model of property C12.  One state per (model, shift, parameter point);  *)
(* the points are a product grid plus boundary values of the documented    *)
(* domain (EdgePars).  Histories of calls: see MC_PairPotSession.          *)
(* The clauses "the documented closed forms are the derivatives of the     *)
(* documented energy", "the cut-off term is s'(r_c)" and the force-shift   *)
(* identities are INVARIANTs; Emit prints, per state, the canonical        *)
(* derivative terms (Var leaves) and the grid of distances at which the    *)
(* harness compares them with PairInteractions.                            *)
(***************************************************************************)
EXTENDS PairPot, Json

CONSTANTS Tier,      \* "quick" | "thorough"
          SEED,      \* VERIF_SEED: moves the seed-dependent part of the grid
          SHARD, NSHARDS

VARIABLES model, shift, par,
          tabs       \* model-level tables, evaluated once in Init (see PairPot!PotRec)
vars == <<model, shift, par, tabs>>

Quick == Tier = "quick"

\* ---- the grid (rationals <<num, den>>) ----
\* seed-dependent rationals in (lo, hi): k/den with k pseudo-random
Jit(i, lo, hi, den) == <<lo * den + 1 + ((SEED * 131 + i * 37 + 11) % ((hi - lo) * den - 1)), den>>

EpsSet   == IF Quick THEN {<<1, 1>>, <<3, 2>>} ELSE {<<1, 1>>, <<3, 2>>, <<1, 4>>, Jit(1, 0, 3, 7)}
SigmaSet == IF Quick THEN {<<1, 1>>, <<11, 10>>, <<3, 4>>}
            ELSE {<<1, 1>>, <<11, 10>>, <<3, 4>>, <<2, 1>>, Jit(2, 1, 2, 9)}
RcSet    == IF Quick THEN {<<5, 2>>, <<28, 25>>} ELSE {<<5, 2>>, <<28, 25>>, <<3, 2>>, Jit(3, 1, 4, 11)}
NSet     == IF Quick THEN {<<10, 1>>, <<12, 1>>, <<5, 2>>, <<1, 1>>}
            ELSE {<<10, 1>>, <<12, 1>>, <<5, 2>>, <<1, 1>>, <<7, 3>>, <<36, 1>>, <<1, 2>>, Jit(4, 1, 9, 5)}
ASet     == IF Quick THEN {<<1, 1>>, <<2, 3>>} ELSE {<<1, 1>>, <<2, 3>>, <<5, 1>>, Jit(5, 0, 4, 3)}
\* alpha > 1 (for alpha <= 1 the documented force does not vanish at contact)
AlphaSet == IF Quick THEN {<<2, 1>>, <<5, 2>>, <<3, 2>>, <<3, 1>>}
            ELSE {<<2, 1>>, <<5, 2>>, <<3, 2>>, <<3, 1>>, <<4, 1>>, <<9, 4>>, <<6, 5>>, Jit(6, 1, 4, 6)}
IsInt(q) == q[2] = 1

\* distances: both sides of sigma and of r_c, including r = r_c and r = sigma
RSeqBase == << <<1, 4>>, <<3, 8>>, <<1, 2>>, <<5, 8>>, <<3, 4>>, <<9, 10>>, <<1, 1>>, <<21, 20>>, <<11, 10>>, <<28, 25>>, <<5, 4>>,
               <<3, 2>>, <<2, 1>>, <<5, 2>>, <<3, 1>>, <<7, 2>> >>
\* (a seed-dependent distance that coincides with an earlier one is dropped)
RECURSIVE Dedup(_, _)
Dedup(sq, acc) == IF sq = << >> THEN acc
                  ELSE IF \E i \in 1..Len(acc) : REq(acc[i], Head(sq)) THEN Dedup(Tail(sq), acc)
                  ELSE Dedup(Tail(sq), Append(acc, Head(sq)))
RSeqAll  == Dedup(RSeqBase \o << Jit(7, 0, 1, 16), Jit(8, 1, 2, 13), Jit(9, 2, 4, 10), Jit(10, 0, 3, 17) >>, << >>)

\* Hertz: for non-integer alpha the law is real only for r < sigma; r = sigma itself is
\* excluded: it is the edge of the support of the law (s'' is singular there for alpha < 2,
\* 0^0 for alpha = 2, and a form such as u^alpha / u - equal to u^(alpha-1) everywhere else -
\* has no value there), so contact is a boundary tie and never asserted; distances on both
\* sides of sigma are in the grid (beyond contact for integer alpha)
RSeq(m, p) ==
  IF m # "harmonic_hertz" THEN RSeqAll
  ELSE SelectSeq(RSeqAll, LAMBDA r : ~REq(r, p.sigma) /\ (IsInt(p.alpha) \/ RLt(r, p.sigma)))

\* parameter points.  Every point carries n, A and alpha (the selector must ignore the
\* ones the requested model does not use).  Hertz: the documented cut-off is sigma; with
\* shift off any r_c is admissible.
ParsOf(m, sh) ==
  IF m = "lennard_jones" THEN
    {[eps |-> e, sigma |-> s, rc |-> c, n |-> <<7, 1>>, A |-> <<3, 1>>, alpha |-> <<5, 1>>]
       : e \in EpsSet, s \in SigmaSet, c \in RcSet}
  ELSE IF m = "inverse_power_law" THEN
    {[eps |-> pr[1], sigma |-> pr[2], rc |-> c, n |-> nn, A |-> a, alpha |-> <<5, 1>>]
       : pr \in EpsSet \X SigmaSet, c \in RcSet, nn \in NSet, a \in ASet}
  ELSE
    {[eps |-> e, sigma |-> pr[1], rc |-> pr[2], n |-> <<7, 1>>, A |-> <<3, 1>>, alpha |-> al]
       : e \in EpsSet, al \in AlphaSet,
         pr \in {q \in SigmaSet \X (RcSet \cup SigmaSet) : sh => q[2] = q[1]}}

\* ---- boundary values of the documented domain (added to the product grid above) ----
\* The property quantifies over every energy scale and prefactor: eps and A are arbitrary reals,
\* including 0 (all three derivatives vanish identically) and negative values (the sign of every
\* member flips); a cut-off exactly at sigma.  (Hertz exactly at contact: a tie, see RSeq.)  Only values for which
\* the documented formulas define the triple are listed.
ZeroNeg == {<<0, 1>>, <<0 - 3, 4>>}
EdgePars(m, sh) ==
  IF m = "lennard_jones" THEN
    {[eps |-> e, sigma |-> s, rc |-> <<5, 2>>, n |-> <<7, 1>>, A |-> <<3, 1>>, alpha |-> <<5, 1>>]
       : e \in ZeroNeg, s \in SigmaSet}
    \cup {[eps |-> <<3, 2>>, sigma |-> s, rc |-> s, n |-> <<7, 1>>, A |-> <<3, 1>>, alpha |-> <<5, 1>>] : s \in SigmaSet}
  ELSE IF m = "inverse_power_law" THEN
    {[eps |-> pr[1], sigma |-> pr[2], rc |-> <<5, 2>>, n |-> nn, A |-> a, alpha |-> <<5, 1>>]
       : pr \in EpsSet \X SigmaSet, nn \in NSet, a \in {<<0, 1>>, <<0 - 1, 2>>}}
    \cup {[eps |-> e, sigma |-> <<11, 10>>, rc |-> <<28, 25>>, n |-> nn, A |-> <<2, 3>>, alpha |-> <<5, 1>>]
           : e \in ZeroNeg, nn \in NSet}
  ELSE
    {[eps |-> e, sigma |-> s, rc |-> s, n |-> <<7, 1>>, A |-> <<3, 1>>, alpha |-> al]
       : e \in ZeroNeg, s \in SigmaSet, al \in AlphaSet}
AllPars(m, sh) == ParsOf(m, sh) \cup EdgePars(m, sh)

Key(p) == 4000 + p.eps[1] + 3 * p.sigma[1] + 5 * p.rc[1] + 7 * p.n[1] + 11 * p.A[1] + 13 * p.alpha[1]
          + 17 * p.sigma[2] + 19 * p.n[2]

\* ---- the clauses of C12 at model level, per potential ----
\* which leaves each member of the triple depends on (selector / shift clause)
Leaves(m, sh) ==
  /\ UsesA(S1(m)) = (m = "inverse_power_law")
  /\ UsesSym(S2(m)) = (m # "lennard_jones")
  /\ ~UsesRc(S1(m)) /\ ~UsesRc(S2(m))
  /\ ~UsesR(S1c(m, sh))
  /\ UsesRc(S1c(m, sh)) = (sh /\ m # "harmonic_hertz")
  /\ (~sh => S1c(m, sh) = PZero)
Clauses(m) ==
  [ first   |-> DocFirstDerivative(m),
    second  |-> DocSecondDerivative(m),
    cutoff  |-> DocCutoffTerm(m),
    shift1  |-> ForceShiftFirst(m),
    shift2  |-> ForceShiftSecond(m),
    nosym   |-> (m = "lennard_jones" => NoSym(S1(m)) /\ NoSym(S2(m)) /\ NoSym(S1AtCut(m))),
    algebra |-> /\ Leibniz(Energy(m), Energy("lennard_jones"))
                /\ Leibniz(S1(m), PMul(RP(<<0, 1>>), UP(<<2, 0 - 1>>)))
                /\ Linear(Energy(m), Energy("inverse_power_law")),
    leaves  |-> TLCEval([sh \in BOOLEAN |-> Leaves(m, sh)]),
    nmax    |-> Max2(Len(S1(m)), Len(S2(m))) ]

Init ==
  /\ tabs = [pot |-> PotTable, cl |-> TLCEval([m \in Models |-> Clauses(m)])]
  /\ model \in Models
  /\ shift \in BOOLEAN
  /\ par \in AllPars(model, shift)
  /\ Key(par) % NSHARDS = SHARD

Next == UNCHANGED vars
Spec == Init /\ [][Next]_vars

InvFirst   == tabs.cl[model].first
InvSecond  == tabs.cl[model].second
InvCutoff  == tabs.cl[model].cutoff
InvShift1  == tabs.cl[model].shift1
InvShift2  == tabs.cl[model].shift2
InvNoSymLJ == tabs.cl[model].nosym
InvAlgebra == tabs.cl[model].algebra
InvLeaves  == tabs.cl[model].leaves[shift]
\* the grid has more distinct distances than the triple has monomials (interpolation argument:
\* a sum of k real-power monomials has at most k - 1 positive zeros)
InvGrid    == /\ Len(RSeq(model, par)) >= 2 * tabs.cl[model].nmax + 2
              /\ Cardinality({RNorm(q[1], q[2]) : q \in Range(RSeq(model, par))}) = Len(RSeq(model, par))
\* (eps and A are arbitrary rationals: zero and negative values belong to the scope, see EdgePars)
InvDomain  == /\ RLt(RZero, par.sigma) /\ RLt(RZero, par.rc)
              /\ RLt(<<1, 1>>, par.alpha) /\ RLt(RZero, par.n)
              /\ \A q \in Range(RSeq(model, par)) : RLt(RZero, q)
              /\ (model = "harmonic_hertz" /\ shift => REq(par.rc, par.sigma))
\* the boundary values are in the scope of every run: A = 0, A < 0 (selector and method), eps = 0, eps < 0,
\* r_c = sigma, and Hertz on both sides of contact
InvEdges   == /\ \E p \in AllPars("inverse_power_law", shift) : p.A[1] = 0
              /\ \E p \in AllPars("inverse_power_law", shift) : p.A[1] < 0
              /\ \A m \in Models : (\E p \in AllPars(m, shift) : p.eps[1] = 0) /\ (\E p \in AllPars(m, shift) : p.eps[1] < 0)
              /\ \E p \in AllPars("lennard_jones", shift) : REq(p.rc, p.sigma)
              /\ \E p \in AllPars("harmonic_hertz", shift) :
                    /\ \E r \in Range(RSeq("harmonic_hertz", p)) : RLt(r, p.sigma)
                    /\ \E r \in Range(RSeq("harmonic_hertz", p)) : RLt(p.sigma, r)

\* ---- emission (direction A) ----
\* the derivative terms depend on (model, shift) only: they are printed with the lead
\* point of each (model, shift); every other state prints its parameter point and distances
Hz(m)  == m = "harmonic_hertz"
Ipl(m) == m = "inverse_power_law"
Lead(m) == [eps |-> <<1, 1>>, sigma |-> <<1, 1>>, rc |-> IF Hz(m) THEN <<1, 1>> ELSE <<5, 2>>,
            n |-> IF Ipl(m) THEN <<10, 1>> ELSE <<7, 1>>, A |-> IF Ipl(m) THEN <<1, 1>> ELSE <<3, 1>>,
            alpha |-> IF Hz(m) THEN <<2, 1>> ELSE <<5, 1>>]
InvLead == Lead(model) \in ParsOf(model, shift)
Point ==
  [ m     |-> "Point",
    model |-> model,
    shift |-> shift,
    par   |-> par,
    rs    |-> RSeq(model, par),
    Adefault |-> (model = "inverse_power_law" /\ par.A = <<1, 1>>),
    edge  |-> par \in EdgePars(model, shift) ]
Terms ==
  [ m     |-> "Terms",
    model |-> model,
    shift |-> shift,
    sym   |-> tabs.pot[model].sym,
    s1    |-> tabs.pot[model].s1t,
    s1c   |-> tabs.pot[model].s1ct[shift],
    s2    |-> tabs.pot[model].s2t,
    nmono |-> tabs.pot[model].nmono[shift] ]
Emit == /\ PrintT(ToJson(Point))
        /\ (par = Lead(model) => PrintT(ToJson(Terms)))
=============================================================================
