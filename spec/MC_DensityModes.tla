-------------------------- MODULE MC_DensityModes --------------------------
(***************************************************************************)
(* Models for property C04.                                                *)
(*  "wavevec"  the default wave-vector set for d = 2, 3, every half-width  *)
(*             h = 0..6 (numofq = 0..13) and every onlypositive option     *)
(*  "grid"     exhaustive: 3 particles on the quarter-box lattice (M = 4,  *)
(*             Gaussian-integer modes) of a 4 x 8 box, 4 species           *)
(*             assignments, all 24 vectors of {-2..2}^2 \ 0                *)
(*  "hash"     species counts 1..6 x {2-D, 3-D} x 3 boxes with unequal     *)
(*             edges x M in {3,4,5,6,8} x 1-2 frames x explicit lists and  *)
(*             default sets (qrange, every onlypositive option)            *)
(*  "nearq"    explicit lists with distinct but nearly equal moduli        *)
(*  "trace"    configurations recorded by the harness (direction B)        *)
(***************************************************************************)
EXTENDS DensityModes, Json, IOUtils

CONSTANTS Tier, Mode, Gen, SHARD, NSHARDS

VARIABLES c
vars == <<c>>

Opts == <<"F", "T", "x", "y", "z">>
AllVecs2 == SelectSeq(Cube(2, 0 - 2, 2), LAMBDA v : ~IsZero(v))
AllVecs3 == SelectSeq(Cube(3, 0 - 2, 2), LAMBDA v : ~IsZero(v))
SomeVecs3 == SelectSeq(Cube(3, 0 - 1, 2), LAMBDA v : ~IsZero(v))

GridConfigs ==
  { [L |-> <<4, 8>>, S |-> 1, M |-> 4, types |-> t, frames |-> << <<p1, p2, p3>> >>,
     sel |-> [kind |-> "list", vecs |-> AllVecs2]] :
      t \in {<<1, 1, 1>>, <<1, 1, 2>>, <<1, 2, 1>>, <<2, 1, 2>>},
      p1 \in {<<0, 0>>, <<1, 2>>}, p2 \in (0..3) \X (0..3), p3 \in (0..3) \X {0 - 1, 0, 2, 5} }

P == 46337
Scr(x) == ((x % P) * (x % P) + 3 * (x % P) + 7) % P
Hash(seed, f, i, k) == Scr(Scr(7919 * seed + 4733 * f + 3571 * i + 2909 * k) + seed)
HTypes(seed, n, K) == [i \in 1..n |-> IF i <= K THEN i ELSE 1 + (Scr(seed + 31 * i) % (1 + (Scr(seed + i) % K)))]
Boxes2 == << <<8, 12>>, <<10, 10>>, <<6, 16>> >>
Boxes3 == << <<8, 12, 6>>, <<10, 10, 10>>, <<6, 8, 16>> >>
Ms == <<3, 4, 5, 6, 8>>
Step == IF Tier = "quick" THEN 11 ELSE 1
NHash == 6 * 2 * 3 * 5 * 2 * 6 * 2
HashConfig(s) ==
  LET K  == 1 + (s % 6)
      d  == 2 + ((s \div 6) % 2)
      bi == 1 + ((s \div 12) % 3)
      M  == Ms[1 + ((s \div 36) % 5)]
      nf == 1 + ((s \div 180) % 2)
      vi == (s \div 360) % 6
      n  == IF (s \div 2160) % 2 = 0 THEN K + 2 ELSE K + 6
      L  == IF d = 2 THEN Boxes2[bi] ELSE Boxes3[bi]
      sel == IF vi = 0 THEN [kind |-> "list", vecs |-> IF d = 2 THEN AllVecs2 ELSE SomeVecs3]
             ELSE [kind |-> "range", qn |-> 3 + (s % 4), qd |-> 2, opt |-> Opts[vi]]
      ty == HTypes(s, n, K)
      base == [ L |-> L, S |-> 2, M |-> M, types |-> ty,
                frames |-> [f \in 1..nf |-> [i \in 1..n |-> [k \in 1..d |-> (Hash(s, f, i, k) % (2 * M)) - (M \div 2)]]],
                sel |-> sel, id |-> s ]
      \* two-frame members with an even species count: labels rotated by one particle in the second frame
  IN  IF nf = 2 /\ K % 2 = 0 THEN base @@ [tys |-> <<ty, [i \in 1..n |-> ty[(i % n) + 1]]>>] ELSE base

\* ---- "nearq": explicit lists holding wave vectors whose moduli are DISTINCT but nearly equal.  In the 20 x 21 box
\* (S = 2: edges 10 and 10.5) the exact key of |q|^2 is 441 a^2 + 400 b^2; TLC searches the vectors of [0, 24]^2 for
\* pairs whose keys differ by exactly 1 at keys above 60000: their moduli (|q| of order 10) differ by a few 1e-5 -
\* far more than the 1e-6 rounding of the routine, so they are separate rows, but less than 1e-5 RELATIVE, so any
\* tolerance-based grouping (np.isclose) merges them.
NearL == <<20, 21>>
NKey(v) == v[1] * v[1] * 441 + v[2] * v[2] * 400
NearCand == {v \in (0..24) \X (0..24) : NKey(v) >= 60000}
NearKeys == TLCEval({NKey(v) : v \in NearCand})
NearLow  == TLCEval({k \in NearKeys : (k + 1) \in NearKeys})         \* lower key of a near-coincident pair
NearUse  == LET ks == SortedSeq(NearLow) IN {ks[i] : i \in 1..Min2(4, Len(ks))}
NearList == LET ks == SortedSeq(NearUse \cup {k + 1 : k \in NearUse})
            IN  [i \in 1..Len(ks) |-> LET v == CHOOSE w \in NearCand : NKey(w) = ks[i] IN <<v[1], v[2]>>]
            \o << <<1, 0>>, <<0, 1>>, <<3, 4>> >>
NNear == 3 * 5 * 2
NearConfig(s) ==
  LET K  == 1 + (s % 3)
      M  == Ms[1 + ((s \div 3) % 5)]
      nf == 1 + ((s \div 15) % 2)
      n  == K + 3
      ty == HTypes(s, n, K)
  IN  [ L |-> NearL, S |-> 2, M |-> M, types |-> ty,
        frames |-> [f \in 1..nf |-> [i \in 1..n |-> [k \in 1..2 |-> (Hash(s + 977, f, i, k) % (2 * M)) - (M \div 2)]]],
        sel |-> [kind |-> "list", vecs |-> NearList], id |-> 900000 + s ]
ASSUME NearNonVacuous == Mode # "nearq" \/ NearLow # {}

Tr == IF Mode = "trace" THEN ndJsonDeserialize(IOEnv.TRACE_FILE) ELSE << >>

Init ==
  \/ /\ Mode = "wavevec"
     /\ c \in {[d |-> d, h |-> h, opt |-> o] : d \in {2, 3}, h \in 0..6, o \in Range(Opts)}
     /\ (c.d + c.h) % NSHARDS = SHARD
  \/ /\ Mode = "grid"
     /\ c \in GridConfigs
     /\ (c.frames[1][2][1] + 3 * c.frames[1][3][2] + 5 * c.frames[1][2][2] + 7 * c.types[2]) % NSHARDS = SHARD
  \/ /\ Mode = "hash"
     /\ \E s \in 0..(NHash - 1) : s % Step = 0 /\ (s \div Step) % NSHARDS = SHARD /\ c = HashConfig(s)
  \/ /\ Mode = "nearq"
     /\ \E s \in 0..(NNear - 1) : s % NSHARDS = SHARD /\ c = NearConfig(s)
  \/ /\ Mode = "trace"
     /\ \E n \in 1..Len(Tr) : n % NSHARDS = SHARD /\ c = Tr[n]

Next == UNCHANGED vars
Spec == Init /\ [][Next]_vars

IsConfig == Mode # "wavevec"
InvDefaultSet == (Mode = "wavevec") => DefaultSetCharacterisation(c.d, c.h, c.opt)
\* the integer identities are checked on every vector in the exhaustive grid scope and on the first
\* eight vectors of each configuration elsewhere (they are identities in the count vectors)
Checked == LET vs == Vectors(c) IN IF Mode = "grid" THEN Range(vs) ELSE {vs[i] : i \in 1..Min2(8, Len(vs))}
InvSumRule    == IsConfig => \A v \in Checked : SumRule(c, v) /\ CorrMass(c, v)
InvDiagonal   == IsConfig => \A v \in Checked : DiagonalNonNegative(c, v)
InvGrouping   == IsConfig => GroupingByNorm(c, Vectors(c))
InvTypes      == IsConfig => Species(c) = 1..NSpecies(c) /\ PerFrameOK(c)

Emit == Gen =>
  IF IsConfig THEN PrintT(ToJson(Case(c) @@ (IF "id" \in DOMAIN c THEN [id |-> c.id] ELSE [id |-> 0 - 1])))
  ELSE PrintT(ToJson([m |-> "WaveVectors", d |-> c.d, h |-> c.h, opt |-> c.opt, vecs |-> DefaultVectors(c.d, c.h, c.opt)]))
=============================================================================
