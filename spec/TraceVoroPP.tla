---------------------------- MODULE TraceVoroPP ----------------------------
(***************************************************************************)
(* Trace validation (direction B) for the voro++ pipeline and indicehis    *)
(* (VoroPP.tla, VoroHist.tla; growth check X02 a, b).  Records, in order:  *)
(*  [op |-> "begin", c]     a call cal_voro / voronowalls(c) starts        *)
(*  [op |-> "run", argv, dump, tab]   the k-th invocation of the           *)
(*        environment, as logged by the stand-in voro++: its command line, *)
(*        the content of `dumpused` it found, and the table it answered.   *)
(*        The specification checks WriteInput(k) and applies VoroRun(k),   *)
(*        Split(k) to ITS state - the expected files are carried here.     *)
(*  [op |-> "files", nb, fa, vi, ov, tmp, pure, exact, raised]   the call  *)
(*        returned: the four files as parsed lines, the temporary files    *)
(*        still present, pure = 1 iff the snapshots are bitwise unchanged, *)
(*        exact = 1 iff every real token was on its quantum.  Opens the    *)
(*        two read handles (cursors 0).                                    *)
(*  [op |-> "read", which, nmax, res, tell]   read_neighbors on the        *)
(*        neighbour ("nb") / face-area ("fa") handle; tell = lines         *)
(*        consumed afterwards.  The cursors are variables of this spec.    *)
(*  [op |-> "hist", src, lines, header, out]   indicehis on the session's  *)
(*        voroindex file (src = "vi") or on the given lines; out = rows    *)
(*        <<n3, n4, n5, n6, fraction in 1e-6>>                             *)
(* Quanta: positions / bounds / radii c.PS per unit, areas / volumes c.AS. *)
(***************************************************************************)
EXTENDS VoroPP, Json, IOUtils

Tr == ndJsonDeserialize(IOEnv.TRACE_FILE)

VARIABLES l, bad, c, st, cnb, cfa
vars == <<l, bad, c, st, cnb, cfa>>

NoCall == [kind |-> "none"]
InCall == c.kind # "none"

WhyRun(rec) ==
  IF ~InCall THEN "Session"
  ELSE IF ~CanWrite(c, st) THEN "FramesInOrderOnce:MoreInvocationsThanFrames"
  ELSE LET f   == st.n + 1
           exp == InputRows(c, f)
           a   == rec.argv
       IN  IF ~TableOK(rec.tab, NP(c, f)) THEN "EnvironmentOutOfScope"
           ELSE IF Len(rec.dump) # Len(exp) THEN "InputIsFrame:NumberOfRows"
           ELSE IF \E i \in 1..Len(exp) : Len(rec.dump[i]) # 5 THEN "InputIsFrame:RowFormat"
           ELSE IF \E i \in 1..Len(exp) : rec.dump[i][1] # i THEN "InputIsFrame:IdsInOrder"
           ELSE IF \E i \in 1..Len(exp) : SubSeq(rec.dump[i], 2, 4) # c.pos[f][i] THEN
                  (IF \E g \in 1..NFr(c) : NP(c, g) = NP(c, f) /\ \A i \in 1..Len(exp) : SubSeq(rec.dump[i], 2, 4) = c.pos[g][i]
                   THEN "InputIsFrame:PositionsOfAnotherFrame" ELSE "InputIsFrame:Positions")
           ELSE IF \E i \in 1..Len(exp) : rec.dump[i][5] # exp[i][5] THEN "InputIsFrame:RadiusOfSpecies"
           ELSE IF a.ppp # c.ppp THEN "CommandLine:PeriodicityFlagPassedThrough"
           ELSE IF a.bounds # c.bounds[f] THEN "CommandLine:BoundsOfFrame"
           ELSE IF a.opts # <<"-r", "-c", Format>> \/ a.input # TmpInput THEN "CommandLine:Options"
           ELSE ""

WhyLines(obs, exp, name) ==
  IF Len(obs) # Len(exp) \/ \E k \in 1..Len(exp) : obs[k].h # exp[k].h THEN "Headers:" \o name
  ELSE IF \E k \in 1..Len(exp) : obs[k].h = 1 /\ obs[k].w # exp[k].w THEN "Headers:text:" \o name
  ELSE IF \A k \in 1..Len(exp) : obs[k].t = exp[k].t THEN ""
  ELSE LET k == CHOOSE j \in 1..Len(exp) : obs[j].t # exp[j].t
           o == obs[k].t
           e == exp[k].t
           what == IF Len(o) >= 2 /\ Len(e) >= 2 /\ o[1] # e[1] THEN "id"
                   ELSE IF name \in {"neighbor", "facearea", "overall"} /\ Len(o) >= 2 /\ o[2] # e[2] THEN "cn"
                   ELSE IF Len(o) # Len(e) THEN "entries"
                   ELSE "values"
       IN  (IF c.kind = "cal" THEN "Verbatim:" ELSE "WallsRemoved:") \o name \o ":" \o what

WhyFiles(rec) ==
  IF ~InCall THEN "Session"
  ELSE IF rec.raised # "" THEN "raises:" \o rec.raised
  ELSE IF ~CanFinish(c, st) THEN "FramesInOrderOnce:" \o (IF st.phase = "write" THEN "FrameNotProcessed" ELSE "Incomplete")
  ELSE IF rec.exact # 1 THEN "WrittenPrecision"
  ELSE LET ws == <<WhyLines(rec.nb, st.nb, "neighbor"), WhyLines(rec.fa, st.fa, "facearea"),
                   WhyLines(rec.vi, st.vi, "voroindex"), WhyLines(rec.ov, st.ov, "overall")>>
       IN  IF \E k \in 1..4 : ws[k] # "" THEN ws[CHOOSE k \in 1..4 : ws[k] # "" /\ \A j \in 1..(k - 1) : ws[j] = ""]
           ELSE IF rec.tmp # << >> THEN "TempFilesRemoved"
           ELSE IF rec.pure # 1 THEN "InputsUnchanged"
           ELSE ""

FrameAtOff(off) == IF \E f \in 1..NFr(c) : OffList(c, f) = off THEN CHOOSE f \in 1..NFr(c) : OffList(c, f) = off ELSE 0
WhyRead(rec) ==
  IF ~InCall \/ st.phase # "done" THEN "Session"
  ELSE LET off   == IF rec.which = "nb" THEN cnb ELSE cfa
           lines == IF rec.which = "nb" THEN st.nb ELSE st.fa
           f     == FrameAtOff(off)
       IN  IF f = 0 THEN "ReadableBack:FramesInOrder"
           ELSE IF ~ReaderAccepts(lines, off, NP(c, f)) THEN "ReadableBack:Accepted"
           ELSE IF rec.raised # "" THEN "raises:" \o rec.raised
           ELSE IF rec.res # ReadCall(lines, off, NP(c, f), rec.nmax) THEN
                  (IF \E g \in 1..NFr(c) : NP(c, g) = NP(c, f) /\ rec.res = ReadCall(lines, OffList(c, g), NP(c, g), rec.nmax)
                   THEN "ReadableBack:FramesInOrder" ELSE "ReadableBack:ZeroBasedIdsAreasTruncation")
           ELSE IF rec.tell # ReadNextOff(off, NP(c, f)) THEN "ReadableBack:Cursor"
           ELSE ""

HistInput(rec) == IF rec.src = "vi" THEN st.vi ELSE rec.lines
WhyHist(rec) ==
  IF rec.src = "vi" /\ (~InCall \/ st.phase # "done") THEN "Session"
  ELSE LET lines == HistInput(rec) IN
       IF ~ValidHistInput(lines) THEN "HistInputOutOfDomain"
       ELSE IF rec.raised # "" THEN "raises:" \o rec.raised
       ELSE IF rec.header # HistHeader THEN "HistHeader"
       ELSE LET rows == HistRows(lines) IN WhyHistOut(rec.out, HistCount(rows), Len(rows), HistTop)

Why(rec) ==
  CASE rec.op = "begin" -> ""
    [] rec.op = "run"   -> WhyRun(rec)
    [] rec.op = "files" -> WhyFiles(rec)
    [] rec.op = "read"  -> WhyRead(rec)
    [] rec.op = "hist"  -> WhyHist(rec)
    [] OTHER -> "UnknownRecord"

Init == l = 1 /\ bad = "" /\ c = NoCall /\ st = [phase |-> "none"] /\ cnb = 0 /\ cfa = 0
Step ==
  /\ l <= Len(Tr) /\ bad = ""
  /\ LET rec == Tr[l]
         w   == Why(rec)
     IN  IF w # "" THEN l' = l /\ bad' = w /\ UNCHANGED <<c, st, cnb, cfa>>
         ELSE /\ l' = l + 1 /\ bad' = ""
              /\ CASE rec.op = "begin" -> c' = rec.c /\ st' = PipeInit(rec.c) /\ cnb' = 0 /\ cfa' = 0
                   [] rec.op = "run"   -> st' = Split(c, VoroRun(c, WriteInput(c, st), rec.tab)) /\ UNCHANGED <<c, cnb, cfa>>
                   [] rec.op = "files" -> st' = Finish(c, st) /\ cnb' = 0 /\ cfa' = 0 /\ UNCHANGED c
                   [] rec.op = "read"  -> /\ cnb' = IF rec.which = "nb" THEN rec.tell ELSE cnb
                                          /\ cfa' = IF rec.which = "fa" THEN rec.tell ELSE cfa
                                          /\ UNCHANGED <<c, st>>
                   [] OTHER -> UNCHANGED <<c, st, cnb, cfa>>
Spec == Init /\ [][Step]_vars
Accepted == bad = ""
=============================================================================
