--------------------------- MODULE TraceNeighbors ---------------------------
(***************************************************************************)
(* Trace validation for C05.  Records, in the order the calls returned:    *)
(*  [op |-> "write", cfg, spec (the operation), file]   a writer           *)
(*      (Nnearests / cutoffneighbors / cutoffneighbors_particletype) was   *)
(*      called on cfg; file = parsed content of the file it wrote          *)
(*  [op |-> "open", file, shift, n]   a file written by the harness in the *)
(*      library format was opened (shift 1: header has "neighborlist")     *)
(*  [op |-> "read", nmax, res]        read_neighbors returned res on the   *)
(*      handle opened last                                                 *)
(* State: the content of the open file and the cursor of its handle.       *)
(***************************************************************************)
EXTENDS Neighbors, Json, IOUtils

Tr == ndJsonDeserialize(IOEnv.TRACE_FILE)

VARIABLES l, bad, file, cursor, shift, np
vars == <<l, bad, file, cursor, shift, np>>

WhyWrite(rec) ==
  LET cfg == rec.cfg
      n   == NPart(cfg)
      F   == Len(cfg.frames)
  IN  IF Len(rec.file) # F THEN "OneFramePerSnapshot"
      ELSE IF \E f \in 1..F : ~FrameWellFormed(rec.file[f], n) THEN "RowsByIdWithCn"
      ELSE LET whys == UNION { LET T == DT(cfg, f) IN
                               {IF AmbiguousT(T, i) THEN ""
                                ELSE WhyList(i, rec.file[f][i].ids, ExpectedT(T, TypesAt(cfg, f), cfg.sharp, i, rec.spec)) : i \in 1..n}
                               : f \in 1..F } \ {""}
           IN  IF whys = {} THEN "" ELSE CHOOSE w \in whys : TRUE

WhyRead(rec) ==
  IF cursor >= Len(file) THEN "ReadPastEnd"
  ELSE IF rec.res = ReadFrame(file[cursor + 1], np, rec.nmax, shift) THEN ""
  ELSE IF \E k \in 1..Len(file) : rec.res = ReadFrame(file[k], np, rec.nmax, shift) THEN "FramesInOrder"
  ELSE "ReadBackIsWrittenModuloTruncation"

Init == l = 1 /\ bad = "" /\ file = << >> /\ cursor = 0 /\ shift = 1 /\ np = 0

Step ==
  /\ l <= Len(Tr) /\ bad = ""
  /\ LET rec == Tr[l] IN
     IF rec.op = "write" THEN
        LET w == WhyWrite(rec) IN
        IF w = "" THEN /\ l' = l + 1 /\ bad' = "" /\ file' = rec.file /\ cursor' = 0
                       /\ shift' = 1 /\ np' = NPart(rec.cfg)
        ELSE l' = l /\ bad' = w /\ UNCHANGED <<file, cursor, shift, np>>
     ELSE IF rec.op = "open" THEN
        /\ l' = l + 1 /\ bad' = "" /\ file' = rec.file /\ cursor' = 0 /\ shift' = rec.shift /\ np' = rec.n
     ELSE
        LET w == WhyRead(rec) IN
        IF w = "" THEN l' = l + 1 /\ bad' = "" /\ cursor' = cursor + 1 /\ UNCHANGED <<file, shift, np>>
        ELSE l' = l /\ bad' = w /\ UNCHANGED <<file, cursor, shift, np>>
Spec == Init /\ [][Step]_vars
Accepted == bad = ""
=============================================================================
