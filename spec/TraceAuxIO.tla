---------------------------- MODULE TraceAuxIO ----------------------------
(***************************************************************************)
(* Trace validation for C19 (direction B).  One record per call of the     *)
(* real library, all numbers integers in units of 1/SCALE:                 *)
(*                                                                         *)
(*  hdr / datahdr   arguments of the header writers, obs = the returned    *)
(*                  string split into token lines                          *)
(*  open            lines = token lines of a dump file that was written to *)
(*                  disk and opened: sets the file and the cursor          *)
(*  plain / centre / vector                                                *)
(*                  one call of the single-frame reader on the open handle *)
(*                  obs = snapshot (or eof) + line position of the handle  *)
(*  w_plain / w_centre / w_vector / additions                              *)
(*                  whole-file calls (wrappers, read_additions) on the     *)
(*                  same file                                              *)
(*  gsd / gsd_dcd   frames (+ dcd array) and the converted snapshots       *)
(*  log             token lines of a log, obs = the returned tables        *)
(*                                                                         *)
(* The cursor is a variable of THIS specification: a record is accepted    *)
(* only if the result is the frame at the specification's cursor and the   *)
(* observed handle position equals the specification's next cursor.        *)
(***************************************************************************)
EXTENDS AuxIO, Json, IOUtils

Tr == ndJsonDeserialize(IOEnv.TRACE_FILE)

VARIABLES l, bad, fl, cur
vars == <<l, bad, fl, cur>>

KindOf(op) == IF op \in {"plain", "w_plain"} THEN "plain"
              ELSE IF op \in {"centre", "w_centre"} THEN "centre" ELSE "vector"
ParOf(rec) == IF KindOf(rec.op) = "centre" THEN MapOf(rec.par) ELSE rec.par
ContentClause(k) == IF k = "centre" THEN "CentreSelection" ELSE IF k = "vector" THEN "ColumnsById" ELSE "AtomsById"

WhySnap(k, o, e) ==
  IF o.eof # e.eof THEN "FramesInOrder"
  ELSE IF o.ts # e.ts \/ o.bounds # e.bounds \/ o.len # e.len THEN "ReadAfterWriteHeader"
  ELSE IF o.n # e.n THEN (IF k = "centre" THEN "CentreSelection" ELSE "ReadAfterWriteHeader")
  ELSE IF o.types # e.types \/ o.pos # e.pos THEN ContentClause(k)
  ELSE IF o.cur # e.cur THEN "Cursor"
  ELSE ""
NoCur(r) == [r EXCEPT !.cur = 0]
RECURSIVE WhySeq(_, _, _, _)
WhySeq(k, os, es, i) ==
  IF i > Len(es) THEN ""
  ELSE LET w == WhySnap(k, os[i], NoCur(es[i])) IN IF w # "" THEN w ELSE WhySeq(k, os, es, i + 1)

Why(rec) ==
  IF rec.op = "hdr" THEN
     (IF rec.obs = HeaderLines(rec.ts, rec.n, rec.bounds, rec.addson) THEN "" ELSE "HeaderLayout")
  ELSE IF rec.op = "datahdr" THEN
     (IF rec.obs = DataHeaderLines(rec.n, rec.ntypes, rec.bounds) THEN "" ELSE "DataHeaderLayout")
  ELSE IF rec.op = "open" THEN ""
  ELSE IF rec.op \in {"plain", "centre", "vector"} THEN
     WhySnap(rec.op, rec.obs, ReadStep(rec.op, fl, cur, rec.nd, ParOf(rec)))
  ELSE IF rec.op \in {"w_plain", "w_centre", "w_vector"} THEN
     LET es == ReadAll(KindOf(rec.op), fl, rec.nd, ParOf(rec)) IN
     IF Len(rec.obs) # Len(es) THEN "FramesInOrder" ELSE WhySeq(KindOf(rec.op), rec.obs, es, 1)
  ELSE IF rec.op = "additions" THEN
     (IF rec.obs = ReadAdditions(fl, rec.ncol) THEN "" ELSE "ColumnsById")
  ELSE IF rec.op \in {"gsd", "gsd_dcd"} THEN
     (IF rec.obs = GsdResult(rec.frames, rec.dcd, rec.nd, rec.op = "gsd_dcd") THEN "" ELSE "FramesConverted")
  ELSE IF rec.op = "log" THEN
     (IF LogAccepts(rec.lines, rec.obs) THEN "" ELSE "AllCompleteSectionsReturned")
  ELSE "UnknownOp"

Init == l = 1 /\ bad = "" /\ fl = << >> /\ cur = 0
Step ==
  /\ l <= Len(Tr) /\ bad = ""
  /\ LET rec == Tr[l] w == Why(rec) IN
     IF w # "" THEN l' = l /\ bad' = w /\ UNCHANGED <<fl, cur>>
     ELSE /\ l' = l + 1 /\ bad' = ""
          /\ IF rec.op = "open" THEN fl' = rec.lines /\ cur' = 0
             ELSE IF rec.op \in {"plain", "centre", "vector"}
                  THEN fl' = fl /\ cur' = ReadStep(rec.op, fl, cur, rec.nd, ParOf(rec)).cur
                  ELSE UNCHANGED <<fl, cur>>
Spec == Init /\ [][Step]_vars
Accepted == bad = ""
=============================================================================
