-------------------------- MODULE TraceCoarseGrain --------------------------
(***************************************************************************)
(* Trace validation for C16 (direction B, and the discrete part of         *)
(* direction A).  Records, in the order the calls happened:                *)
(*                                                                         *)
(*  [op |-> "sa_open", nmax, file]      spatial_average opened a neighbour *)
(*        file whose frames are file[f][k] = <<id, n1, n2, ..>>, the k-th  *)
(*        row as written (rows in any order; the id column decides)        *)
(*  [op |-> "sa_frame", prop, obs, oscale, exact]  frame of the same call: *)
(*        prop[i][c] integer property, obs[i][c] = oscale * the returned   *)
(*        average (an integer: the inputs are multiples of 840 and 1 + the *)
(*        delivered count divides 840, or oscale = 840 for 0/1 flags),     *)
(*        exact = 1 iff the scaled floats were integers to 1e-7.  The      *)
(*        cursor of the open handle is a variable of this spec, not a      *)
(*        field of the record.                                             *)
(*  [op |-> "grid", ng, bounds, M, obs, exact]  grid positions returned by *)
(*        gaussian_blurring for one frame, slot by slot, in units 1/M      *)
(*        of the (integer, scaled) bounds                                  *)
(*  [op |-> "blur", id, ng, bounds, S, H, ppp, pos, sig, cut]  one frame   *)
(*        of a gaussian_blurring call on scaled-integer inputs (unit 1/S); *)
(*        the expected slot values are printed as Real terms               *)
(*  [op |-> "window", T, ts, dt, period, prop, rows, centre, obs, oscale,  *)
(*        exact]  one time_average call (obs = oscale * returned means)    *)
(* A record is consumed iff Why(rec) = ""; otherwise bad names the clause. *)
(***************************************************************************)
EXTENDS CoarseGrain, TLC, Json, IOUtils

Tr == ndJsonDeserialize(IOEnv.TRACE_FILE)

VARIABLES l, bad, file, cursor
vars == <<l, bad, file, cursor>>

\* ---- spatial average -------------------------------------------------
MatchesFrame(rec, nb) ==
  LET e == SpatialAvgFrame(rec.prop, nb, rec.nmax) IN
  \A i \in 1..Len(rec.prop) : \A c \in 1..Len(rec.prop[i]) :
     e[i][c][1] * rec.oscale = rec.obs[i][c] * e[i][c][2]
\* a frame of rows is well formed: one row per particle, the id column a permutation of the ids,
\* listed ids are ids
RowsOk(rows) ==
  /\ CgIsPerm([k \in 1..Len(rows) |-> rows[k][1]], Len(rows))
  /\ \A k \in 1..Len(rows) : \A x \in 2..Len(rows[k]) : rows[k][x] \in 1..Len(rows)
WhyFrame(rec) ==
  IF cursor >= Len(file) THEN "NeighbourFrameCursor:file-exhausted"
  ELSE IF rec.exact # 1 THEN "SpatialMean"
  ELSE IF MatchesFrame(rec, file[cursor + 1]) THEN ""
  ELSE IF \E g \in 1..Len(file) : g # cursor + 1 /\ MatchesFrame(rec, file[g]) THEN "NeighbourFrameCursor"
  ELSE "SpatialMean"

\* ---- grid --------------------------------------------------------------
WhyGrid(rec) ==
  LET P   == NPoints(rec.ng)
      exp == [s \in 1..P |-> ScaledPoint(rec.ng, rec.bounds, Unflat(rec.ng, s - 1))]
  IN  IF rec.M # GridScale(rec.ng) \/ Len(rec.obs) # P THEN "GridShape"
      ELSE IF rec.exact # 1 THEN "EquallySpacedSpanningBounds"
      ELSE IF \A s \in 1..P : rec.obs[s] = exp[s] THEN ""
      ELSE IF {rec.obs[s] : s \in 1..P} # {exp[s] : s \in 1..P}
              \/ \E s, t \in 1..P : s # t /\ rec.obs[s] = rec.obs[t]
           THEN (IF {rec.obs[s] : s \in 1..P} \subseteq {exp[s] : s \in 1..P}
                 THEN "FlatIndexIsBijection" ELSE "EquallySpacedSpanningBounds")
      ELSE "XSlowest"

\* ---- blur: expected values as terms -------------------------------------
BlurExpect(rec) ==
  LET cutS == <<rec.cut[1] * rec.S, rec.cut[2]>> IN
  [s \in 1..NPoints(rec.ng) |->
     LET pt   == Unflat(rec.ng, s - 1)
         cl0  == Classify(rec.ng, rec.bounds, rec.H, rec.ppp, pt, rec.pos, cutS)
         cl   == [j \in 1..Len(cl0) |-> <<cl0[j][1], RDiv(cl0[j][2], <<rec.S * rec.S, 1>>)>>]
         ins  == SelectedIn(cl, {"in"})
         both == SelectedIn(cl, {"in", "edge"})
     IN  [amb |-> AmbiguousIn(cl), nin |-> Len(ins), nedge |-> Len(both) - Len(ins),
          lo  |-> BlurTermOf(cl, rec.sig, ins)]]

\* ---- window ----------------------------------------------------------------
WhyWindow(rec) ==
  LET w == WindowLen(rec.ts[2] - rec.ts[1], rec.dt, rec.period) IN
  IF rec.rows \notin RowsSet(rec.T, w) \/ Len(rec.obs) # rec.rows \/ Len(rec.centre) # rec.rows THEN "WindowLength"
  ELSE IF \E n \in 0..(rec.rows - 1) : rec.centre[n + 1] \notin CentreSet(n, w) THEN "WindowCentre"
  ELSE IF rec.exact # 1 THEN "WindowMean"
  ELSE IF \E n \in 0..(rec.rows - 1) : \E i \in 1..Len(rec.prop[1]) : \E c \in 1..Len(rec.prop[1][i]) :
            LET m == WindowMean(rec.prop, n, w, i, c) IN m[1] * rec.oscale # rec.obs[n + 1][i][c] * m[2]
       THEN "WindowMean"
  ELSE ""

Why(rec) ==
  CASE rec.op = "sa_open"  -> IF \A f \in 1..Len(rec.file) : RowsOk(rec.file[f]) THEN "" ELSE "WellFormed"
    [] rec.op = "sa_frame" -> WhyFrame(rec)
    [] rec.op = "grid"     -> WhyGrid(rec)
    [] rec.op = "blur"     -> ""
    [] rec.op = "window"   -> WhyWindow(rec)
    [] OTHER               -> "UnknownRecord"

Init == l = 1 /\ bad = "" /\ file = << >> /\ cursor = 0
Step ==
  /\ l <= Len(Tr) /\ bad = ""
  /\ LET rec == Tr[l]
         w   == Why(rec)
     IN  /\ IF w = "" THEN l' = l + 1 /\ bad' = "" ELSE l' = l /\ bad' = w
         /\ IF rec.op = "sa_open" /\ w = ""      \* the handle holds the lists filed under their ids
            THEN file' = [f \in 1..Len(rec.file) |-> CgOfRows(rec.file[f])] /\ cursor' = 0
            ELSE IF rec.op = "sa_frame" /\ w = "" THEN cursor' = cursor + 1 /\ UNCHANGED file
            ELSE UNCHANGED <<file, cursor>>
         /\ (rec.op = "blur" => PrintT(ToJson([rec |-> rec.id, exp |-> BlurExpect(rec)])))
Spec == Init /\ [][Step]_vars
Accepted == bad = ""
=============================================================================
