-------------------------- MODULE TraceCoarseGrain --------------------------
(***************************************************************************)
(* Trace validation for C16 (direction B, and the discrete part of         *)
(* direction A).  Records, in the order the calls happened:                *)
(*                                                                         *)
(*  [op |-> "sa_open", nmax, file]      spatial_average opened a neighbour *)
(*        file whose frames are file[f][k] = <<id, n1, n2, ..>>, the k-th  *)
(*        row as written (rows in any order; the id column decides)        *)
(*  [op |-> "sa_frame", prop, obs, oscale, exact]  frame of the same call: *)
(*        prop[i][c] integer property, obs[i][c] = oscale * the returned   *)
(*        average (an integer: the inputs are multiples of 840 and 1 + the *)
(*        delivered count divides 840, or oscale = 840 for 0/1 flags),     *)
(*        exact = 1 iff the scaled floats were integers to 1e-7.  The      *)
(*        cursor of the open handle is a variable of this spec, not a      *)
(*        field of the record.                                             *)
(*  [op |-> "blur_open", ng, bs]  a gaussian_blurring call with ng points   *)
(*        per axis on a trajectory whose frame f has the (integer, scaled) *)
(*        box bounds bs[f] - every frame its own                           *)
(*  [op |-> "grid", M, obs, exact]  the grid positions returned for the    *)
(*        NEXT frame of that call, slot by slot, in units 1/M of the       *)
(*        bounds.  Which frame that is, is a variable of this spec (the    *)
(*        frame cursor gcur), not a field of the record: the grid must be  *)
(*        the grid of the bounds of that frame and of no other             *)
(*  [op |-> "blur", id, S, H, ppp, pos, sig, cut]  the frame whose grid    *)
(*        was consumed last, on scaled-integer inputs (unit 1/S): its cell *)
(*        and particles; the expected slot values are printed as terms     *)
(*  [op |-> "window", T, ts, dt, period, prop, rows, centre, obs, oscale,  *)
(*        exact]  one time_average call (obs = oscale * returned means)    *)
(* A record is consumed iff Why(rec) = ""; otherwise bad names the clause. *)
(***************************************************************************)
EXTENDS CoarseGrain, TLC, Json, IOUtils

Tr == ndJsonDeserialize(IOEnv.TRACE_FILE)

VARIABLES l, bad, file, cursor, traj, gcur
vars == <<l, bad, file, cursor, traj, gcur>>

\* ---- spatial average -------------------------------------------------
MatchesFrame(rec, nb) ==
  LET e == SpatialAvgFrame(rec.prop, nb, rec.nmax) IN
  \A i \in 1..Len(rec.prop) : \A c \in 1..Len(rec.prop[i]) :
     e[i][c][1] * rec.oscale = rec.obs[i][c] * e[i][c][2]
\* a frame of rows is well formed: one row per particle, the id column a permutation of the ids,
\* listed ids are ids
RowsOk(rows) ==
  /\ CgIsPerm([k \in 1..Len(rows) |-> rows[k][1]], Len(rows))
  /\ \A k \in 1..Len(rows) : \A x \in 2..Len(rows[k]) : rows[k][x] \in 1..Len(rows)
WhyFrame(rec) ==
  IF cursor >= Len(file) THEN "NeighbourFrameCursor:file-exhausted"
  ELSE IF rec.exact # 1 THEN "SpatialMean"
  ELSE IF MatchesFrame(rec, file[cursor + 1]) THEN ""
  ELSE IF \E g \in 1..Len(file) : g # cursor + 1 /\ MatchesFrame(rec, file[g]) THEN "NeighbourFrameCursor"
  ELSE "SpatialMean"

\* ---- grid --------------------------------------------------------------
\* traj = [ng, bs] of the open call, gcur = frames of it whose grid has been consumed
GridOf(f)  == LET g == FrameGrid(traj.ng, traj.bs[f]) IN [s \in 1..NPoints(traj.ng) |-> g[s - 1]]
WhyGrid(rec) ==
  IF gcur >= Len(traj.bs) THEN "GridShape:more-frames-than-the-trajectory"
  ELSE
  LET P   == NPoints(traj.ng)
      exp == GridOf(gcur + 1)
  IN  IF rec.M # GridScale(traj.ng) \/ Len(rec.obs) # P THEN "GridShape"
      ELSE IF rec.exact # 1 THEN "EquallySpacedSpanningBounds"
      ELSE IF \A s \in 1..P : rec.obs[s] = exp[s] THEN ""
      \* the grid of the bounds of ANOTHER frame of the trajectory (kept from an earlier frame, or taken from a later one)
      ELSE IF \E g \in 1..Len(traj.bs) : g # gcur + 1 /\ rec.obs = GridOf(g) THEN "GridSpansFrameBounds:grid-of-another-frame"
      ELSE IF {rec.obs[s] : s \in 1..P} # {exp[s] : s \in 1..P}
              \/ \E s, t \in 1..P : s # t /\ rec.obs[s] = rec.obs[t]
           THEN (IF {rec.obs[s] : s \in 1..P} \subseteq {exp[s] : s \in 1..P}
                 THEN "FlatIndexIsBijection" ELSE "EquallySpacedSpanningBounds")
      ELSE "XSlowest"
WhyOpen(rec) ==
  IF Len(rec.ng) \in {2, 3} /\ Len(rec.bs) >= 1 /\ (\A f \in 1..Len(rec.bs) : Len(rec.bs[f]) = Len(rec.ng)) /\ (\A k \in 1..Len(rec.ng) : rec.ng[k] >= 1)
  THEN "" ELSE "WellFormed"

\* ---- blur: expected values as terms (grid of the bounds of the frame under the cursor, minimum image in ITS cell) ----
BlurExpect(rec) ==
  LET cutS == <<rec.cut[1] * rec.S, rec.cut[2]>>
      ng   == traj.ng
      bnd  == traj.bs[gcur]
  IN
  [s \in 1..NPoints(ng) |->
     LET pt   == Unflat(ng, s - 1)
         cl0  == Classify(ng, bnd, rec.H, rec.ppp, pt, rec.pos, cutS)
         cl   == [j \in 1..Len(cl0) |-> <<cl0[j][1], RDiv(cl0[j][2], <<rec.S * rec.S, 1>>)>>]
         ins  == SelectedIn(cl, {"in"})
         both == SelectedIn(cl, {"in", "edge"})
     IN  [amb |-> AmbiguousIn(cl), nin |-> Len(ins), nedge |-> Len(both) - Len(ins),
          lo  |-> BlurTermOf(cl, rec.sig, ins)]]

\* ---- window ----------------------------------------------------------------
WhyWindow(rec) ==
  LET w == WindowLen(rec.ts[2] - rec.ts[1], rec.dt, rec.period) IN
  IF rec.rows \notin RowsSet(rec.T, w) \/ Len(rec.obs) # rec.rows \/ Len(rec.centre) # rec.rows THEN "WindowLength"
  ELSE IF \E n \in 0..(rec.rows - 1) : rec.centre[n + 1] \notin CentreSet(n, w) THEN "WindowCentre"
  ELSE IF rec.exact # 1 THEN "WindowMean"
  ELSE IF \E n \in 0..(rec.rows - 1) : \E i \in 1..Len(rec.prop[1]) : \E c \in 1..Len(rec.prop[1][i]) :
            LET m == WindowMean(rec.prop, n, w, i, c) IN m[1] * rec.oscale # rec.obs[n + 1][i][c] * m[2]
       THEN "WindowMean"
  ELSE ""

Why(rec) ==
  CASE rec.op = "sa_open"  -> IF \A f \in 1..Len(rec.file) : RowsOk(rec.file[f]) THEN "" ELSE "WellFormed"
    [] rec.op = "sa_frame" -> WhyFrame(rec)
    [] rec.op = "blur_open" -> WhyOpen(rec)
    [] rec.op = "grid"     -> WhyGrid(rec)
    [] rec.op = "blur"     -> IF gcur >= 1 /\ Len(rec.H) = Len(traj.ng) THEN "" ELSE "WellFormed"
    [] rec.op = "window"   -> WhyWindow(rec)
    [] OTHER               -> "UnknownRecord"

Init == l = 1 /\ bad = "" /\ file = << >> /\ cursor = 0 /\ traj = [ng |-> << >>, bs |-> << >>] /\ gcur = 0
Step ==
  /\ l <= Len(Tr) /\ bad = ""
  /\ LET rec == Tr[l]
         w   == Why(rec)
     IN  /\ IF w = "" THEN l' = l + 1 /\ bad' = "" ELSE l' = l /\ bad' = w
         /\ IF rec.op = "sa_open" /\ w = ""      \* the handle holds the lists filed under their ids
            THEN file' = [f \in 1..Len(rec.file) |-> CgOfRows(rec.file[f])] /\ cursor' = 0
            ELSE IF rec.op = "sa_frame" /\ w = "" THEN cursor' = cursor + 1 /\ UNCHANGED file
            ELSE UNCHANGED <<file, cursor>>
         /\ IF rec.op = "blur_open" /\ w = ""    \* a new call: the frame cursor is on its first frame
            THEN traj' = [ng |-> rec.ng, bs |-> rec.bs] /\ gcur' = 0
            ELSE IF rec.op = "grid" /\ w = "" THEN gcur' = gcur + 1 /\ UNCHANGED traj
            ELSE UNCHANGED <<traj, gcur>>
         /\ ((rec.op = "blur" /\ w = "") => PrintT(ToJson([rec |-> rec.id, exp |-> BlurExpect(rec)])))
Spec == Init /\ [][Step]_vars
Accepted == bad = ""
=============================================================================
