--------------------------- MODULE MC_Relaxation ---------------------------
(***************************************************************************)
(* Model of property C06.  One behaviour per (case, variant): the loop of  *)
(* Dynamics.relaxation ("lin"), LogDynamics.relaxation ("log") or          *)
(* Dynamics.sq4 ("s4") runs to completion, one Acc action per iteration;   *)
(* the clauses are INVARIANT / PROPERTY lines; at termination one JSON     *)
(* case is printed for replay into the real routines.                      *)
(*                                                                         *)
(* Scope.  Part "fam": d in {2,3} x T in 2..5 x N in 2..3 x mode in        *)
(* {xu, x, both} x {slow, fast} x {no selection, per-frame masks} x        *)
(* {no neighbour file, per-frame lists} x NFam hashed members; the hash    *)
(* (seeded by SEED) picks the box (cubic 4/8/12, rectangular; triclinic    *)
(* with tilts of either sign for a third of the x-only cases), start       *)
(* positions, per-step integer displacements (three step alphabets), the   *)
(* types, diameters from {1, 2, 3/2}, cutoff factor {3/4, 5/8, 5/4}, the   *)
(* periodic mask, the masks, the lists (differing between frames for       *)
(* N = 3), max_neighbors, the wavenumber (multiples of pi/2 and generic    *)
(* rationals), timesteps, dt, and the S4 lag / time / wave-vector range.   *)
(* Part "exh": d = 2, N = 2, box 6x6, ALL per-step displacements in        *)
(* {-1,0,1,2}^2 for T = 2 (quick), in {-1,0,2}^2 for T = 3 (thorough).      *)
(***************************************************************************)
EXTENDS Relaxation, TLC, Json

CONSTANTS Tier, Part, SEED, SHARD, NSHARDS

VARIABLES c, aux, variant, st
vars == <<c, aux, variant, st>>

M1(x) == (x * 7919 + 10477) % 65521
Mix2(a, b) == M1((M1(a % 65521) + b) % 65521)
Mix4(a, b, cc, dd) == Mix2(Mix2(Mix2(a, b), cc), dd)

Modes == <<"xu", "x", "both">>
Cals  == <<"slow", "fast">>
Boxes2 == << <<4, 4>>, <<8, 8>>, <<12, 12>>, <<8, 4>>, <<6, 6>> >>
Boxes3 == << <<4, 4, 4>>, <<8, 8, 8>>, <<12, 12, 12>>, <<4, 8, 8>>, <<6, 6, 6>> >>
StepAlpha == << <<0 - 1, 0, 1, 2>>, <<0 - 1, 0, 0, 1>>, <<0, 0, 0, 1>> >>   \* mixed / small / nearly arrested
DiaPairs == << << <<1, 1>>, <<1, 1>> >>, << <<1, 1>>, <<2, 1>> >>, << <<2, 1>>, <<1, 1>> >>, << <<3, 2>>, <<1, 1>> >> >>
Afacs == << <<3, 4>>, <<5, 8>>, <<5, 4>> >>
Qs == << [pi |-> 1, n |-> 2, d |-> 1],     \* the default 2 pi
         [pi |-> 1, n |-> 1, d |-> 1], [pi |-> 1, n |-> 1, d |-> 2], [pi |-> 1, n |-> 3, d |-> 1],
         [pi |-> 0, n |-> 7, d |-> 2], [pi |-> 0, n |-> 13, d |-> 5], [pi |-> 1, n |-> 3, d |-> 2] >>
LinTs == << <<0, 1>>, <<100, 5>>, <<7, 1000>> >>                  \* <<first, interval>>
LogTs == << <<0, 1, 2, 4, 8>>, <<10, 20, 40, 80, 160>>, <<0, 1, 3, 4, 5>>, <<5, 6, 8, 10, 12>> >>
Dts == << <<1, 500>>, <<1, 4>>, <<3, 1>> >>

Pick(seq, h) == seq[1 + (h % Len(seq))]

\* neighbour lists: every particle lists one or all of the others; the choice is hashed per frame
NbList(N, i, h) ==
  LET others == SelectSeq([j \in 1..N |-> j], LAMBDA j : j # i) IN
  IF N = 2 THEN others
  ELSE LET m == h % 4 IN
       IF m = 0 THEN <<others[1]>> ELSE IF m = 1 THEN <<others[2]>>
       ELSE IF m = 2 THEN others ELSE <<others[2], others[1]>>

MkCase(d, T, N, mi, ci, hc, hn, fam) ==
  LET h0   == Mix4(fam + 131 * SEED, 16 * d + T, 4 * N + mi, 4 * ci + 2 * hc + hn)
      hh(j) == Mix2(h0, j)
      box  == IF d = 2 THEN Pick(Boxes2, hh(1)) ELSE Pick(Boxes3, hh(1))
      alpha == Pick(StepAlpha, hh(2))
      ppp0 == [k \in 1..d |-> (hh(10 + k) % 4) \div 3]                  \* mostly 0 ...
      ppp1 == [k \in 1..d |-> IF hh(10 + k) % 4 = 0 THEN 0 ELSE 1]    \* mostly 1
      pppx == IF \E k \in 1..d : ppp1[k] = 1 THEN ppp1 ELSE [k \in 1..d |-> 1]
      ppp  == IF Modes[mi] = "x" THEN pppx ELSE IF hh(3) % 2 = 0 THEN ppp0 ELSE ppp1
      pos0 == [i \in 1..N |-> [k \in 1..d |-> Mix4(h0, 20, i, k) % box[k]]]
      step == [f \in 1..T |-> [i \in 1..N |-> [k \in 1..d |-> alpha[1 + (Mix4(h0, 30 + f, i, k) % 4)]]]]
      XU[f \in 1..T] == IF f = 1 THEN pos0 ELSE [i \in 1..N |-> VAdd(XU[f - 1][i], step[f][i])]
      xu   == [f \in 1..T |-> XU[f]]
      \* triclinic cells (tilts of either sign) for a third of the x-only cases
      tri  == Modes[mi] = "x" /\ hh(26) % 3 = 0
      tl(j) == Pick(<<0 - 3, 2, 0 - 1, 1>>, hh(26 + j))
      H    == IF ~tri THEN Diag(box)
              ELSE IF d = 2 THEN << <<box[1], 0>>, <<tl(1), box[2]>> >>
              ELSE << <<box[1], 0, 0>>, <<tl(1), box[2], 0>>, <<tl(2), tl(3), box[3]>> >>
      wrapmask == IF Modes[mi] = "both" THEN [k \in 1..d |-> 1] ELSE ppp
      x    == [f \in 1..T |-> [i \in 1..N |-> WrapInto(H, xu[f][i], wrapmask)]]
      lt   == Pick(LinTs, hh(4))
  IN  << [ d |-> d, T |-> T, N |-> N, S |-> 1, H |-> H, ppp |-> ppp,
           ts |-> [f \in 1..T |-> lt[1] + (f - 1) * lt[2]],
           types |-> [i \in 1..N |-> 1 + (hh(40 + i) % 2)],
           dia |-> Pick(DiaPairs, hh(5)), a |-> Pick(Afacs, hh(6)),
           cal |-> Cals[ci], mode |-> Modes[mi], xu |-> xu, x |-> x,
           hasCond |-> hc,
           cond |-> [f \in 1..T |-> [i \in 1..N |->
                      IF hc = 0 \/ i = 1 + ((f + hh(7)) % N) THEN 1 ELSE Mix4(h0, 50, f, i) % 2]],
           hasNb |-> hn,
           nb |-> [f \in 1..T |-> [i \in 1..N |-> NbList(N, i, Mix4(h0, 60, f, i))]],
           nmax |-> IF hh(8) % 5 = 0 THEN 1 ELSE 30,
           q |-> Pick(Qs, hh(9)) ],
         [ tslog |-> SubSeq(Pick(LogTs, hh(20)), 1, T), dt |-> Pick(Dts, hh(21)),
           nt |-> IF hh(22) % 7 = 0 THEN 0 ELSE 1 + (hh(23) % (T - 1)),
           toff |-> Pick(<<0 - 3, 0, 4>>, hh(24)),
           numofq |-> IF d = 3 THEN Pick(<<2, 2, 4>>, hh(25)) ELSE Pick(<<2, 4, 6>>, hh(25)),
           fam |-> fam, h |-> h0 ] >>

NFam == IF Tier = "quick" THEN 2 ELSE 12
FamInputs ==
  { MkCase(d, T, N, mi, ci, hc, hn, fam) :
      d \in {2, 3}, T \in 2..5, N \in 2..3, mi \in 1..3, ci \in 1..2, hc \in {0, 1}, hn \in {0, 1}, fam \in 1..NFam }

\* exhaustive sub-scope: two particles in a 6 x 6 box, every step sequence
ExhT == IF Tier = "quick" THEN 2 ELSE 3
ExhCase(steps, mi, ci, T) ==
  LET pos0 == << <<1, 4>>, <<5, 0>> >>
      XU[f \in 1..T] == IF f = 1 THEN pos0 ELSE [i \in 1..2 |-> VAdd(XU[f - 1][i], steps[f - 1][i])]
      xu == [f \in 1..T |-> XU[f]]
  IN  << [ d |-> 2, T |-> T, N |-> 2, S |-> 1, H |-> Diag(<<6, 6>>), ppp |-> <<1, 1>>,
           ts |-> [f \in 1..T |-> 10 * f], types |-> <<1, 2>>,
           dia |-> << <<1, 1>>, <<2, 1>> >>, a |-> <<3, 4>>, cal |-> Cals[ci], mode |-> Modes[mi],
           xu |-> xu, x |-> [f \in 1..T |-> [i \in 1..2 |-> [k \in 1..2 |-> xu[f][i][k] % 6]]],
           hasCond |-> 0, cond |-> [f \in 1..T |-> <<1, 1>>],
           hasNb |-> 0, nb |-> [f \in 1..T |-> << <<2>>, <<1>> >>], nmax |-> 30,
           q |-> [pi |-> 1, n |-> 1, d |-> 1] ],
         [ tslog |-> SubSeq(<<0, 1, 3>>, 1, T), dt |-> <<1, 4>>, nt |-> 1, toff |-> 0, numofq |-> 2,
           fam |-> 0, h |-> SumSeq([f \in 1..(T - 1) |-> SumSeq([i \in 1..2 |->
                               7 * (steps[f][i][1] + 2) + 3 * f * (steps[f][i][2] + 2) + i])]) ] >>
ExhSteps == IF Tier = "quick" THEN {0 - 1, 0, 1, 2} ELSE {0 - 1, 0, 2}
ExhInputs ==
  { ExhCase(steps, mi, ci, ExhT) :
      steps \in [1..(ExhT - 1) -> [1..2 -> [1..2 -> ExhSteps]]],
      mi \in (IF Tier = "quick" THEN 1..3 ELSE 1..2), ci \in 1..2 }

Inputs == IF Part = "fam" THEN FamInputs ELSE ExhInputs

Init == /\ \E inp \in Inputs : /\ inp[2].h % NSHARDS = SHARD
                               /\ c = inp[1] /\ aux = inp[2]
        /\ variant \in {"lin", "log", "s4"}
        /\ variant = "s4" => aux.nt < c.T /\ IsDiagonal(c.H)      \* the S(q) routine assumes an orthogonal box
        /\ st = StInit(c, variant, aux.nt)
Acc == /\ ~st.done
       /\ st' = StAcc(c, variant, st, variant # "s4")
       /\ UNCHANGED <<c, aux, variant>>
Next == Acc
Spec == Init /\ [][Next]_vars

\* ---- clauses of C06 on the model ----
InvCounts   == CountsPerLag(c, variant, aux.nt, st)
InvPairs    == PairsAreDefinition(c, variant, aux.nt, st)
InvAlgDef   == AlgorithmEqualsDefinition(c, variant, st)
InvChi4     == Chi4NonNegative(c, variant, st)
InvLog      == LogIsOriginZeroRestriction(c, variant, st)
\* input-only clauses: evaluated once per case (in the initial state of the "lin" behaviour)
AtStart     == variant = "lin" /\ st.n = 1 /\ st.nn = 1 /\ ~st.done /\ st.counts[2] = 0
InvWrapped  == AtStart => WrappedEqualsUnwrapped(c)
InvBoth     == AtStart => BothIsXu(c)
InvSlowFast == AtStart => SlowFastPartition(c)
InvIsf      == AtStart => IsfBounded(c)
InvMinImage == AtStart => DiagImageIsMinImage(c)
InvWellFormed == AtStart => /\ \A f \in 1..c.T : \A i \in 1..c.N : \A k \in 1..c.d :
                                  FracNum(c.H, VSub(c.x[f][i], c.xu[f][i]))[k] % FracDen(c.H) = 0
                            /\ c.mode = "x" => \A f \in 1..c.T : \A i \in 1..c.N : \A k \in 1..c.d :
                                  LET fn == FracNum(c.H, c.x[f][i])[k] IN
                                  IF c.ppp[k] = 1 THEN 0 <= fn /\ fn < FracDen(c.H)
                                  ELSE fn = FracNum(c.H, c.xu[f][i])[k]
                            /\ \A f \in 1..c.T : \E i \in 1..c.N : c.cond[f][i] = 1
                            /\ \A f \in 1..c.T : \A i \in 1..c.N : Len(c.nb[f][i]) >= 1 /\ i \notin Range(c.nb[f][i])
EveryOriginLagPairOnce == [][NoPairTwice(st')]_vars

\* ---- emission ----
TNum == 10 * aux.nt + aux.toff                    \* t = TNum / 10 * t_1; its nearest integer is nt
Case ==
  [ m |-> "Relaxation", variant |-> variant, c |-> c, dt |-> aux.dt,
    tsq |-> IF variant = "log" THEN aux.tslog ELSE c.ts,
    counts |-> st.counts,
    rows |-> IF variant = "s4" THEN << >>
             ELSE [k \in 1..(c.T - 1) |->
                     RowT(c, variant, k, IF variant = "log" THEN aux.tslog ELSE c.ts, aux.dt)],
    rowsX |-> IF variant = "s4" THEN << >> ELSE [k \in 1..(c.T - 1) |-> AlgRowX(st, k)],
    smallDisp |-> WrapRelApplies(c),
    s4 |-> IF variant = "s4" THEN S4Exp(c, aux.nt, aux.numofq) ELSE << >>,
    tnum |-> IF TNum < 0 THEN 0 ELSE TNum,
    tround |-> NearestSet(IF TNum < 0 THEN 0 ELSE TNum, 10) ]
Emit == st.done => PrintT(ToJson(Case))
=============================================================================
