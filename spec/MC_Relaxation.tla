--------------------------- MODULE MC_Relaxation ---------------------------
(***************************************************************************)
(* Model of property C06.  One behaviour per (case, variant): the loop of  *)
(* Dynamics.relaxation ("lin"), LogDynamics.relaxation ("log") or          *)
(* Dynamics.sq4 ("s4") runs to completion, one Acc action per iteration;   *)
(* the clauses are INVARIANT / PROPERTY lines; at termination one JSON     *)
(* case is printed for replay into the real routines.                      *)
(*                                                                         *)
(* Scope.  Part "fam": d in {2,3} x T in 2..5 x N in 2..3 x mode in        *)
(* {xu, x, both} x {slow, fast} x {no selection, per-frame masks} x        *)
(* {no neighbour file, per-frame lists} x NFam hashed members; the hash    *)
(* (seeded by SEED) picks the box (cubic 4/8/12, rectangular; triclinic    *)
(* with tilts of either sign for a third of the x-only cases), start       *)
(* positions, per-step integer displacements (three step alphabets), the   *)
(* types, diameters from {1, 2, 3/2}, cutoff factor {3/4, 5/8, 5/4}, the   *)
(* periodic mask, the masks, the lists (differing between frames for       *)
(* N = 3), max_neighbors, the wavenumber (multiples of pi/2 and generic    *)
(* rationals), timesteps, dt, and the S4 lag / time / wave-vector range.   *)
(* Part "exh": d = 2, N = 2, box 6x6, ALL per-step displacements in        *)
(* {-1,0,1,2}^2 for T = 2 (quick), in {-1,0,2}^2 for T = 3 (thorough).      *)
(* Part "ext" (scope audit, three kinds of inputs):                        *)
(*  "tri"  only wrapped coordinates in a constant TRICLINIC cell, d = 2, 3,*)
(*         EVERY non-zero periodic mask, tilts of both signs, odd cell     *)
(*         edges (the fractional denominator is odd: no half-cell tie can  *)
(*         occur) and steps from -4..4, so that fractional displacements   *)
(*         close to +1/2 and to -1/2 occur (NearHalf counts them);         *)
(*  "sess" call histories: five or six calls (relaxation with two          *)
(*         wavenumbers, without / with two different selections, sq4 in    *)
(*         between, on a slow and a fast object built from the same        *)
(*         trajectory) in several orders - one DoCall action per call,     *)
(*         clause InvSession: the result of every call equals DefCall,     *)
(*         which does not see the history;                                 *)
(*  "long" long trajectories (T = 40..70 through the loop machine,         *)
(*         T = 260 with the direct operator RowsAt at selected lags) and   *)
(*         many particles (N = 150, 300 with T = 2, 3); confined walks     *)
(*         keep every integer below 2^31.                                  *)
(* Every case also carries a hashed RENDERING (aux.render): insertion      *)
(* order of the diameters map (ascending / descending / rotated), absent   *)
(* species listed or dropped, integer-valued diameters as int, the mask    *)
(* array flavour (bool / int8 / int64 / strided / Fortran order), dt as    *)
(* int, an offset of the timestep labels in units of 10^9.  The rendering  *)
(* is not an argument of any expectation.                                  *)
(***************************************************************************)
EXTENDS Relaxation, TLC, Json

CONSTANTS Tier, Part, SEED, SHARD, NSHARDS

VARIABLES c, aux, variant, st, ses
vars == <<c, aux, variant, st, ses>>

M1(x) == (x * 7919 + 10477) % 65521
Mix2(a, b) == M1((M1(a % 65521) + b) % 65521)
Mix4(a, b, cc, dd) == Mix2(Mix2(Mix2(a, b), cc), dd)

Modes == <<"xu", "x", "both">>
Cals  == <<"slow", "fast">>
Boxes2 == << <<4, 4>>, <<8, 8>>, <<12, 12>>, <<8, 4>>, <<6, 6>> >>
Boxes3 == << <<4, 4, 4>>, <<8, 8, 8>>, <<12, 12, 12>>, <<4, 8, 8>>, <<6, 6, 6>> >>
StepAlpha == << <<0 - 1, 0, 1, 2>>, <<0 - 1, 0, 0, 1>>, <<0, 0, 0, 1>> >>   \* mixed / small / nearly arrested
\* diameters of species 1, 2, 3 (a species may be absent from the trajectory: Palettes)
DiaTriples == << << <<1, 1>>, <<1, 1>>, <<1, 1>> >>, << <<1, 1>>, <<2, 1>>, <<3, 2>> >>, << <<2, 1>>, <<1, 1>>, <<1, 2>> >>,
                 << <<3, 2>>, <<1, 1>>, <<2, 1>> >>, << <<1, 1>>, <<3, 2>>, <<2, 1>> >> >>
Palettes == << <<1, 2>>, <<1, 2>>, <<1, 3>>, <<2, 3>>, <<1, 2, 3>>, <<3>>, <<2, 1>> >>
Boxes2T == << <<7, 9>>, <<9, 7>>, <<5, 7>>, <<9, 9>> >>             \* odd edges: Det odd, no half-cell tie
Boxes3T == << <<5, 7, 9>>, <<7, 5, 5>>, <<9, 7, 5>>, <<7, 7, 7>> >>
WideAlpha == << 0 - 4, 0 - 3, 0 - 2, 0 - 1, 0, 1, 2, 3, 4 >>
MaskKinds == << "bool", "int8", "bool", "int64", "strided", "fortran" >>
Afacs == << <<3, 4>>, <<5, 8>>, <<5, 4>> >>
Qs == << [pi |-> 1, n |-> 2, d |-> 1],     \* the default 2 pi
         [pi |-> 1, n |-> 1, d |-> 1], [pi |-> 1, n |-> 1, d |-> 2], [pi |-> 1, n |-> 3, d |-> 1],
         [pi |-> 0, n |-> 7, d |-> 2], [pi |-> 0, n |-> 13, d |-> 5], [pi |-> 1, n |-> 3, d |-> 2],
         [pi |-> 0, n |-> 3, d |-> 1] >>     \* an integer (rendered as a Python int)
LinTs == << <<0, 1>>, <<100, 5>>, <<7, 1000>> >>                  \* <<first, interval>>
LogTs == << <<0, 1, 2, 4, 8>>, <<10, 20, 40, 80, 160>>, <<0, 1, 3, 4, 5>>, <<5, 6, 8, 10, 12>> >>
Dts == << <<1, 500>>, <<1, 4>>, <<3, 1>>, <<1, 1>>, <<3, 10>>, <<7, 10>>, <<9, 1000>>, <<3, 10000>> >>   \* dyadic, integer and decimal time steps

Pick(seq, h) == seq[1 + (h % Len(seq))]

\* neighbour lists: every particle lists one or all of the others (N <= 3) or 1..3 of the others (N >= 4; the
\* largest coordination number of a frame, 1 + hf % 3, differs between frames: the arrays read from the
\* neighbour file have a different width per frame); the choice is hashed per frame and particle
NbList(N, i, h, hf) ==
  LET others == SelectSeq([j \in 1..N |-> j], LAMBDA j : j # i) IN
  IF N = 2 THEN others
  ELSE IF N = 3 THEN
       LET m == h % 4 IN
       IF m = 0 THEN <<others[1]>> ELSE IF m = 1 THEN <<others[2]>>
       ELSE IF m = 2 THEN others ELSE <<others[2], others[1]>>
  ELSE LET cmax == 1 + (hf % 3)
           cn   == IF i = 1 + ((hf \div 3) % N) THEN cmax ELSE 1 + (h % cmax)
           s    == (h \div 4) % (N - cn)
           lst  == [j \in 1..cn |-> 1 + ((i - 1 + s + j) % N)]
       IN  IF (h \div 64) % 2 = 1 THEN [j \in 1..cn |-> lst[cn + 1 - j]] ELSE lst

\* kind: "fam" | "tri" | "sess" | "long";  pmask: the periodic mask of a "tri" case (<< >> = hashed)
MkCase(d, T, N, mi, ci, hc, hn, fam, kind, pmask) ==
  LET h0   == Mix4(fam + 131 * SEED + (IF kind = "fam" THEN 0 ELSE 977 + Len(kind) + 16 * Len(pmask) + SumSeq([k \in 1..Len(pmask) |-> pmask[k] * k * k])),
                   16 * d + T, 4 * N + mi, 4 * ci + 2 * hc + hn)
      hh(j) == Mix2(h0, j)
      box  == IF kind = "tri" THEN (IF d = 2 THEN Pick(Boxes2T, hh(1)) ELSE Pick(Boxes3T, hh(1)))
              ELSE IF d = 2 THEN Pick(Boxes2, hh(1)) ELSE Pick(Boxes3, hh(1))
      alpha == IF kind = "tri" THEN WideAlpha
               ELSE IF kind = "long" THEN Pick(<<StepAlpha[1], StepAlpha[2]>>, hh(2)) ELSE Pick(StepAlpha, hh(2))
      ppp0 == [k \in 1..d |-> (hh(10 + k) % 4) \div 3]                  \* mostly 0 ...
      ppp1 == [k \in 1..d |-> IF hh(10 + k) % 4 = 0 THEN 0 ELSE 1]    \* mostly 1
      pppx == IF \E k \in 1..d : ppp1[k] = 1 THEN ppp1 ELSE [k \in 1..d |-> 1]
      ppp  == IF pmask # << >> THEN pmask
              ELSE IF Modes[mi] = "x" THEN pppx ELSE IF hh(3) % 2 = 0 THEN ppp0 ELSE ppp1
      pos0 == [i \in 1..N |-> [k \in 1..d |-> Mix4(h0, 20, i, k) % box[k]]]
      step(f, i, k) == alpha[1 + (Mix4(h0, 1000 + f, i, k) % Len(alpha))]
      \* "long": a confined walk (a step that would leave |x - x0| <= 30 is reflected), so that squared
      \* displacements times the squared denominators of a and the diameters stay below 2^31
      XU[f \in 1..T] == IF f = 1 THEN pos0
                        ELSE LET prev == XU[f - 1] IN
                             [i \in 1..N |-> [k \in 1..d |->
                                LET p  == prev[i][k]             \* evaluated once per level (the application is not cached)
                                    nx == p + step(f, i, k)
                                IN  IF kind = "long" /\ Abs(nx - pos0[i][k]) > 30 THEN p - step(f, i, k) ELSE nx]]
      xu   == Force([f \in 1..T |-> Force([i \in 1..N |-> Force(XU[f][i], d)], N)], T)
      \* triclinic cells (tilts of either sign): always for "tri", else for a third of the x-only cases
      tri  == kind = "tri" \/ (Modes[mi] = "x" /\ hh(26) % 3 = 0)
      tl(j) == IF kind = "tri" THEN Pick(<<0 - 3, 2, 0 - 1, 1, 3, 0 - 2>>, hh(26 + j)) ELSE Pick(<<0 - 3, 2, 0 - 1, 1>>, hh(26 + j))
      H    == IF ~tri THEN Diag(box)
              ELSE IF d = 2 THEN << <<box[1], 0>>, <<tl(1), box[2]>> >>
              ELSE << <<box[1], 0, 0>>, <<tl(1), box[2], 0>>, <<tl(2), tl(3), box[3]>> >>
      wrapmask == IF Modes[mi] = "both" THEN [k \in 1..d |-> 1] ELSE ppp
      x    == [f \in 1..T |-> [i \in 1..N |-> WrapInto(H, xu[f][i], wrapmask)]]
      lt   == Pick(LinTs, hh(4))
      pal  == Pick(Palettes, hh(41))
      nt0  == IF hh(22) % 7 = 0 THEN 0 ELSE 1 + (hh(23) % (T - 1))
  IN  << [ d |-> d, T |-> T, N |-> N, S |-> 1, H |-> H, ppp |-> ppp,
           ts |-> [f \in 1..T |-> lt[1] + (f - 1) * lt[2]],
           types |-> [i \in 1..N |-> pal[1 + (Mix4(h0, 40, i, 0) % Len(pal))]],
           dia |-> Pick(DiaTriples, hh(5)), a |-> Pick(Afacs, hh(6)),
           cal |-> Cals[ci], mode |-> Modes[mi], xu |-> xu, x |-> x,
           hasCond |-> hc,
           cond |-> [f \in 1..T |-> [i \in 1..N |->
                      IF hc = 0 \/ i = 1 + ((f + hh(7)) % N) THEN 1 ELSE Mix4(h0, 50, f, i) % 2]],
           hasNb |-> hn,
           nb |-> [f \in 1..T |-> [i \in 1..N |-> NbList(N, i, Mix4(h0, 60, f, i), Mix2(h0, 2000 + f))]],
           nmax |-> IF hh(8) % 5 = 0 THEN 1 ELSE 30,
           q |-> Pick(Qs, hh(9)) ],
         [ tslog |-> IF T <= 5 THEN SubSeq(Pick(LogTs, hh(20)), 1, T)
                     ELSE [f \in 1..T |-> (f - 1) * (f + 2 + (hh(20) % 3))],          \* widening intervals
           dt |-> Pick(Dts, hh(21)),
           nt |-> IF kind = "long" /\ T > 8 THEN 1 + (hh(23) % 9) ELSE nt0,
           toff |-> Pick(<<0 - 3, 0, 4>>, hh(24)),
           numofq |-> IF d = 3 THEN Pick(<<2, 2, 4>>, hh(25)) ELSE Pick(<<2, 4, 6>>, hh(25)),
           kind |-> kind, variants |-> {"lin", "log", "s4"}, direct |-> FALSE,
           order |-> hh(90), qbi |-> hh(9) + 1 + (hh(91) % (Len(Qs) - 1)),
           render |-> [ diaOrder |-> Pick(<<"asc", "desc", "rot">>, hh(80)), diaDrop |-> hh(81) % 2,
                        diaInt |-> hh(82) % 2, mask |-> Pick(MaskKinds, hh(83)), dtInt |-> hh(84) % 2,
                        tsoff |-> Pick(<<0, 0, 3, 40>>, hh(85)) ],
           fam |-> fam, h |-> h0 ] >>

NFam == IF Tier = "quick" THEN 2 ELSE 12
FamInputs ==
  { MkCase(d, T, N, mi, ci, hc, hn, fam, "fam", << >>) :
      d \in {2, 3}, T \in 2..5, N \in 2..3, mi \in 1..3, ci \in 1..2, hc \in {0, 1}, hn \in {0, 1}, fam \in 1..NFam }

\* exhaustive sub-scope: two particles in a 6 x 6 box, every step sequence
ExhT == IF Tier = "quick" THEN 2 ELSE 3
PlainRender == [diaOrder |-> "asc", diaDrop |-> 1, diaInt |-> 0, mask |-> "bool", dtInt |-> 0, tsoff |-> 0]
ExhCase(steps, mi, ci, T) ==
  LET pos0 == << <<1, 4>>, <<5, 0>> >>
      XU[f \in 1..T] == IF f = 1 THEN pos0 ELSE [i \in 1..2 |-> VAdd(XU[f - 1][i], steps[f - 1][i])]
      xu == [f \in 1..T |-> XU[f]]
  IN  << [ d |-> 2, T |-> T, N |-> 2, S |-> 1, H |-> Diag(<<6, 6>>), ppp |-> <<1, 1>>,
           ts |-> [f \in 1..T |-> 10 * f], types |-> <<1, 2>>,
           dia |-> << <<1, 1>>, <<2, 1>> >>, a |-> <<3, 4>>, cal |-> Cals[ci], mode |-> Modes[mi],
           xu |-> xu, x |-> [f \in 1..T |-> [i \in 1..2 |-> [k \in 1..2 |-> xu[f][i][k] % 6]]],
           hasCond |-> 0, cond |-> [f \in 1..T |-> <<1, 1>>],
           hasNb |-> 0, nb |-> [f \in 1..T |-> << <<2>>, <<1>> >>], nmax |-> 30,
           q |-> [pi |-> 1, n |-> 1, d |-> 1] ],
         [ tslog |-> SubSeq(<<0, 1, 3>>, 1, T), dt |-> <<1, 4>>, nt |-> 1, toff |-> 0, numofq |-> 2,
           kind |-> "exh", variants |-> {"lin", "log", "s4"}, direct |-> FALSE, order |-> 0, qbi |-> 1,
           render |-> PlainRender,
           fam |-> 0, h |-> SumSeq([f \in 1..(T - 1) |-> SumSeq([i \in 1..2 |->
                               7 * (steps[f][i][1] + 2) + 3 * f * (steps[f][i][2] + 2) + i])]) ] >>
ExhSteps == IF Tier = "quick" THEN {0 - 1, 0, 1, 2} ELSE {0 - 1, 0, 2}
ExhInputs ==
  { ExhCase(steps, mi, ci, ExhT) :
      steps \in [1..(ExhT - 1) -> [1..2 -> [1..2 -> ExhSteps]]],
      mi \in (IF Tier = "quick" THEN 1..3 ELSE 1..2), ci \in 1..2 }

\* ---- Part "ext" ----
WithVariants(inp, vs, direct) == << inp[1], [inp[2] EXCEPT !.variants = vs, !.direct = direct] >>
NExt == IF Tier = "quick" THEN 1 ELSE 6
\* constant triclinic cells, only wrapped coordinates, every non-zero periodic mask
TriInputs ==
  { WithVariants(MkCase(Len(pm), T, N, 2, ci, (fam + T + N + ci) % 2, hn, fam, "tri", pm), {"lin", "log"}, FALSE) :
      pm \in {m \in ([1..2 -> {0, 1}] \cup [1..3 -> {0, 1}]) : \E k \in DOMAIN m : m[k] = 1},
      T \in {2, 4}, N \in 2..3, ci \in 1..2, hn \in {0, 1}, fam \in 1..NExt }
\* call histories on one object (Dynamics: variant "lin", with sq4 calls; LogDynamics: "log")
SessInputs ==
  { WithVariants(MkCase(d, T, N, mi, ci, 1, hn, fam, "sess", << >>), {"lin", "log"}, FALSE) :
      d \in {2, 3}, T \in 3..4, N \in 3..4, mi \in 1..3, ci \in 1..2, hn \in {0, 1}, fam \in 1..NExt }
\* long trajectories / many particles
LongSpecs ==
  << [d |-> 2, T |-> 48,  N |-> 2,   vs |-> {"lin"},              direct |-> FALSE],
     [d |-> 3, T |-> 40,  N |-> 3,   vs |-> {"lin", "log"},       direct |-> FALSE],
     [d |-> 2, T |-> 70,  N |-> 10,  vs |-> {"log", "s4"},        direct |-> FALSE],
     [d |-> 2, T |-> 260, N |-> 2,   vs |-> {"lin", "log"},       direct |-> TRUE],
     [d |-> 2, T |-> 3,   N |-> 300, vs |-> {"lin", "log", "s4"}, direct |-> FALSE],
     [d |-> 3, T |-> 2,   N |-> 150, vs |-> {"lin", "s4"},        direct |-> FALSE],
     \* beyond 4096 particles, cage-relative (neighbour lists of the origin frame): block-wise processing of the particles
     [d |-> 2, T |-> 2,   N |-> 4500, vs |-> {"lin", "log"},      direct |-> FALSE] >>
  \o (IF Tier = "quick" THEN << >>
      ELSE << [d |-> 3, T |-> 264, N |-> 3,   vs |-> {"lin", "log"}, direct |-> TRUE],
              [d |-> 2, T |-> 64,  N |-> 5,   vs |-> {"lin", "s4"},  direct |-> FALSE],
              [d |-> 3, T |-> 4,   N |-> 260, vs |-> {"lin", "log", "s4"}, direct |-> FALSE] >>)
LongInputs ==
  { (LET sp == LongSpecs[j]  z == j + SEED + fam IN
     WithVariants(MkCase(sp.d, sp.T, sp.N, 1 + (z % 3), 1 + ((z \div 3) % 2), z % 2, IF sp.N >= 4000 THEN 1 ELSE (z \div 2) % 2, fam, "long", << >>),
                  sp.vs, sp.direct)) :
      j \in 1..Len(LongSpecs), fam \in 1..(IF Tier = "quick" THEN 1 ELSE 3) }
ExtInputs == TriInputs \cup SessInputs \cup LongInputs

Inputs == IF Part = "fam" THEN FamInputs ELSE IF Part = "exh" THEN ExhInputs
          ELSE IF Part = "tri" THEN TriInputs ELSE IF Part = "sess" THEN SessInputs
          ELSE IF Part = "long" THEN LongInputs ELSE ExtInputs

\* ---- call histories ----
Tsq == IF variant = "log" THEN aux.tslog ELSE c.ts
CallAlpha ==
  LET qa == c.q
      qb == Pick(Qs, aux.qbi)
      mk(kind, obj, q, uc) == [kind |-> kind, obj |-> obj, q |-> q, useCond |-> uc,
                               nt |-> aux.nt, numofq |-> aux.numofq, toff |-> aux.toff]
  IN  << mk("relax", 1, qa, 0), mk("relax", 1, qb, 1), mk("s4", 1, qa, 1), mk("relax", 2, qa, 2),
         mk("s4", 2, qa, 0), mk("relax", 2, qb, 0), mk("relax", 1, qa, 2), mk("s4", 1, qa, 0), mk("relax", 1, qb, 0) >>
\* every order repeats an earlier call after calls that differ from it in the wavenumber only (1/9, 2/7'), in the
\* selection only (1/7, 2/9), in the routine (3, 5, 8) or in the object (4, 6)
Orders == << <<1, 2, 1, 3, 1>>, <<2, 1, 3, 2, 4, 2>>, <<1, 3, 7, 8, 1>>, <<4, 1, 5, 2, 4>>,
             <<3, 1, 8, 6, 1, 3>>, <<2, 7, 2, 6, 5, 2>>, <<1, 4, 1, 4, 2, 1>>, <<1, 9, 1, 2, 9>>, <<9, 2, 3, 9, 1>> >>
SesCalls ==
  IF aux.kind # "sess" THEN << >>
  ELSE LET ord == Pick(Orders, aux.order)
           all == [j \in 1..Len(ord) |-> CallAlpha[ord[j]]]
       IN  SelectSeq(all, LAMBDA cl : cl.kind = "relax" \/ (variant = "lin" /\ IsDiagonal(c.H) /\ aux.nt < c.T))
SesInit == [i |-> 1, objs |-> <<ObjInit, ObjInit>>, results |-> << >>]

Exact == aux.kind \in {"fam", "exh", "tri"}
Init == /\ \E inp \in Inputs : /\ inp[2].h % NSHARDS = SHARD
                               /\ c = inp[1] /\ aux = inp[2]
        /\ variant \in aux.variants
        /\ variant = "s4" => aux.nt < c.T /\ IsDiagonal(c.H)      \* the S(q) routine assumes an orthogonal box
        /\ st = IF aux.direct THEN [StInit(c, variant, aux.nt) EXCEPT !.done = TRUE] ELSE StInit(c, variant, aux.nt)
        /\ ses = SesInit
Acc == /\ aux.kind # "sess" /\ ~aux.direct
       /\ ~st.done
       /\ st' = StAcc(c, variant, st, Exact /\ variant # "s4")
       /\ UNCHANGED <<c, aux, variant, ses>>
\* one call of a history: the object state and the list of results advance
DoCall == /\ aux.kind = "sess" /\ ses.i <= Len(SesCalls)
          /\ LET r == AlgCall(c, variant, ses.objs, SesCalls[ses.i], Tsq, aux.dt) IN
             ses' = [i |-> ses.i + 1, objs |-> r.objs, results |-> Append(ses.results, r.result)]
          /\ UNCHANGED <<c, aux, variant, st>>
Next == Acc \/ DoCall
Spec == Init /\ [][Next]_vars

\* ---- clauses of C06 on the model ----
Machine     == aux.kind # "sess" /\ ~aux.direct
InvCounts   == Machine => CountsPerLag(c, variant, aux.nt, st)
InvPairs    == Machine => PairsAreDefinition(c, variant, aux.nt, st)
InvAlgDef   == (Machine /\ Exact) => AlgorithmEqualsDefinition(c, variant, st)
InvChi4     == (Machine /\ Exact) => Chi4NonNegative(c, variant, st)
InvLog      == (Machine /\ Exact) => LogIsOriginZeroRestriction(c, variant, st)
DirectLags(T) == SortedSeq((1..6) \cup ((T \div 2 - 2)..(T \div 2 + 1)) \cup ((T - 6)..(T - 1)))
CaseLags    == IF aux.direct THEN DirectLags(c.T) ELSE [k \in 1..(c.T - 1) |-> k]
InvDirect   == (aux.direct /\ variant # "s4") => DirectCounts(c, variant, CaseLags)
\* the result of every call of a history is the definition applied to its arguments (the history is not an argument),
\* and two calls with the same arguments have the same result
InvSession  == (aux.kind = "sess" /\ ses.i > 1) =>
                  /\ ses.results[ses.i - 1] = DefCall(c, variant, SesCalls[ses.i - 1], Tsq, aux.dt)
                  /\ \A j \in 1..(ses.i - 2) : SameArgs(SesCalls[j], SesCalls[ses.i - 1]) => ses.results[j] = ses.results[ses.i - 1]
                  /\ \A o \in 1..2 : ses.objs[o].calls = Cardinality({j \in 1..(ses.i - 1) : SesCalls[j].obj = o})
\* input-only clauses: evaluated once per case (in the initial state of the "lin" behaviour)
First       == ses.i = 1 /\ (aux.direct \/ (~st.done /\ \A k \in 1..c.T : st.counts[k] = 0))
AtStart     == variant = "lin" /\ First /\ ~aux.direct
InvWrapped  == AtStart => WrappedEqualsUnwrapped(c)
InvBoth     == AtStart => BothIsXu(c)
InvSlowFast == AtStart => SlowFastPartition(c)
InvIsf      == AtStart => IsfBounded(c)
InvMinImage == AtStart => DiagImageIsMinImage(c)
InvWellFormed == First =>   /\ \A f \in 1..c.T : \A i \in 1..c.N : \A k \in 1..c.d :
                                  FracNum(c.H, VSub(c.x[f][i], c.xu[f][i]))[k] % FracDen(c.H) = 0
                            /\ c.mode = "x" => \A f \in 1..c.T : \A i \in 1..c.N : \A k \in 1..c.d :
                                  LET fn == FracNum(c.H, c.x[f][i])[k] IN
                                  IF c.ppp[k] = 1 THEN 0 <= fn /\ fn < FracDen(c.H)
                                  ELSE fn = FracNum(c.H, c.xu[f][i])[k]
                            /\ \A f \in 1..c.T : \E i \in 1..c.N : c.cond[f][i] = 1
                            /\ \A f \in 1..c.T : \A i \in 1..c.N :
                                  /\ Len(c.nb[f][i]) >= 1 /\ i \notin Range(c.nb[f][i])
                                  /\ Range(c.nb[f][i]) \subseteq 1..c.N /\ Cardinality(Range(c.nb[f][i])) = Len(c.nb[f][i])
                            /\ \A i \in 1..c.N : c.types[i] \in 1..Len(c.dia)
                            /\ aux.kind = "tri" => ~IsDiagonal(c.H) /\ FracDen(c.H) % 2 = 1 /\ c.mode = "x"
                            /\ aux.kind = "long" => \A f \in 1..c.T : \A i \in 1..c.N : \A k \in 1..c.d :
                                  Abs(c.xu[f][i][k] - c.xu[1][i][k]) <= 30
EveryOriginLagPairOnce == [][Machine => NoPairTwice(st')]_vars

\* ---- emission ----
\* fractional displacements (after the minimum image) of at least 0.35 cell vectors: how many positive, how many negative
NearHalf ==
  IF aux.kind # "tri" THEN <<0, 0>>
  ELSE LET F == { FracNum(c.H, BaseDisp(c, pr[1], pr[2], i))[k] :
                    pr \in {p \in (0..(c.T - 1)) \X (0..(c.T - 1)) : p[1] < p[2]}, i \in 1..c.N,
                    k \in {kk \in 1..c.d : c.ppp[kk] = 1} }
       IN  << Cardinality({f \in F : f > 0 /\ 20 * f >= 7 * FracDen(c.H)}),
              Cardinality({f \in F : f < 0 /\ 0 - 20 * f >= 7 * FracDen(c.H)}) >>
TNum == 10 * aux.nt + aux.toff                    \* t = TNum / 10 * t_1; its nearest integer is nt
Finished == IF aux.kind = "sess" THEN ses.i > Len(SesCalls) ELSE st.done
Case ==
  [ m |-> "Relaxation", variant |-> variant, kind |-> aux.kind, c |-> c, dt |-> aux.dt, render |-> aux.render,
    tsq |-> Tsq,
    counts |-> IF aux.direct THEN << >> ELSE st.counts,
    lags |-> IF variant = "s4" \/ aux.kind = "sess" THEN << >> ELSE CaseLags,
    rows |-> IF variant = "s4" \/ aux.kind = "sess" THEN << >> ELSE RowsAt(c, variant, CaseLags, Tsq, aux.dt),
    rowsX |-> IF variant = "s4" \/ ~Exact THEN << >> ELSE [k \in 1..(c.T - 1) |-> AlgRowX(st, k)],
    smallDisp |-> IF aux.kind = "long" THEN FALSE ELSE WrapRelApplies(c),
    nearHalf |-> NearHalf,
    s4 |-> IF variant = "s4" THEN S4Exp(c, aux.nt, aux.numofq) ELSE << >>,
    tnum |-> IF TNum < 0 THEN 0 ELSE TNum,
    tround |-> NearestSet(IF TNum < 0 THEN 0 ELSE TNum, 10),
    calls |-> [j \in 1..Len(SesCalls) |->
                 LET cc == CallCase(c, SesCalls[j]) IN
                 [ call |-> SesCalls[j], cal |-> cc.cal, q |-> cc.q, hasCond |-> cc.hasCond, cond |-> cc.cond,
                   result |-> ses.results[j] ]] ]
Emit == Finished => PrintT(ToJson(Case))
=============================================================================
