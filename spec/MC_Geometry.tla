---------------------------- MODULE MC_Geometry ----------------------------
(***************************************************************************)
(* Model of PyMatterSim/utils/geometry.py (growth check X01).  One state   *)
(* per input of one routine (Mode selects the routine); the clauses are    *)
(* INVARIANTs; Emit prints the state with its expectation for replay into  *)
(* the real routine (direction A: one implementation test per state).      *)
(*   Mode "tri2" / "tri3"  triangle_area in 2-D / 3-D cells                *)
(*        "ang"            triangle_angle on integer triangles             *)
(*        "lin"            lines_intersection on an integer grid           *)
(*        "formulas"       the real-valued formulas with free variables    *)
(*        "sq"             LineWithinSquare: quadrilateral x start corner  *)
(*                         x interior point x direction                    *)
(***************************************************************************)
EXTENDS Geometry, Json, SequencesExt

CONSTANTS Tier,      \* "quick" | "thorough"
          Mode,
          SHARD, NSHARDS

VARIABLES x
vars == <<x>>
Thorough == Tier = "thorough"

Tri2(a, t, b) == << <<a, 0>>, <<t, b>> >>
Tri3(a, b, c, xy, xz, yz) == << <<a, 0, 0>>, <<xy, b, 0>>, <<xz, yz, c>> >>

\* ------------------------------------------------------------------ tri2 / tri3
\* cells: orthogonal, LAMMPS-style tilts of either sign, and one strongly sheared cell in which the
\* nearest-integer image is not the shortest one (the wrapped lengths then violate the triangle
\* inequality for some inputs: Heron's radicand is negative, the routine has no value there)
TriCells2 ==
  IF Thorough THEN {Tri2(8, 0, 6), Tri2(6, 0, 6), Tri2(8, 3, 6), Tri2(6, 0 - 2, 4), Tri2(8, 4, 6), Tri2(4, 7, 3)}
  ELSE {Tri2(8, 0, 6), Tri2(8, 3, 6), Tri2(6, 0 - 2, 4), Tri2(4, 7, 3)}
TriCells3 ==
  IF Thorough THEN {Tri3(4, 6, 4, 0, 0, 0), Tri3(4, 6, 4, 1, 0 - 2, 3), Tri3(6, 4, 4, 0 - 3, 1, 0 - 1)}
  ELSE {Tri3(4, 6, 4, 0, 0, 0), Tri3(4, 6, 4, 1, 0 - 2, 3)}
TriMasks(d) == IF d = 2 \/ Thorough THEN [1..d -> {0, 1}] ELSE {<<1, 1, 1>>, <<1, 0, 1>>}
TriFirst2 == IF Thorough THEN {<<0, 0>>, <<1, 2>>} ELSE {<<1, 2>>}
TriFirst3 == {<<0, 1, 0>>}
TriPts2 == IF Thorough THEN {<<a, b>> : a \in {0 - 3, 0, 2, 4, 5, 9}, b \in {0 - 2, 1, 3, 4, 7}}
           ELSE {<<a, b>> : a \in {0 - 3, 2, 4, 9}, b \in {0 - 2, 3, 7}}
TriPts3 == IF Thorough THEN [1..3 -> {0 - 3, 0, 2, 5}] ELSE [1..3 -> {0 - 3, 2, 5}]
TriPts3b == IF Thorough THEN TriPts3 ELSE {<<a, b, 2>> : a \in {0 - 3, 2, 5}, b \in {0 - 3, 2, 5}}
TriScope(d) ==
  LET Cs == IF d = 2 THEN TriCells2 ELSE TriCells3
      F  == IF d = 2 THEN TriFirst2 ELSE TriFirst3
      Ps == IF d = 2 THEN TriPts2 ELSE TriPts3
      Pt == IF d = 2 THEN TriPts2 ELSE TriPts3b
  IN  {[k |-> IF d = 2 THEN "tri2" ELSE "tri3", H |-> h, ppp |-> m, P |-> <<p1, p2, p3>>] : h \in Cs, m \in TriMasks(d), p1 \in F, p2 \in Ps, p3 \in Pt}
TriKey(s) == s.P[2][1] + 3 * s.P[2][2] + 7 * s.P[3][1] + 13 * s.P[3][2] + 5 * s.ppp[1] + 11 * s.H[2][1] + Len(s.ppp) * (s.P[2][Len(s.ppp)] + 2) + 256

\* ------------------------------------------------------------------ ang
AngK == IF Thorough THEN 24 ELSE 11
AngScope == {[k |-> "ang", a |-> a, b |-> b, c |-> c] : a \in 1..AngK, b \in 1..AngK, c \in 1..AngK}
AngKey(s) == s.a + s.b + s.c

\* ------------------------------------------------------------------ lin
LinG  == IF Thorough THEN [1..2 -> (0 - 2)..2] ELSE [1..2 -> (0 - 1)..2]
LinG2 == IF Thorough THEN [1..2 -> (0 - 2)..2] ELSE {<<0 - 1, 0 - 1>>, <<0, 2>>, <<2, 0>>, <<1, 1>>, <<2, 2>>, <<0 - 1, 1>>}
LinScope == {[k |-> "lin", A |-> a, B |-> b, C |-> c, E |-> e] : a \in LinG, b \in LinG, c \in LinG2, e \in LinG2}
LinKey(s) == s.A[1] + 2 * s.A[2] + 3 * s.B[1] + 5 * s.B[2] + 7 * s.C[1] + 11 * s.E[2] + 64

\* ------------------------------------------------------------------ sq
Rect(ox, oy, w, h) == << <<ox, oy>>, <<ox + w, oy>>, <<ox + w, oy + h>>, <<ox, oy + h>> >>
SqQuads ==
  {Rect(0, 0, 4, 4), Rect(0 - 3, 0 - 1, 6, 4)}
  \cup { << <<2, 0>>, <<4, 2>>, <<2, 4>>, <<0, 2>> >> }                    \* a square standing on a corner
  \cup { << <<0, 0>>, <<5, 1>>, <<6, 4>>, <<1, 3>> >> }                    \* a parallelogram
  \cup (IF Thorough THEN {Rect(0 - 6, 0 - 6, 3, 5), Rect(1, 2, 6, 6),
                          << <<0, 0>>, <<6, 0>>, <<4, 3>>, <<1, 4>> >>}     \* a general convex quadrilateral
        ELSE {})
Rot(Qd, s) == [k \in 1..4 |-> Qd[((k - 1 + s) % 4) + 1]]
SqExt == IF Thorough THEN 4 ELSE 3
SqDirs == {u \in [1..2 -> (0 - SqExt)..SqExt] : u # <<0, 0>>}
SqInside(Qd) ==
  LET xs == {Qd[k][1] : k \in 1..4}
      ys == {Qd[k][2] : k \in 1..4}
  IN  {r \in [1..2 -> SetMin(xs \cup ys)..SetMax(xs \cup ys)] : StrictlyInside(Qd, r)}
SqScope == {[k |-> "sq", Q |-> Rot(q, s), s |-> s, R0 |-> r, u |-> u] : q \in SqQuads, s \in 0..3, r \in UNION {SqInside(qq) : qq \in SqQuads}, u \in SqDirs}
SqKey(s) == s.u[1] + 7 * s.u[2] + 5 * s.R0[1] + 3 * s.R0[2] + s.s + 128

\* ------------------------------------------------------------------ state space
KindScope(kd) ==
  CASE kd = "formulas" -> {[k |-> "formulas"]}
    [] kd = "tri2" -> TriScope(2)
    [] kd = "tri3" -> TriScope(3)
    [] kd = "ang"  -> {s \in AngScope : IsTriangle(s.a, s.b, s.c)}
    [] kd = "lin"  -> {s \in LinScope : s.A # s.B /\ s.C # s.E /\ LinD(s.A, s.B, s.C, s.E) # 0}
    [] kd = "sq"   -> {s \in SqScope : StrictlyInside(s.Q, s.R0)}
AllKinds == {"formulas", "tri2", "tri3", "ang", "lin", "sq"}
Kinds == IF Mode = "all" THEN AllKinds ELSE IF Mode = "small" THEN {"formulas", "ang", "lin"} ELSE {Mode}
Key(s) == CASE s.k = "formulas" -> 0
            [] s.k \in {"tri2", "tri3"} -> TriKey(s)
            [] s.k = "ang" -> AngKey(s)
            [] s.k = "lin" -> LinKey(s)
            [] s.k = "sq"  -> SqKey(s)

Init == \E kd \in Kinds : x \in KindScope(kd) /\ Key(x) % NSHARDS = SHARD
Next == UNCHANGED vars
Spec == Init /\ [][Next]_vars

IsTri == x.k \in {"tri2", "tri3"}
\* ---- clauses: triangle_area
InvHeronIsCross     == IsTri => HeronIsCrossWhenClosed(x.H, x.P, x.ppp)
InvRadicandOrtho    == IsTri => RadicandNonNegOrthogonal(x.H, x.P, x.ppp)
InvClosesWithoutPbc == IsTri => ClosesWithoutPbc(x.H, x.P, x.ppp)
InvTriPermutation   == IsTri => PermutationInvariantOffTies(x.H, x.P, x.ppp)
\* ---- clauses: triangle_angle
InvCosInRange    == x.k = "ang" => CosInRange(x.a, x.b, x.c) /\ CosInRange(x.b, x.c, x.a) /\ CosInRange(x.a, x.c, x.b)
InvAnglesSumToPi == x.k = "ang" => AnglesSumToPi(x.a, x.b, x.c)
InvRightAngle    == x.k = "ang" => ((x.a * x.a + x.b * x.b = x.c * x.c) <=> AngleClosedForm(x.a, x.b, x.c) = "right")
\* ---- clauses: lines_intersection
InvOnBothLines   == x.k = "lin" => PointOnBothLines(x.A, x.B, x.C, x.E)
InvSwapSymmetric == x.k = "lin" => SwapSymmetric(x.A, x.B, x.C, x.E)
\* ---- clauses: LineWithinSquare
InvQuadConvex    == x.k = "sq" => ConvexCCW(x.Q)
InvExitAdjacent  == x.k = "sq" => ExitOneOrTwoAdjacent(x.Q, x.R0, x.u)
InvExitSamePoint == x.k = "sq" => ExitSamePointAtTies(x.Q, x.R0, x.u)
InvExitOnBoundaryAndRay == x.k = "sq" => ExitOnBoundaryAndRay(x.Q, x.R0, x.u)
InvOneWrapEdge   == x.k = "sq" => ExactlyOneWrapEdge(x.Q, x.R0)
InvAtanAgrees    == x.k = "sq" => AtanAgreesWhenWrapIsLast(x.Q, x.R0, x.u)
InvAtanDisagrees == x.k = "sq" => AtanDisagreesOtherwise(x.Q, x.R0, SqDirs)

\* ---- emission (direction A)
SgnI(n) == IF n < 0 THEN 0 - 1 ELSE IF n > 0 THEN 1 ELSE 0
TriCase ==
  LET ws == SetToSeq(TriWrapped(x.H, x.P, x.ppp)) IN
  [ m |-> x.k, H |-> x.H, ppp |-> x.ppp, P |-> x.P,
    tie |-> \E k \in 1..3 : HasTie(x.H, TriDiffs(x.P)[k], x.ppp),
    adm |-> [i \in 1..Len(ws) |->
               [ s2 |-> Side2(ws[i]), closes |-> Closes(ws[i]), sign |-> SgnI(Heron16(Side2(ws[i]))),
                 h16 |-> Heron16(Side2(ws[i])) ]] ]
AngCase ==
  [ m |-> "ang", a |-> x.a, b |-> x.b, c |-> x.c, cos |-> AngleCos(x.a, x.b, x.c),
    closed |-> <<AngleClosedForm(x.b, x.c, x.a), AngleClosedForm(x.a, x.c, x.b), AngleClosedForm(x.a, x.b, x.c)>> ]
\* the real-valued expectations: one formula per routine, its free variables are bound per case to the
\* data TLC decided (squared side lengths s1..s3 in units 1/S^2; side lengths a, b, c)
Formulas ==
  [ m |-> "formulas",
    tri_rad  |-> HeronRadicandT(Div(Sqrt(Var("s1")), Var("S")), Div(Sqrt(Var("s2")), Var("S")), Div(Sqrt(Var("s3")), Var("S"))),
    tri_area |-> Sqrt(HeronRadicandT(Div(Sqrt(Var("s1")), Var("S")), Div(Sqrt(Var("s2")), Var("S")), Div(Sqrt(Var("s3")), Var("S")))),
    angle    |-> AngleTerm(Var("a"), Var("b"), Var("c")),
    closed   |-> [right |-> ClosedFormTerm("right"), equi |-> ClosedFormTerm("equi"),
                  flat |-> ClosedFormTerm("flat"), zero |-> ClosedFormTerm("zero")],
    pi       |-> Pi ]
LinCase ==
  [ m |-> "lin", A |-> x.A, B |-> x.B, C |-> x.C, E |-> x.E, D |-> LinD(x.A, x.B, x.C, x.E),
    pt |-> LinPoint(x.A, x.B, x.C, x.E) ]
SqCase ==
  [ m |-> "sq", Q |-> x.Q, s |-> x.s, R0 |-> x.R0, u |-> x.u,
    edges |-> ExitEdges(x.Q, x.R0, x.u), pt |-> ExitPoint(x.Q, x.R0, x.u),
    wrap |-> WrapEdges(x.Q, x.R0),
    atan |-> <<AtanEdge(x.Q, x.R0, x.u, FALSE), AtanEdge(x.Q, x.R0, x.u, TRUE)>> ]
Emit == PrintT(ToJson(CASE x.k = "formulas" -> Formulas [] IsTri -> TriCase [] x.k = "ang" -> AngCase
                        [] x.k = "lin" -> LinCase [] x.k = "sq" -> SqCase))
=============================================================================
