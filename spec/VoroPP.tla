------------------------------- MODULE VoroPP -------------------------------
(***************************************************************************)
(* Growth check X02 (a): neighbors.voropp_neighbors.get_input / cal_voro / *)
(* voronowalls - the pipeline around the external program voro++.          *)
(* Reference: docstrings and docs/neighbors.md IV.                         *)
(*                                                                         *)
(* voro++ is NOT specified: it is an ENVIRONMENT component.  Per frame the *)
(* library (WriteInput) writes `dumpused` (one row  id x y z radius  per   *)
(* particle, ids 1..N in order, radius of the particle's species), the     *)
(* environment (VoroRun) is started with                                   *)
(*     voro++ <ppp> -r -c "<Format>" xlo xhi ylo yhi zlo zhi dumpused      *)
(* and answers with ANY well-formed cell table in `dumpused.vol` (one cell *)
(* per particle, in any order - voro++ lists cells block by block, not by  *)
(* id), and the library (Split) appends the four @-separated fields of     *)
(* every cell to  <out>.overall.dat / .voroindex.dat / .neighbor.dat /     *)
(* .facearea.dat;  Finish removes the temporary files.                     *)
(*                                                                         *)
(* Case record c:                                                          *)
(*   kind    "cal" (cal_voro: fields verbatim) | "walls" (voronowalls:     *)
(*           faces whose neighbour id is negative - the container walls    *)
(*           -1..-6 - are removed)                                         *)
(*   ppp     the periodicity flag, as the sequence of its words            *)
(*   radii   radii[a] of species a;  types[f][i], pos[f][i] = <<x, y, z>>, *)
(*           bounds[f] = <<xlo, xhi, ylo, yhi, zlo, zhi>> of frame f       *)
(* All numbers are integers in the case's quanta: positions, bounds and    *)
(* radii in units of 1/c.PS, areas and volumes in units of 1/c.AS.         *)
(*                                                                         *)
(* A cell of the environment's table:                                      *)
(*   [id, nbs (neighbour ids, walls negative), areas, vol, tot, hist]      *)
(* with the .vol fields   id cn vol tot @ id hist @ id cn nbs @ id cn areas*)
(*                                                                         *)
(* Files: sequences of lines (VoroHist: HdrLine / RowLine).                *)
(***************************************************************************)
EXTENDS VoroHist
NB == INSTANCE Neighbors

Format   == "%i %s %v %F @%i %A @%i %s %n @%i %s %f"
Walls    == {0 - k : k \in 1..6}
HdrNb    == <<"id", "cn", "neighborlist">>
HdrFa    == <<"id", "cn", "facearealist">>
HdrVi    == <<"id", "voro_index", "0_to_7_faces">>
HdrOv    == <<"id", "cn", "volume", "facearea">>
TmpInput == "dumpused"
TmpVol   == "dumpused.vol"
TmpRow   == "temp"

NFr(c)      == Len(c.pos)
NP(c, f)    == Len(c.pos[f])
TotalRows(c) == SumSeq([f \in 1..NFr(c) |-> NP(c, f)])

\* ---- the library's side of the interface
InputRows(c, f) == [i \in 1..NP(c, f) |-> <<i>> \o c.pos[f][i] \o <<c.radii[c.types[f][i]]>>]
Argv(c, f) == [ppp |-> c.ppp, opts |-> <<"-r", "-c", Format>>, bounds |-> c.bounds[f], input |-> TmpInput]

\* ---- the environment's answer
CellCn(cl) == Len(cl.nbs)
CellOK(cl, n) ==
  /\ cl.id \in 1..n /\ Len(cl.areas) = Len(cl.nbs) /\ Len(cl.nbs) >= 1
  /\ \A k \in 1..Len(cl.nbs) : cl.nbs[k] \in (1..n) \cup Walls
  /\ \A k \in 1..Len(cl.areas) : cl.areas[k] >= 0
  /\ cl.vol >= 0 /\ cl.tot >= 0      \* %F is whatever the environment prints (voro++: the sum, rounded to 6 digits)
  /\ Len(cl.hist) >= 1 /\ Len(cl.hist) <= HistKeep /\ \A k \in 1..Len(cl.hist) : cl.hist[k] >= 0
TableOK(tab, n) ==
  /\ Len(tab) = n /\ {tab[p].id : p \in 1..n} = 1..n
  /\ \A p \in 1..n : CellOK(tab[p], n)

\* ---- Split: what one cell contributes to the four files
\* positions of the faces that survive (all of them for cal_voro)
Keep(kind, cl) == IF kind = "cal" THEN [k \in 1..CellCn(cl) |-> k]
                  ELSE SortedSeq({k \in 1..CellCn(cl) : cl.nbs[k] > 0})
Surv(kind, cl) ==
  LET ks == Keep(kind, cl)
      ar == [q \in 1..Len(ks) |-> cl.areas[ks[q]]]
  IN  [id |-> cl.id, nbs |-> [q \in 1..Len(ks) |-> cl.nbs[ks[q]]], areas |-> ar, vol |-> cl.vol,
       tot |-> IF kind = "cal" THEN cl.tot ELSE SumSeq(ar), hist |-> cl.hist]
LineNb(sv) == RowLine(<<sv.id, Len(sv.nbs)>> \o sv.nbs)
LineFa(sv) == RowLine(<<sv.id, Len(sv.nbs)>> \o sv.areas)
LineVi(sv) == RowLine(<<sv.id>> \o sv.hist)
LineOv(sv) == RowLine(<<sv.id, Len(sv.nbs), sv.vol, sv.tot>>)

(***************************************************************************)
(* The state machine.  s =                                                 *)
(*   [phase |-> "write" | "run" | "split" | "done", n |-> frames completed,*)
(*    dump, vol |-> content of the two temporary files, tmp |-> set of     *)
(*    temporary files that exist, nb, fa, vi, ov |-> the four files,       *)
(*    calls |-> the environment's history: <<[argv, dump, tab]>>]          *)
(***************************************************************************)
PipeInit(c) ==
  [phase |-> "write", n |-> 0, dump |-> << >>, vol |-> << >>, tmp |-> {},
   nb |-> << >>, fa |-> << >>, vi |-> <<HdrLine(HdrVi)>>, ov |-> <<HdrLine(HdrOv)>>, calls |-> << >>]

CanWrite(c, s)  == s.phase = "write" /\ s.n < NFr(c)
WriteInput(c, s) == [s EXCEPT !.phase = "run", !.dump = InputRows(c, s.n + 1), !.tmp = @ \cup {TmpInput}]

\* the environment sees exactly the command line and the input file of this invocation
CanRun(c, s) == s.phase = "run"
VoroRun(c, s, tab) ==
  [s EXCEPT !.phase = "split", !.vol = tab, !.tmp = @ \cup {TmpVol},
            !.calls = Append(@, [argv |-> Argv(c, s.n + 1), dump |-> s.dump, tab |-> tab])]

CanSplit(c, s) == s.phase = "split"
Split(c, s) ==
  LET tab == s.vol
      sv  == [p \in 1..Len(tab) |-> Surv(c.kind, tab[p])]
  IN  [s EXCEPT !.phase = "write", !.n = @ + 1,
                !.nb = @ \o <<HdrLine(HdrNb)>> \o [p \in 1..Len(tab) |-> LineNb(sv[p])],
                !.fa = @ \o <<HdrLine(HdrFa)>> \o [p \in 1..Len(tab) |-> LineFa(sv[p])],
                !.vi = @ \o [p \in 1..Len(tab) |-> LineVi(sv[p])],
                !.ov = @ \o [p \in 1..Len(tab) |-> LineOv(sv[p])],
                !.tmp = IF c.kind = "walls" THEN @ \cup {TmpRow} ELSE @]

CanFinish(c, s) == s.phase = "write" /\ s.n = NFr(c)
Finish(c, s) == [s EXCEPT !.phase = "done", !.tmp = {}, !.dump = << >>, !.vol = << >>]

\* the whole run for a given sequence of environment answers (used by the trace specification
\* and to state that the state machine is a function of the environment's choices)
RECURSIVE RunFrames(_, _, _)
RunFrames(c, s, tabs) ==
  IF tabs = << >> \/ s.n < 0 THEN s
  ELSE RunFrames(c, Split(c, VoroRun(c, WriteInput(c, s), Head(tabs))), Tail(tabs))

(***************************************************************************)
(* Layout of the files and the hand-off to read_neighbors.                 *)
(***************************************************************************)
RECURSIVE OffList(_, _)    \* lines of .neighbor/.facearea before frame f (one header per frame)
OffList(c, f) == IF f <= 1 THEN 0 ELSE OffList(c, f - 1) + NP(c, f - 1) + 1
RECURSIVE OffOnce(_, _)    \* lines of .voroindex/.overall before the rows of frame f (one header in all)
OffOnce(c, f) == IF f <= 1 THEN 1 ELSE OffOnce(c, f - 1) + NP(c, f - 1)

\* the frame that starts after `off` lines of a list file, in Neighbors' file syntax
FrameRows(lines, off, n) ==
  [p \in 1..n |-> LET t == lines[off + 1 + p].t IN [id |-> t[1], cn |-> t[2], ids |-> SubSeq(t, 3, Len(t))]]
ReaderShift(hdr) == IF "neighborlist" \in Range(hdr.w) THEN 1 ELSE 0
\* what read_neighbors needs of a frame: a header line, then n rows, every id once, cn = number of entries
ReaderAccepts(lines, off, n) ==
  /\ Len(lines) >= off + 1 + n /\ lines[off + 1].h = 1
  /\ \A p \in 1..n : lines[off + 1 + p].h = 0 /\ Len(lines[off + 1 + p].t) >= 2
  /\ LET fr == FrameRows(lines, off, n) IN
     /\ {fr[p].id : p \in 1..n} = 1..n
     /\ \A p \in 1..n : fr[p].cn = Len(fr[p].ids)
\* one call of read_neighbors(handle, n, nmax) with `off` lines consumed: Neighbors' reader
ReadCall(lines, off, n, nmax) ==
  NB!ReadFrame(FrameRows(lines, off, n), n, nmax, ReaderShift(lines[off + 1]))
ReadNextOff(off, n) == off + n + 1

(***************************************************************************)
(* Clauses (state predicates over c and s).                                *)
(***************************************************************************)
Started(s) == s.n + (IF s.phase = "split" THEN 1 ELSE 0)      \* invocations of the environment so far

\* the input file of frame n holds the positions / radii of frame n: ids 1..N in order
InputIsFrame(c, s) ==
  /\ s.phase \in {"run", "split"} =>
       /\ Len(s.dump) = NP(c, s.n + 1)
       /\ \A i \in 1..Len(s.dump) :
            /\ s.dump[i][1] = i
            /\ SubSeq(s.dump[i], 2, 4) = c.pos[s.n + 1][i]
            /\ s.dump[i][5] = c.radii[c.types[s.n + 1][i]]
  /\ \A k \in 1..Len(s.calls) : s.calls[k].dump = InputRows(c, k)
\* bounds of frame n in the command line, the periodicity flag passed through
CommandLine(c, s) ==
  \A k \in 1..Len(s.calls) :
     LET a == s.calls[k].argv IN
     a.ppp = c.ppp /\ a.bounds = c.bounds[k] /\ a.opts = <<"-r", "-c", Format>> /\ a.input = TmpInput
\* frames are processed in order, each exactly once
FramesInOrderOnce(c, s) ==
  /\ Len(s.calls) = Started(s) /\ s.n <= NFr(c)
  /\ s.phase = "done" => s.n = NFr(c)
\* one header per frame (neighbor / facearea) or one header in total (voroindex / overall)
Headers(c, s) ==
  /\ Len(s.nb) = OffList(c, s.n + 1) /\ Len(s.fa) = OffList(c, s.n + 1)
  /\ Len(s.vi) = OffOnce(c, s.n + 1) /\ Len(s.ov) = OffOnce(c, s.n + 1)
  /\ \A k \in 1..Len(s.nb) : (s.nb[k].h = 1) <=> (\E f \in 1..s.n : k = OffList(c, f) + 1)
  /\ \A k \in 1..Len(s.fa) : (s.fa[k].h = 1) <=> (\E f \in 1..s.n : k = OffList(c, f) + 1)
  /\ \A f \in 1..s.n : s.nb[OffList(c, f) + 1].w = HdrNb /\ s.fa[OffList(c, f) + 1].w = HdrFa
  /\ s.vi[1] = HdrLine(HdrVi) /\ s.ov[1] = HdrLine(HdrOv)
  /\ \A k \in 2..Len(s.vi) : s.vi[k].h = 0
  /\ \A k \in 2..Len(s.ov) : s.ov[k].h = 0
\* the rows of frame f, particle slot p (the environment's order is kept)
RowNb(c, s, f, p) == s.nb[OffList(c, f) + 1 + p].t
RowFa(c, s, f, p) == s.fa[OffList(c, f) + 1 + p].t
RowVi(c, s, f, p) == s.vi[OffOnce(c, f) + p].t
RowOv(c, s, f, p) == s.ov[OffOnce(c, f) + p].t
Done(c, s, f)     == 1..NP(c, f)
\* cal_voro: the four fields of every cell verbatim
Verbatim(c, s) ==
  c.kind = "cal" =>
    \A f \in 1..s.n : \A p \in Done(c, s, f) :
       LET cl == s.calls[f].tab[p] IN
       /\ RowOv(c, s, f, p) = <<cl.id, CellCn(cl), cl.vol, cl.tot>>
       /\ RowVi(c, s, f, p) = <<cl.id>> \o cl.hist
       /\ RowNb(c, s, f, p) = <<cl.id, CellCn(cl)>> \o cl.nbs
       /\ RowFa(c, s, f, p) = <<cl.id, CellCn(cl)>> \o cl.areas
\* voronowalls: every negative id and its face area is removed, the order of the surviving entries
\* is preserved (stated without the filter: an order-preserving bijection between the written entries
\* and the positive positions of the cell), cn = number of surviving faces in all three files,
\* total area = sum of the surviving areas, volume and Voronoi index unchanged
WallsRemoved(c, s) ==
  c.kind = "walls" =>
    \A f \in 1..s.n : \A p \in Done(c, s, f) :
       LET cl  == s.calls[f].tab[p]
           nb  == RowNb(c, s, f, p)
           fa  == RowFa(c, s, f, p)
           ov  == RowOv(c, s, f, p)
           m   == Len(nb) - 2
           pos == {k \in 1..CellCn(cl) : cl.nbs[k] > 0}
           \* rank of position k among the positive positions
           rk(k) == Cardinality({j \in pos : j <= k})
       IN  /\ nb[1] = cl.id /\ fa[1] = cl.id /\ ov[1] = cl.id
           /\ m = Cardinality(pos) /\ Len(fa) = m + 2
           /\ \A q \in 1..m : nb[q + 2] > 0
           /\ \A k \in pos : nb[rk(k) + 2] = cl.nbs[k] /\ fa[rk(k) + 2] = cl.areas[k]
           /\ nb[2] = m /\ fa[2] = m /\ ov[2] = m
           /\ ov[4] = SumSeq(SubSeq(fa, 3, Len(fa)))
           /\ ov[3] = cl.vol
           /\ RowVi(c, s, f, p) = <<cl.id>> \o cl.hist
\* every completed frame of the two list files is accepted by read_neighbors, and the reader returns,
\* per id, cn and the zero-based ids / the areas, truncated at Nmax, zero-padded
ReadableBack(c, s, nmaxs) ==
  \A f \in 1..s.n :
     LET n == NP(c, f) off == OffList(c, f) IN
     /\ ReaderAccepts(s.nb, off, n) /\ ReaderAccepts(s.fa, off, n)
     /\ ReaderShift(s.nb[off + 1]) = 1 /\ ReaderShift(s.fa[off + 1]) = 0
     /\ \A nmax \in nmaxs :
          LET mn == ReadCall(s.nb, off, n, nmax)
              mf == ReadCall(s.fa, off, n, nmax)
              maxcn == SetMax({Len(Surv(c.kind, s.calls[f].tab[p]).nbs) : p \in 1..n})
          IN  \A p \in 1..n :
                LET sv == Surv(c.kind, s.calls[f].tab[p])
                    i  == sv.id
                    cc == Min2(Len(sv.nbs), nmax)
                IN  /\ Len(mn[i]) = 1 + Min2(maxcn, nmax) /\ Len(mf[i]) = Len(mn[i])
                    /\ mn[i][1] = cc /\ mf[i][1] = cc
                    /\ \A q \in 1..(Len(mn[i]) - 1) :
                         /\ mn[i][q + 1] = IF q <= cc THEN sv.nbs[q] - 1 ELSE 0
                         /\ mf[i][q + 1] = IF q <= cc THEN sv.areas[q] ELSE 0
\* temporary files: only while running; removed at the end
TempFiles(c, s) ==
  /\ s.phase = "done" => s.tmp = {}
  /\ s.tmp \subseteq {TmpInput, TmpVol, TmpRow}
  /\ (TmpRow \in s.tmp) => c.kind = "walls"
\* composition with indicehis: the voroindex file of a finished run is a valid input (one header in
\* total), and the histogram counts every particle of every frame once
HistComposes(c, s) ==
  (s.phase = "done" /\ TotalRows(c) >= 1) =>
     /\ ValidHistInput(s.vi)
     /\ Len(HistRows(s.vi)) = TotalRows(c)
     /\ CntTotal(HistCount(HistRows(s.vi))) = TotalRows(c)
     /\ HistCount(HistRows(s.vi)) =
          HistDef([k \in 1..TotalRows(c) |->
                     LET f == CHOOSE g \in 1..NFr(c) : OffOnce(c, g) <= k /\ k < OffOnce(c, g) + NP(c, g)
                         cl == s.calls[f].tab[k - OffOnce(c, f) + 1]
                     IN  <<cl.id>> \o cl.hist])
\* the state is a function of the environment's answers
Deterministic(c, s) ==
  s.phase \in {"write", "done"} =>
     LET r == RunFrames(c, PipeInit(c), [k \in 1..Len(s.calls) |-> s.calls[k].tab])
     IN  r.nb = s.nb /\ r.fa = s.fa /\ r.vi = s.vi /\ r.ov = s.ov /\ r.calls = s.calls /\ r.n = s.n
=============================================================================
