---------------------------- MODULE MC_Hessian ----------------------------
(***************************************************************************)
(* Model of property C11.  A behaviour is the assembly of the Hessian of   *)
(* one configuration: Init chooses the configuration (cell, mask, N        *)
(* positions on a half-integer grid, species table of K <= 3 species of    *)
(* which any non-empty subset occurs, mass map and its enumeration order,  *)
(* potential, shift, K x K parameter matrices), every AddPair(k) step adds one interacting pair in *)
(* ANY order; the clauses Symmetric, TranslationNull, EachPairOnce hold in *)
(* every state (formal block symbols), and the final state (the same for   *)
(* every order) prints the case: all matrix entries as Real terms.         *)
(* The configurations of a run are the scope elements whose hash falls in  *)
(* the residue class chosen by SEED (plus fixed sentinels).                *)
(***************************************************************************)
EXTENDS Hessian, Json

CONSTANTS Tier,      \* "quick" | "thorough"
          DIM,       \* 2 | 3
          SEED, SMOD, REP,   \* sample: see HashC / GeomsFor
          SHARD, NSHARDS

VARIABLES cfg, geo, acc, done,
          tabs       \* PairPot!PotTable, evaluated once in Init
vars == <<cfg, geo, acc, done, tabs>>

Quick == Tier = "quick"
SS == 2            \* lengths are integers / 2

\* ---- cells (rows = cell vectors, in half units) ----
Cells ==
  IF DIM = 2 THEN
    << [H |-> << <<16, 0>>, <<0, 16>> >>,    dyadic |-> TRUE],
       [H |-> << <<10, 0>>, <<0, 7>> >>,     dyadic |-> FALSE],
       [H |-> << <<10, 0>>, <<3, 8>> >>,     dyadic |-> FALSE],
       [H |-> << <<9, 0>>, <<0 - 4, 11>> >>, dyadic |-> FALSE] >>
  ELSE
    << [H |-> << <<16, 0, 0>>, <<0, 16, 0>>, <<0, 0, 16>> >>,    dyadic |-> TRUE],
       [H |-> << <<7, 0, 0>>, <<0, 10, 0>>, <<0, 0, 9>> >>,      dyadic |-> FALSE],
       [H |-> << <<8, 0, 0>>, <<2, 9, 0>>, <<0 - 3, 1, 10>> >>,  dyadic |-> FALSE] >>

\* ---- positions: p1 fixed, the others from a grid; a few designed geometries first ----
Grid2 == {<<x, y>> : x \in {0, 2, 3, 4, 14, 15}, y \in {0, 2, 3, 5, 13, 15}}
Grid3 == {<<x, y, z>> : x \in {0, 3, 4, 15}, y \in {0, 2, 3, 14}, z \in {2, 3, 5, 15}}
GridSeq == IF DIM = 2 THEN SetToSeq(Grid2) ELSE SetToSeq(Grid3)
P1 == IF DIM = 2 THEN <<1, 1>> ELSE <<1, 1, 1>>
\* designed: a pair that wraps across x, a pair exactly at the cut-off 5/2 (3-4-5 in half
\* units), oblique pairs with all components non-zero, a pair beyond every cut-off
Designed(N) ==
  IF DIM = 2 THEN
    IF N = 2 THEN << <<P1, <<4, 5>>>> >>
    ELSE IF N = 3 THEN << <<P1, <<15, 2>>, <<4, 5>>>>, <<P1, <<2, 2>>, <<15, 15>>>> >>
    ELSE IF N = 4 THEN << <<P1, <<15, 2>>, <<4, 5>>, <<2, 3>>>>, <<P1, <<2, 2>>, <<15, 15>>, <<3, 0>>>> >>
    ELSE << <<P1, <<15, 2>>, <<4, 5>>, <<2, 3>>, <<0, 14>>>> >>
  ELSE
    IF N = 2 THEN << <<P1, <<4, 5, 1>>>> >>
    ELSE IF N = 3 THEN << <<P1, <<15, 2, 2>>, <<4, 5, 1>>>>, <<P1, <<2, 2, 3>>, <<15, 15, 14>>>> >>
    ELSE IF N = 4 THEN << <<P1, <<15, 2, 2>>, <<4, 5, 1>>, <<2, 3, 15>>>>, <<P1, <<2, 2, 3>>, <<15, 15, 14>>, <<3, 0, 2>>>> >>
    ELSE << <<P1, <<15, 2, 2>>, <<4, 5, 1>>, <<2, 3, 15>>, <<0, 14, 3>>>> >>
NGrid == Len(GridSeq)
Sizes == IF Quick THEN {3, 4} ELSE {2, 3, 4, 5}

\* ---- species and masses (masses are squares of the rationals below) ----
\* The species table of the MODEL (parameter matrices, mass map) has K = Len(mroot) entries; a
\* configuration need not contain all of them.  BaseTypeSets: K <= 2, every species present (except
\* the one-species entries).  PatternTypeSets: every pattern of present / absent species for K <= 3
\* that is not in the base sets - the species index of a particle is its label, not its rank among
\* the labels that happen to occur.
BaseTypeSets(N) ==
  IF N = 2 THEN
    << [typ |-> <<1, 1>>, mroot |-> << <<3, 2>> >>],
       [typ |-> <<1, 2>>, mroot |-> << <<1, 1>>, <<2, 1>> >>],
       [typ |-> <<2, 1>>, mroot |-> << <<3, 1>>, <<1, 2>> >>] >>
  ELSE IF N = 3 THEN
    << [typ |-> <<1, 1, 1>>, mroot |-> << <<3, 2>> >>],
       [typ |-> <<1, 2, 1>>, mroot |-> << <<1, 1>>, <<2, 1>> >>],
       [typ |-> <<2, 1, 1>>, mroot |-> << <<3, 1>>, <<2, 1>> >>],
       [typ |-> <<1, 2, 2>>, mroot |-> << <<1, 1>>, <<1, 1>> >>] >>
  ELSE IF N = 5 THEN
    << [typ |-> <<1, 1, 1, 1, 1>>, mroot |-> << <<2, 1>> >>],
       [typ |-> <<1, 2, 1, 2, 2>>, mroot |-> << <<1, 1>>, <<3, 1>> >>],
       [typ |-> <<2, 1, 2, 1, 1>>, mroot |-> << <<3, 2>>, <<1, 2>> >>] >>
  ELSE
    << [typ |-> <<1, 1, 1, 1>>, mroot |-> << <<1, 1>> >>],
       [typ |-> <<1, 2, 1, 2>>, mroot |-> << <<1, 1>>, <<2, 1>> >>],
       [typ |-> <<2, 1, 1, 1>>, mroot |-> << <<3, 1>>, <<2, 1>> >>],
       [typ |-> <<2, 2, 1, 2>>, mroot |-> << <<1, 2>>, <<3, 2>> >>] >>
Cyc(pat, N) == [i \in 1..N |-> pat[((i - 1) % Len(pat)) + 1]]
MR2 == << <<3, 1>>, <<1, 2>> >>
MR3 == << <<1, 1>>, <<2, 1>>, <<3, 2>> >>
PatternTypeSets(N) ==
  << [typ |-> Cyc(<<1>>, N),       mroot |-> MR2],     \* K = 2, only species 1
     [typ |-> Cyc(<<2>>, N),       mroot |-> MR2],     \* K = 2, only species 2
     [typ |-> Cyc(<<1>>, N),       mroot |-> MR3],     \* K = 3, one species
     [typ |-> Cyc(<<2>>, N),       mroot |-> MR3],
     [typ |-> Cyc(<<3>>, N),       mroot |-> MR3],
     [typ |-> Cyc(<<1, 2>>, N),    mroot |-> MR3],     \* K = 3, two species
     [typ |-> Cyc(<<3, 1>>, N),    mroot |-> MR3],
     [typ |-> Cyc(<<2, 3, 3>>, N), mroot |-> MR3],
     [typ |-> Cyc(<<3, 1, 2>>, N), mroot |-> MR3] >>   \* K = 3, all species (N >= 3)
NBase(N) == Len(BaseTypeSets(N))
TypeSets(N) == BaseTypeSets(N) \o PatternTypeSets(N)

\* ---- potentials and parameter matrices (rows/columns = species; symmetric) ----
\* M3(a, b, c, d, e, f): a = [1][1], b = [1][2], c = [2][2], d = [1][3], e = [2][3], f = [3][3]; a model with K species
\* uses the leading K x K block
M3(a, b, c, d, e, f) == << <<a, b, d>>, <<b, c, e>>, <<d, e, f>> >>
Block(M, K) == [a \in 1..K |-> [b \in 1..K |-> M[a][b]]]
ParSets ==
  << \* Lennard-Jones, dyadic cut-offs (pairs exactly at the cut-off occur in the dyadic cell)
     [model |-> "lennard_jones", eps |-> M3(<<1, 1>>, <<3, 2>>, <<1, 2>>, <<5, 4>>, <<3, 4>>, <<2, 1>>),
      sigma |-> M3(<<1, 1>>, <<5, 4>>, <<3, 2>>, <<9, 8>>, <<11, 8>>, <<5, 4>>),
      rc |-> M3(<<5, 2>>, <<5, 2>>, <<3, 1>>, <<5, 2>>, <<3, 1>>, <<11, 4>>),
      n |-> <<7, 1>>, A |-> <<3, 1>>, alpha |-> <<5, 1>>],
     \* Kob-Andersen-like, cut-off 2.5 sigma
     [model |-> "lennard_jones", eps |-> M3(<<1, 1>>, <<3, 2>>, <<1, 2>>, <<6, 5>>, <<4, 5>>, <<9, 10>>),
      sigma |-> M3(<<1, 1>>, <<4, 5>>, <<22, 25>>, <<9, 10>>, <<21, 25>>, <<19, 20>>),
      rc |-> M3(<<5, 2>>, <<2, 1>>, <<11, 5>>, <<9, 4>>, <<21, 10>>, <<19, 8>>),
      n |-> <<7, 1>>, A |-> <<3, 1>>, alpha |-> <<5, 1>>],
     [model |-> "inverse_power_law", eps |-> M3(<<1, 1>>, <<1, 1>>, <<1, 1>>, <<1, 1>>, <<1, 1>>, <<1, 1>>),
      sigma |-> M3(<<1, 1>>, <<59, 50>>, <<7, 5>>, <<11, 10>>, <<13, 10>>, <<6, 5>>),
      rc |-> M3(<<5, 2>>, <<2, 1>>, <<3, 1>>, <<11, 5>>, <<13, 5>>, <<12, 5>>),
      n |-> <<10, 1>>, A |-> <<1, 1>>, alpha |-> <<5, 1>>],
     [model |-> "inverse_power_law", eps |-> M3(<<2, 1>>, <<1, 2>>, <<5, 4>>, <<3, 2>>, <<3, 4>>, <<1, 1>>),
      sigma |-> M3(<<1, 1>>, <<6, 5>>, <<3, 2>>, <<11, 10>>, <<13, 10>>, <<7, 5>>),
      rc |-> M3(<<37, 20>>, <<9, 4>>, <<27, 10>>, <<2, 1>>, <<12, 5>>, <<5, 2>>),
      n |-> <<5, 2>>, A |-> <<2, 3>>, alpha |-> <<5, 1>>],
     \* harmonic / Hertz: the cut-off is sigma
     [model |-> "harmonic_hertz", eps |-> M3(<<1, 1>>, <<3, 2>>, <<2, 1>>, <<5, 4>>, <<7, 4>>, <<1, 2>>),
      sigma |-> M3(<<3, 2>>, <<2, 1>>, <<5, 2>>, <<7, 4>>, <<9, 4>>, <<3, 1>>),
      rc |-> M3(<<3, 2>>, <<2, 1>>, <<5, 2>>, <<7, 4>>, <<9, 4>>, <<3, 1>>),
      n |-> <<7, 1>>, A |-> <<3, 1>>, alpha |-> <<2, 1>>],
     [model |-> "harmonic_hertz", eps |-> M3(<<1, 1>>, <<1, 2>>, <<3, 1>>, <<2, 1>>, <<3, 2>>, <<5, 4>>),
      sigma |-> M3(<<8, 5>>, <<23, 10>>, <<27, 10>>, <<19, 10>>, <<5, 2>>, <<11, 5>>),
      rc |-> M3(<<8, 5>>, <<23, 10>>, <<27, 10>>, <<19, 10>>, <<5, 2>>, <<11, 5>>),
      n |-> <<7, 1>>, A |-> <<3, 1>>, alpha |-> <<5, 2>>] >>

Masks == SetToSeq({m \in [1..DIM -> {0, 1}] : TRUE})
AllOnes == [k \in 1..DIM |-> 1]

\* ---- choice of the configurations of this run ----
\* a combination cb = (N, cell c, mask m, species/mass set t, parameter set p, shift s) is part
\* of the run when its hash falls in the residue class 0 mod SMOD (the hash depends on SEED);
\* a chosen combination gets REP geometries picked by the hash; sentinels are always included
Mix(h, x) == LET a == (h + x + 7) % 32749 IN (((a * a) % 32749) * 31 + x) % 32749
HashC(cb) == Mix(Mix(Mix(Mix(Mix(Mix(Mix(SEED + 1, cb.N), cb.c), cb.m), cb.t), cb.p), cb.s), DIM)
LeadC(cb) == cb.c = 1 /\ Masks[cb.m] = AllOnes /\ cb.t = 1 /\ cb.p = 1 /\ cb.s = 1
SentC(cb) == cb.c = 1 /\ Masks[cb.m] = AllOnes /\ ((cb.N = 3 /\ cb.t = 2) \/ LeadC(cb))
Sentinel(ix) == ix.g = 1 /\ SentC(ix)
\* every present/absent pattern occurs in every run: N = 3, dyadic cell, fully periodic, the second designed
\* geometry (three pairs within 2.2, none exactly at a cut-off), potential and shift picked by a hash
HashT(cb) == Mix(Mix(Mix(SEED + 5, cb.N), cb.t), DIM)
PatSentC(cb) == /\ cb.N = 3 /\ cb.c = 1 /\ Masks[cb.m] = AllOnes /\ cb.t > NBase(cb.N)
                /\ cb.p = 1 + (HashT(cb) % Len(ParSets)) /\ cb.s = 1 + ((HashT(cb) \div 8) % 2)
\* the pattern type sets are sampled more thinly than the base ones
SModOf(cb) == IF cb.t > NBase(cb.N) THEN 4 * SMOD ELSE SMOD
\* ---- the mass map is a function species -> mass; a Python dict also has an enumeration (insertion) order:
\* every order denotes the same map.  The order of a case is picked by the hash.
Perms(K) == IF K = 1 THEN << <<1>> >>
            ELSE IF K = 2 THEN << <<1, 2>>, <<2, 1>> >>
            ELSE << <<1, 2, 3>>, <<3, 2, 1>>, <<2, 3, 1>>, <<3, 1, 2>>, <<2, 1, 3>>, <<1, 3, 2>> >>
MOrder(K, h) == Perms(K)[1 + (h % Len(Perms(K)))]

\* geometry number g of size N: designed ones first, then the grid tuples
NDesigned(N) == Len(Designed(N))
RECURSIVE Binom(_, _)
Binom(n, k) == IF k = 0 THEN 1 ELSE IF n < k THEN 0 ELSE (Binom(n, k - 1) * (n - k + 1)) \div k
NGeoms(N) == NDesigned(N) + Binom(NGrid, N - 1)
\* the (g - NDesigned)-th increasing (N-1)-tuple of grid indices, in colexicographic order
RECURSIVE Unrank(_, _, _)
Unrank(r, k, top) ==        \* r-th (0-based) k-subset of 1..top, as increasing sequence
  IF k = 0 THEN << >>
  ELSE LET m == CHOOSE x \in k..top : Binom(x - 1, k) <= r /\ (x = top \/ Binom(x, k) > r)
       IN  Append(Unrank(r - Binom(m - 1, k), k - 1, m - 1), m)
PosOf(N, g) ==
  IF g <= NDesigned(N) THEN Designed(N)[g]
  ELSE LET ids == Unrank(g - NDesigned(N) - 1, N - 1, NGrid) IN
       <<P1>> \o [t \in 1..(N - 1) |-> GridSeq[ids[t]]]
GeomsFor(cb) ==
  (IF SentC(cb) THEN {1} ELSE {})
  \cup (IF PatSentC(cb) THEN {2} ELSE {})
  \cup (IF HashC(cb) % SModOf(cb) = 0 THEN {1 + (Mix(HashC(cb), r) % NGeoms(cb.N)) : r \in 1..REP} ELSE {})

CfgOf(ix) ==
  LET ps == ParSets[ix.p]
      ts == TypeSets(ix.N)[ix.t]
      K  == Len(ts.mroot)
  IN  [ dim |-> DIM, S |-> SS, H |-> Cells[ix.c].H, dyadic |-> Cells[ix.c].dyadic, ppp |-> Masks[ix.m],
        pos |-> PosOf(ix.N, ix.g), typ |-> ts.typ, mroot |-> ts.mroot,
        morder |-> MOrder(K, Mix(HashC(ix), 17 + ix.g)),
        model |-> ps.model, shift |-> (ix.s = 1), eps |-> Block(ps.eps, K), sigma |-> Block(ps.sigma, K),
        rc |-> Block(ps.rc, K), n |-> ps.n, A |-> ps.A, alpha |-> ps.alpha, ix |-> ix ]

ComboSpace ==
  UNION { [N : {N}, c : 1..Len(Cells), m : 1..Len(Masks), t : 1..Len(TypeSets(N)),
           p : 1..Len(ParSets), s : 1..2] : N \in Sizes }

\* LatticeLemma: on small one-species lattices every pair has the geometry of the pair (1, j') with the same index
\* difference (Hessian!LatticeTranslation) and GeoOne is the row of GeoOf; the trace specification then decides lattices
\* with tens of thousands of interacting pairs from the row of particle 1.  Evaluated once per check (shard 0, DIM 2).
SmallHessLat(n, a, rcn) ==
  LET d  == Len(n)
      N  == ProdSeq(n)
      ps == IF d = 2 THEN [m \in 1..N |-> <<a * ((m - 1) \div n[2]), a * ((m - 1) % n[2])>>]
            ELSE [m \in 1..N |-> <<a * ((m - 1) \div (n[2] * n[3])), a * (((m - 1) \div n[3]) % n[2]), a * ((m - 1) % n[3])>>]
  IN  [ dim |-> d, S |-> 10, H |-> [k \in 1..d |-> [j \in 1..d |-> IF j = k THEN n[k] * a ELSE 0]], ppp |-> [k \in 1..d |-> 1],
        pos |-> ps, typ |-> [i \in 1..N |-> 1], mroot |-> << <<3, 2>> >>, model |-> "lennard_jones", shift |-> TRUE,
        eps |-> << << <<1, 1>> >> >>, sigma |-> << << <<1, 1>> >> >>, rc |-> << << <<rcn, 10>> >> >>,
        n |-> <<12, 1>>, A |-> <<1, 1>>, alpha |-> <<2, 1>>, lat |-> [n |-> n, a |-> a] ]
ASSUME LatticeLemma ==
  (SHARD # 0 \/ DIM # 2) \/
  \A lc \in { SmallHessLat(<<3, 3>>, 10, 12), SmallHessLat(<<3, 5>>, 10, 21), SmallHessLat(<<5, 5>>, 10, 23),
               SmallHessLat(<<3, 3, 3>>, 10, 15), SmallHessLat(<<3, 3, 5>>, 10, 18) } :
     /\ IsHessLattice(lc)
     /\ LatticeTranslation(lc, lc)
     /\ LET g == GeoOf(lc) g1 == GeoOne(lc) IN
        /\ \A k \in 1..Len(g1) : g1[k] = g[k]              \* pairs (1, 2) .. (1, N) come first in PairSeq
        /\ Interacting(g1) # {} /\ Interacting(g1) # 1..Len(g1)
     /\ ~IsHessLattice([lc EXCEPT !.pos[1] = lc.pos[2]]) /\ ~IsHessLattice([lc EXCEPT !.ppp[1] = 0])

Init ==
  /\ tabs = PotTable
  /\ \E cb \in ComboSpace : \E g \in GeomsFor(cb) :
        /\ Mix(HashC(cb), g) % NSHARDS = SHARD
        /\ cfg = CfgOf(cb @@ [g |-> g])
  /\ geo = TLCEval(GeoOf(cfg))
  /\ acc = AccZero(NPart(cfg), Len(geo))
  /\ done = {}

\* configurations with a half-cell tie or coincident particles are not assembled
Skipped == AnyTie(geo) \/ AnyZero(geo)
Pending == IF Skipped THEN {} ELSE Interacting(geo) \ done

AddPair(k) ==
  /\ k \in Pending
  /\ acc' = AddPairTo(acc, cfg, geo, k)
  /\ done' = done \cup {k}
  /\ UNCHANGED <<cfg, geo, tabs>>

Next == \E k \in 1..Len(geo) : AddPair(k)
Spec == Init /\ [][Next]_vars
Final == Pending = {}

\* ---- the clauses of C11 on the formal matrix, in every state ----
InvSymmetric   == SymmetricAcc(acc, NPart(cfg))
InvTranslation == TranslationNullAcc(acc, cfg, NPart(cfg), Len(geo))
InvEachPair    == EachPairOnceAcc(acc, cfg, geo, done, NPart(cfg), Len(geo))
InvOnlyInteracting == done \subseteq Interacting(geo)
InvFinalAll    == (Final /\ ~Skipped) => done = Interacting(geo)
InvScope       == /\ \A a, b \in 1..Len(cfg.mroot) :
                       /\ cfg.eps[a][b] = cfg.eps[b][a] /\ cfg.sigma[a][b] = cfg.sigma[b][a] /\ cfg.rc[a][b] = cfg.rc[b][a]
                       /\ (cfg.model = "harmonic_hertz" => cfg.rc[a][b] = cfg.sigma[a][b])
                  /\ SpeciesOK(cfg)
                  /\ Len(cfg.eps) = NSpecies(cfg) /\ Len(cfg.sigma) = NSpecies(cfg) /\ Len(cfg.rc) = NSpecies(cfg)
                  /\ IsEnumeration(cfg.morder, NSpecies(cfg))
                  /\ RLt(<<1, 1>>, cfg.alpha)

\* ---- emission (direction A): the final state of every behaviour ----
PairView(pr) == [i |-> pr.i, j |-> pr.j, d |-> pr.d, n2 |-> pr.n2, inter |-> pr.inter, edge |-> pr.edge]
Common ==
  [ dim |-> cfg.dim, S |-> cfg.S, H |-> cfg.H, dyadic |-> cfg.dyadic, ppp |-> cfg.ppp, pos |-> cfg.pos,
    typ |-> cfg.typ, mroot |-> cfg.mroot, morder |-> cfg.morder, present |-> SortedSeq(Present(cfg)),
    model |-> cfg.model, shift |-> cfg.shift,
    eps |-> cfg.eps, sigma |-> cfg.sigma, rc |-> cfg.rc, n |-> cfg.n, A |-> cfg.A, alpha |-> cfg.alpha,
    ix |-> cfg.ix, sentinel |-> Sentinel(cfg.ix) ]
\* A HessianMatrix object holds the configuration and the parameter matrices; the potential and its scalar
\* parameters are arguments of every diagonalize_hessian call.  Calls(cfg): further calls on the SAME object
\* (same geometry, same interacting pairs: the cut-offs belong to the object), each with the definitions it
\* must be evaluated with.  The formal matrix (coefficients of the pair blocks) is the same for all of them.
AltParams ==
  IF cfg.model = "harmonic_hertz"
  THEN << [model |-> "harmonic_hertz", n |-> cfg.n, A |-> cfg.A, alpha |-> <<3, 1>>],
          [model |-> "harmonic_hertz", n |-> cfg.n, A |-> cfg.A, alpha |-> <<9, 4>>] >>
  ELSE << [model |-> "inverse_power_law", n |-> <<6, 1>>, A |-> <<5, 2>>, alpha |-> cfg.alpha],
          [model |-> "inverse_power_law", n |-> <<9, 2>>, A |-> <<1, 3>>, alpha |-> cfg.alpha],
          [model |-> "lennard_jones", n |-> cfg.n, A |-> cfg.A, alpha |-> cfg.alpha] >>
Calls == [t \in 1..Len(AltParams) |->
            LET ap == AltParams[t]
                c2 == [cfg EXCEPT !.model = ap.model, !.n = ap.n, !.A = ap.A, !.alpha = ap.alpha]
            IN  ap @@ [defs |-> Defs(c2, geo, tabs[ap.model])]]
Case ==
  Common @@
  [ m      |-> "Hessian",
    calls  |-> Calls,
    pairs  |-> [k \in 1..Len(geo) |-> PairView(geo[k])],
    edge   |-> \E k \in Interacting(geo) : geo[k].edge,
    defs   |-> Defs(cfg, geo, tabs[cfg.model]),
    matrix |-> MatrixT(acc, NPart(cfg), Len(geo), cfg.dim),
    trans  |-> IF cfg.ppp = AllOnes THEN TransT(cfg, NPart(cfg), cfg.dim) ELSE << >>,
    shape  |-> IF Sentinel(cfg.ix) THEN ShapeT(NPart(cfg), cfg.dim) ELSE [N |-> 0] ]
SkipCase == Common @@ [m |-> "HessianSkipped", why |-> IF AnyZero(geo) THEN "coincident" ELSE "half-cell tie"]
Emit == Final => PrintT(ToJson(IF Skipped THEN SkipCase ELSE Case))
=============================================================================
