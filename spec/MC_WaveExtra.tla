---------------------------- MODULE MC_WaveExtra ----------------------------
(***************************************************************************)
(* Model of the wave-vector generators of WaveExtra.tla (growth check      *)
(* X02 c).  One state per input of one routine:                            *)
(*   [k |-> "wv", d, n]            wavevector2d / wavevector3d(numofq = n) *)
(*   [k |-> "cont", d, q, pos]     continuousvector(d, numofq = q, pos)    *)
(* The characterisation clauses are INVARIANTs; Emit prints the state with *)
(* the expected set / order and the index lists of the relations to        *)
(* choosewavevector (direction A).                                         *)
(***************************************************************************)
EXTENDS WaveExtra, Json

CONSTANTS Tier, SHARD, NSHARDS

VARIABLES x
vars == <<x>>
Thorough == Tier = "thorough"

WvScope == {[k |-> "wv", d |-> 2, n |-> n] : n \in 0..(IF Thorough THEN 34 ELSE 16)}
           \cup {[k |-> "wv", d |-> 3, n |-> n] : n \in 0..(IF Thorough THEN 14 ELSE 8)}
ContScope == {[k |-> "cont", d |-> 2, q |-> q, pos |-> p] : q \in 0..(IF Thorough THEN 20 ELSE 11), p \in BOOLEAN}
             \cup {[k |-> "cont", d |-> 3, q |-> q, pos |-> p] : q \in 0..(IF Thorough THEN 11 ELSE 7), p \in BOOLEAN}
Key(s) == IF s.k = "wv" THEN s.n + s.d ELSE s.q + s.d + (IF s.pos THEN 1 ELSE 0)

Init == x \in WvScope \cup ContScope /\ Key(x) % NSHARDS = SHARD
Next == UNCHANGED vars
Spec == Init /\ [][Next]_vars

InvWVCharacterisation   == x.k = "wv" => WVCharacterisation(x.d, x.n)
InvWVMonotone           == x.k = "wv" => WVMonotone(x.d, x.n)
InvWVIsBoundedChoose    == x.k = "wv" => WVIsBoundedChoose(x.d, x.n)
InvWVCanonicalAccepted  ==
  x.k = "wv" => LET vs == WVVectors(x.d, x.n)
                    rows == [k \in 1..Len(vs) |-> WVRow(vs[k])]
                    \* the loop order sorted by norm: a canonical admissible output
                    gs == WVGroups(x.d, x.n)
                    canon == LET RECURSIVE F(_)
                                 F(j) == IF j > Len(gs) THEN << >>
                                         ELSE SelectSeq(rows, LAMBDA r : r[1] = gs[j].norm2) \o F(j + 1)
                             IN  F(1)
                IN  /\ WhyWV(canon, x.d, x.n) = ""
                    /\ Len(canon) >= 2 => WhyWV(Tail(canon), x.d, x.n) = "AllIntegerNormVectorsPresent"
                    /\ (Len(canon) >= 2 /\ canon[1][1] < canon[Len(canon)][1]) =>
                          WhyWV([canon EXCEPT ![1] = canon[Len(canon)], ![Len(canon)] = canon[1]], x.d, x.n) = "SortedByNorm"
                    /\ WhyWV(<<[j \in 1..(x.d + 1) |-> 0]>> \o canon, x.d, x.n) = "NoZeroVector"
InvContCharacterisation == x.k = "cont" => ContCharacterisation(x.d, x.q, x.pos)
InvContSignSymmetry     == x.k = "cont" => ContSignSymmetry(x.d, x.q)
InvContPositiveIsFilter == x.k = "cont" => ContPositiveIsFilter(x.d, x.q)
InvChooseIsFilterOfCont == x.k = "cont" => ChooseIsFilterOfCont(x.d, x.q, x.pos)
InvContAccepted ==
  x.k = "cont" => LET e == ContVectors(x.d, x.q, x.pos) IN
                  /\ WhyCont(e, x.d, x.q, x.pos) = ""
                  /\ Len(e) >= 2 => WhyCont([e EXCEPT ![1] = e[2], ![2] = e[1]], x.d, x.q, x.pos) = "LoopOrder"
                  /\ Len(e) >= 1 => WhyCont(Tail(e), x.d, x.q, x.pos) = "AllVectorsOfTheRange"

WvCase ==
  LET gs == WVGroups(x.d, x.n) IN
  [ m |-> "wv", d |-> x.d, n |-> x.n, count |-> Cardinality(WVSet(x.d, x.n)),
    groups |-> [k \in 1..Len(gs) |-> [norm2 |-> gs[k].norm2, rows |-> gs[k].rows]],
    bounded |-> WVBoundedIndices(x.d, x.n) ]
ContCase ==
  [ m |-> "cont", d |-> x.d, q |-> x.q, pos |-> x.pos, vecs |-> ContVectors(x.d, x.q, x.pos),
    square |-> ContSquareIndices(x.d, x.q, x.pos) ]
Emit == PrintT(ToJson(IF x.k = "wv" THEN WvCase ELSE ContCase))
=============================================================================
