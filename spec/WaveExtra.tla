------------------------------ MODULE WaveExtra ------------------------------
(***************************************************************************)
(* Growth check X02 (c): the wave-vector generators of utils/wavevector.py *)
(* that no listed property covers - wavevector3d, wavevector2d,            *)
(* continuousvector - and their relations to choosewavevector              *)
(* (DensityModes!DefaultVectors, property C04).  Reference: docstrings and *)
(* docs/utils.md IV ("define wave vector for [nx, ny, nz] as long as they  *)
(* are integers", values from [-N/2, N/2] or, onlypositive, [0, N/2]; the  *)
(* range is the half-open one of choosewavevector, C04).                   *)
(*                                                                         *)
(* wavevectorNd(numofq): rows <<|v|^2, v>> for every v in [0, numofq)^d,   *)
(*   v # 0, whose norm is an integer SMALLER THAN numofq (the norm must be *)
(*   one of sqrt(0), .., numofq - 1), sorted by the first column; rows of  *)
(*   equal norm in ANY order (tie policy: the routine uses an unstable     *)
(*   sort).  The zero vector (the first one generated) is dropped.         *)
(* continuousvector(d, numofq, onlypositive): every v in [-h, h)^d, v # 0, *)
(*   h = numofq div 2, in the order of the nested loops (first axis        *)
(*   slowest); onlypositive keeps the vectors without negative component.  *)
(***************************************************************************)
EXTENDS DensityModes

\* ---- wavevector2d / wavevector3d
WVOK(v, n) == (~IsZero(v)) /\ IsSquare(Norm2(v)) /\ ISqrt(Norm2(v)) <= n - 1
WVVectors(d, n) == IF n <= 0 THEN << >> ELSE SelectSeq(Cube(d, 0, n - 1), LAMBDA v : WVOK(v, n))
WVRow(v) == <<Norm2(v)>> \o v
WVSet(d, n) == {WVRow(v) : v \in Range(WVVectors(d, n))}
\* groups of equal first column, increasing
WVGroups(d, n) ==
  LET S == WVSet(d, n)
      keys == SortedSeq({r[1] : r \in S})
  IN  [k \in 1..Len(keys) |-> [norm2 |-> keys[k], rows |-> {r \in S : r[1] = keys[k]}]]

Tail1(r) == SubSeq(r, 2, Len(r))
WhyWV(obs, d, n) ==
  LET m == Len(obs)
      S == WVSet(d, n)
  IN  IF \E k \in 1..m : Len(obs[k]) # d + 1 THEN "RowFormat"
      ELSE IF \E k \in 1..m : IsZero(Tail1(obs[k])) THEN "NoZeroVector"
      ELSE IF \E k \in 1..m : obs[k][1] # Norm2(Tail1(obs[k])) THEN "FirstColumnIsSquaredNorm"
      ELSE IF \E k \in 1..m : ~IsSquare(obs[k][1]) THEN "NormIsAnInteger"
      ELSE IF Cardinality(Range(obs)) # m THEN "NoVectorTwice"
      ELSE IF \E k \in 1..m : obs[k] \notin S THEN "VectorsOfTheRange"
      ELSE IF m # Cardinality(S) THEN "AllIntegerNormVectorsPresent"
      ELSE IF \E k \in 1..(m - 1) : obs[k][1] > obs[k + 1][1] THEN "SortedByNorm"
      ELSE ""

\* ---- continuousvector
ContVectors(d, numofq, pos) ==
  LET h == numofq \div 2 IN
  IF h <= 0 THEN << >>
  ELSE SelectSeq(Cube(d, 0 - h, h - 1), LAMBDA v : (~IsZero(v)) /\ (pos => \A k \in 1..d : v[k] >= 0))
WhyCont(obs, d, numofq, pos) ==
  LET e == ContVectors(d, numofq, pos) IN
  IF obs = e THEN ""
  ELSE IF \E k \in 1..Len(obs) : Len(obs[k]) # d THEN "RowFormat"
  ELSE IF \E k \in 1..Len(obs) : IsZero(obs[k]) THEN "NoZeroVector"
  ELSE IF Range(obs) # Range(e) THEN "AllVectorsOfTheRange"
  ELSE IF Len(obs) # Len(e) THEN "NoVectorTwice"
  ELSE "LoopOrder"

\* ---- characterisation clauses
WVCharacterisation(d, n) ==
  LET vs == WVVectors(d, n)
      S  == Range(vs)
  IN  /\ Cardinality(S) = Len(vs)
      /\ \A v \in S : (~IsZero(v)) /\ IsSquare(Norm2(v)) /\ \A k \in 1..d : v[k] >= 0 /\ v[k] < n
      /\ \A v \in S : Norm2(v) <= (n - 1) * (n - 1)
      \* every multiple of an axis is present, so are the permutations of a member
      /\ \A k \in 1..(n - 1) : \A a \in 1..d : [j \in 1..d |-> IF j = a THEN k ELSE 0] \in S
      /\ \A v \in S : \A a, b \in 1..d : [v EXCEPT ![a] = v[b], ![b] = v[a]] \in S
      /\ Len(vs) >= d * (IF n >= 1 THEN n - 1 ELSE 0)
      /\ (d = 2 /\ n >= 6) => <<3, 4>> \in S
      /\ (d = 3 /\ n >= 4) => <<1, 2, 2>> \in S
WVMonotone(d, n) == WVSet(d, n) \subseteq WVSet(d, n + 1)
\* relation to choosewavevector: wavevectorNd(n) = the vectors of choosewavevector(d, 2 n, True) of norm < n
\* (choosewavevector keeps integer norms up to sqrt(d) (n - 1))
WVIsBoundedChoose(d, n) ==
  Range(WVVectors(d, n)) = {v \in Range(DefaultVectors(d, IF n >= 0 THEN n ELSE 0, "T")) : Norm2(v) <= (n - 1) * (n - 1)}
WVBoundedIndices(d, n) ==     \* positions in choosewavevector(d, 2 n, True) of the vectors wavevectorNd(n) has
  LET cv == DefaultVectors(d, n, "T") IN SelectSeq([k \in 1..Len(cv) |-> k], LAMBDA k : Norm2(cv[k]) <= (n - 1) * (n - 1))

ContCharacterisation(d, numofq, pos) ==
  LET vs == ContVectors(d, numofq, pos)
      S  == Range(vs)
      h  == numofq \div 2
  IN  /\ Cardinality(S) = Len(vs)
      /\ \A v \in S : ~IsZero(v)
      /\ Len(vs) = (IF h = 0 THEN 0 ELSE (IF pos THEN IPow(h, d) ELSE IPow(2 * h, d)) - 1)
      /\ S = {v \in Range(Cube(d, 0 - h, h - 1)) : (~IsZero(v)) /\ (pos => \A k \in 1..d : v[k] >= 0)}
      \* lexicographic (loop) order
      /\ \A k \in 1..(Len(vs) - 1) :
            \E a \in 1..d : vs[k][a] < vs[k + 1][a] /\ \A b \in 1..(a - 1) : vs[k][b] = vs[k + 1][b]
\* symmetry under v -> -v: exactly the vectors with a component on the closed end -h have no partner
ContSignSymmetry(d, numofq) ==
  LET S == Range(ContVectors(d, numofq, FALSE))
      h == numofq \div 2
  IN  \A v \in S : (VNeg(v) \in S) <=> (\A k \in 1..d : v[k] > 0 - h)
ContPositiveIsFilter(d, numofq) ==
  ContVectors(d, numofq, TRUE) = SelectSeq(ContVectors(d, numofq, FALSE), LAMBDA v : \A k \in 1..d : v[k] >= 0)
\* choosewavevector(d, numofq, opt) = the vectors of continuousvector(d, numofq, opt) with an integer norm, same order
ChooseIsFilterOfCont(d, numofq, pos) ==
  DefaultVectors(d, numofq \div 2, IF pos THEN "T" ELSE "F")
    = SelectSeq(ContVectors(d, numofq, pos), LAMBDA v : IsSquare(Norm2(v)))
ContSquareIndices(d, numofq, pos) ==
  LET cv == ContVectors(d, numofq, pos) IN SelectSeq([k \in 1..Len(cv) |-> k], LAMBDA k : IsSquare(Norm2(cv[k])))
=============================================================================
