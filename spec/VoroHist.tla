------------------------------ MODULE VoroHist ------------------------------
(***************************************************************************)
(* Growth check X02 (b): neighbors.voropp_neighbors.indicehis - frequency  *)
(* of the Voronoi index <n3 n4 n5 n6>.  Reference: docstring and           *)
(* docs/neighbors.md IV.4:  "Statistics the frequency of voronoi index     *)
(* from the output of voronoi analysis.  Only the top 50 voronoi index     *)
(* will be output along with their fractions."                             *)
(*                                                                         *)
(* Files are sequences of LINES:                                           *)
(*    header  [h |-> 1, w |-> words of the line, t |-> << >>]              *)
(*    row     [h |-> 0, w |-> << >>, t |-> integer tokens]                 *)
(* (real-valued tokens are integers in a stated quantum).  The input is a  *)
(* voroindex file: ONE header, then rows <<id, n0, n1, ...>> - the face-   *)
(* order histogram of voro++'s %A, as many entries as the largest face     *)
(* order of the cell (at most HistKeep), missing entries meaning 0.        *)
(*                                                                         *)
(* State machine: one action per row (CountRow), a counter per signature;  *)
(* WriteOut lists the signatures by non-increasing count (ANY order among  *)
(* equal counts - tie policy), at most HistTop of them, each with          *)
(* count / (number of rows) written to 6 decimals.                         *)
(***************************************************************************)
EXTENDS Exact, TLC

HdrLine(words) == [h |-> 1, w |-> words, t |-> << >>]
RowLine(toks)  == [h |-> 0, w |-> << >>, t |-> toks]

HistKeep   == 15        \* histogram entries of a row the routine can hold
HistTop    == 50        \* "only the top 50 ... will be output"
HistHeader == <<"Voronoi", "Indices,", "Frequency">>
FracQ      == 1000000   \* fractions are written with %.6f

\* n_k of the row with tokens t = <<id, n0, n1, ...>> (short rows are zero-padded)
Entry(t, k) == IF k + 2 <= Len(t) THEN t[k + 2] ELSE 0
Sig(t)      == <<Entry(t, 3), Entry(t, 4), Entry(t, 5), Entry(t, 6)>>

ValidHistInput(lines) ==
  /\ Len(lines) >= 2 /\ lines[1].h = 1
  /\ \A k \in 2..Len(lines) : lines[k].h = 0 /\ Len(lines[k].t) >= 1 /\ Len(lines[k].t) - 1 <= HistKeep
HistRows(lines) == [k \in 1..(Len(lines) - 1) |-> lines[k + 1].t]

\* ---- the counting state machine: s = [i |-> rows consumed, cnt |-> signature -> count]
HistInit == [i |-> 0, cnt |-> [g \in {} |-> 0]]
Bump(cnt, g) == IF g \in DOMAIN cnt THEN [cnt EXCEPT ![g] = @ + 1]
                ELSE [x \in (DOMAIN cnt) \cup {g} |-> IF x = g THEN 1 ELSE cnt[x]]
CountRow(s, rows) == [i |-> s.i + 1, cnt |-> Bump(s.cnt, Sig(rows[s.i + 1]))]
RECURSIVE CountFrom(_, _)
CountFrom(s, rows) == IF s.i >= Len(rows) \/ s.i < 0 THEN s ELSE CountFrom(CountRow(s, rows), rows)
HistCount(rows) == CountFrom(HistInit, rows).cnt

\* the definition: multiplicity of each signature among the rows
HistDef(rows) ==
  LET sigs == {Sig(rows[k]) : k \in 1..Len(rows)}
  IN  [g \in sigs |-> Cardinality({k \in 1..Len(rows) : Sig(rows[k]) = g})]
CntTotal(cnt) == LET RECURSIVE S(_)
                     S(D) == IF D = {} THEN 0 ELSE LET g == CHOOSE x \in D : TRUE IN cnt[g] + S(D \ {g})
                 IN  S(DOMAIN cnt)

\* ---- the output
RECURSIVE SetToSeq(_)
SetToSeq(S) == IF S = {} THEN << >> ELSE LET x == CHOOSE y \in S : TRUE IN <<x>> \o SetToSeq(S \ {x})
Reverse(s) == [k \in 1..Len(s) |-> s[Len(s) + 1 - k]]
CountsDesc(cnt) == Reverse(SortedSeq({cnt[g] : g \in DOMAIN cnt}))
\* tie groups by decreasing count
HistGroups(cnt) ==
  LET vals == CountsDesc(cnt)
  IN  [k \in 1..Len(vals) |-> [count |-> vals[k], sigs |-> {g \in DOMAIN cnt : cnt[g] = vals[k]}]]
OutLen(cnt, top) == Min2(Cardinality(DOMAIN cnt), top)
\* count / total to 6 decimals: the nearest quantum, either one at an exact half (printf rounds the
\* binary quotient, which may sit on either side)
FracSet(cn, total) == NearestSet(FracQ * cn, total)

\* a canonical admissible output: groups in order, CHOOSE order inside a group, cut at top
RECURSIVE FlattenGroups(_)
FlattenGroups(gs) == IF gs = << >> THEN << >>
                     ELSE LET g == Head(gs) ss == SetToSeq(g.sigs)
                          IN  [k \in 1..Len(ss) |-> <<ss[k], g.count>>] \o FlattenGroups(Tail(gs))
HistCanonical(cnt, total, top) ==
  LET all == FlattenGroups(HistGroups(cnt))
  IN  [k \in 1..OutLen(cnt, top) |-> all[k][1] \o <<SetMin(FracSet(all[k][2], total))>>]

\* "" when the observed output rows obs[k] = <<n3, n4, n5, n6, fraction in quanta>> are admissible
WhyHistOut(obs, cnt, total, top) ==
  LET n    == Len(obs)
      sg(k) == SubSeq(obs[k], 1, 4)
  IN  IF \E k \in 1..n : Len(obs[k]) # 5 THEN "RowFormat"
      ELSE IF \E k \in 1..n : sg(k) \notin DOMAIN cnt THEN "SignatureOfSomeRow"
      ELSE IF Cardinality({sg(k) : k \in 1..n}) # n THEN "EverySignatureOnce"
      ELSE IF n > top THEN "OnlyTop50"
      ELSE IF n # OutLen(cnt, top) THEN "EverySignatureOnce:missing"
      ELSE IF \E k \in 1..(n - 1) : cnt[sg(k)] < cnt[sg(k + 1)] THEN "DecreasingFrequency"
      ELSE IF \E g \in (DOMAIN cnt) \ {sg(k) : k \in 1..n} : \E k \in 1..n : cnt[g] > cnt[sg(k)] THEN "OnlyTop50:MoreFrequentOmitted"
      ELSE IF \E k \in 1..n : obs[k][5] \notin FracSet(cnt[sg(k)], total) THEN "FractionOfAllRows"
      ELSE ""

\* ---- model-level clauses
HistAlgorithmIsDefinition(rows) == HistCount(rows) = HistDef(rows)
HistEveryRowOnce(rows) == CntTotal(HistCount(rows)) = Len(rows)
\* fractions sum to one: exactly as rationals (counts sum to the number of rows); in written quanta to K/2
HistFractionsSumToOne(rows, top) ==
  LET cnt == HistCount(rows)
      out == HistCanonical(cnt, Len(rows), top)
  IN  Cardinality(DOMAIN cnt) <= top =>
        /\ Len(out) = Cardinality(DOMAIN cnt)
        /\ 2 * Abs(SumSeq([k \in 1..Len(out) |-> out[k][5]]) - FracQ) <= Len(out) + 1
HistCanonicalAccepted(rows, top) ==
  LET cnt == HistCount(rows) IN WhyHistOut(HistCanonical(cnt, Len(rows), top), cnt, Len(rows), top) = ""
\* with more signatures than top the output is cut, and what is cut is never more frequent than what is kept
HistCutKeepsMostFrequent(rows, top) ==
  LET cnt == HistCount(rows)
      out == HistCanonical(cnt, Len(rows), top)
      kept == {SubSeq(out[k], 1, 4) : k \in 1..Len(out)}
  IN  /\ Len(out) <= top
      /\ \A g \in (DOMAIN cnt) \ kept : \A q \in kept : cnt[g] <= cnt[q]
\* exchanging two entries of different counts, dropping the last entry, or counting the header line is rejected
HistRejectsCorruptions(rows, top) ==
  LET cnt == HistCount(rows)
      tot == Len(rows)
      out == HistCanonical(cnt, tot, top)
      n   == Len(out)
  IN  /\ \A k \in 1..(n - 1) :
            cnt[SubSeq(out[k], 1, 4)] > cnt[SubSeq(out[k + 1], 1, 4)] =>
               WhyHistOut([out EXCEPT ![k] = out[k + 1], ![k + 1] = out[k]], cnt, tot, top) # ""
      /\ (n >= 1 /\ Cardinality(DOMAIN cnt) <= top) => WhyHistOut(SubSeq(out, 1, n - 1), cnt, tot, top) # ""
      /\ \A k \in 1..n :
            (FracSet(cnt[SubSeq(out[k], 1, 4)], tot + 1) \cap FracSet(cnt[SubSeq(out[k], 1, 4)], tot) = {}) =>
               WhyHistOut([out EXCEPT ![k][5] = SetMin(FracSet(cnt[SubSeq(out[k], 1, 4)], tot + 1))], cnt, tot, top) # ""
=============================================================================
