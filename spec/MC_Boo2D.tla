------------------------------ MODULE MC_Boo2D ------------------------------
(***************************************************************************)
(* Models of property C10 (boo_2d).  Modes (constant Mode):                *)
(*  "free"    small integer configurations (orthogonal / tilted cells,     *)
(*            masks, neighbour lists, signed weights, Nmax truncation,     *)
(*            two frames read through the two file handles)                *)
(*  "lattice" perfect square / triangular / honeycomb lattices             *)
(*  "rot"     a configuration and its image under rotation by the angle of *)
(*            a Gaussian integer rho (i, 3+4i, -4+3i, 5+12i, 4-3i)         *)
(*  "series"  3..5 frames with the averaging window, for the compositions  *)
(* The loop over frames is a state machine: action ReadFrame consumes the  *)
(* frame under the cursor of the neighbour (and weight) file for the next  *)
(* snapshot; acc records which file frame served which snapshot.           *)
(***************************************************************************)
EXTENDS Boo2D, TLC, Json

CONSTANTS Tier, Mode, Gen, SHARD, NSHARDS

VARIABLES cfg, pc, acc
vars == <<cfg, pc, acc>>
Quick == Tier = "quick"

\* ---- scope ------------------------------------------------------------------
PosSets == << << <<0, 0>>, <<2, 1>>, <<1, 3>>, <<4, 2>> >>,
              << <<1, 1>>, <<3, 1>>, <<3, 4>>, <<0, 3>> >>,
              << <<0, 0>>, <<3, 0>>, <<0, 4>>, <<3, 4>> >>,
              << <<2, 2>>, <<5, 3>>, <<1, 0>>, <<4, 5>> >> >>
FreeCells == << << <<7, 0>>, <<0, 7>> >>, << <<5, 0>>, <<0, 6>> >>, << <<6, 0>>, <<0, 8>> >>,
                << <<6, 0>>, <<2, 5>> >>, << <<7, 0>>, <<0 - 3, 6>> >> >>
FreeMasks == IF Quick THEN {<<1, 1>>, <<1, 0>>, <<0, 0>>} ELSE [1..2 -> {0, 1}]
NShapes == 6
Shapes == << <<1>>, <<2, 1>>, <<1, 2, 3>>, <<3, 1>>, <<1, 1>>, <<2, 3>> >>
RowOf(i, shape, N) == [k \in 1..Len(shape) |-> ((i + ((shape[k] - 1) % (N - 1))) % N) + 1]
ListsOf(a, b, N) == [i \in 1..N |-> RowOf(i, Shapes[((a + b * i) % NShapes) + 1], N)]
WVals == <<0 - 2, 0 - 1, 1, 2, 3>>
\* weight pattern wp: 0 none, 1 all equal (must reproduce the plain mean), 2, 3 signed,
\* 4 all positive in the first frame of the file and signed from the second frame on
WeightsOf2(nb, wp, f) ==
  IF wp = 0 THEN << >>
  ELSE [i \in 1..Len(nb) |-> [k \in 1..Len(nb[i]) |->
          IF wp = 1 THEN 2
          ELSE IF wp = 4 /\ f = 1 THEN 1 + ((i + 2 * k) % 3)
          ELSE WVals[((i + 2 * k + wp + f) % 5) + 1]]]

FrameOf(t, H, m, nmax, pi, a, b, wp, f) ==
  LET nb == ListsOf(a, b, 4) IN
  [t |-> t, H |-> H, ppp |-> m, nmax |-> nmax, pos |-> PosSets[pi], nb |-> nb, wt |-> WeightsOf2(nb, wp, f)]

LsOf(a) == IF Quick THEN {l \in 1..12 : (l + a) % 3 = 0} ELSE 1..12

InitFree ==
  \E pi \in 1..3, ci \in 1..Len(FreeCells), m \in FreeMasks, a \in 0..5, wp \in (IF Quick THEN {0, 1, 2, 4} ELSE 0..4),
     b \in (IF Quick THEN {1} ELSE {1, 2, 3}) :
    LET nmax == IF a % 3 = 0 THEN 2 ELSE 10
        bb   == IF Quick THEN (a % 2) + 1 ELSE b
    IN
    /\ (pi + 2 * ci + SumSeq(m) + a + 3 * wp + b) % NSHARDS = SHARD
    /\ cfg = [ls |-> LsOf(a + pi),
              frames |-> << FrameOf(0, FreeCells[ci], m, nmax, pi, a, bb, wp, 1),
                            FrameOf(0, FreeCells[ci], m, nmax, pi + 1, a + 1, bb + 1, wp, 2) >>]
    /\ pc = 0 /\ acc = << >>

LatticeCfgs ==
  IF Quick
  THEN << SquareCfg(3, 3), SquareCfg(4, 3), TriCfg(3, 3), TriCfg(4, 3), HoneyCfg(3, 3) >>
  ELSE << SquareCfg(3, 3), SquareCfg(4, 3), SquareCfg(5, 4), TriCfg(3, 3), TriCfg(4, 3), TriCfg(5, 4),
          HoneyCfg(3, 3), HoneyCfg(6, 3) >>
Fold(k) == IF Quick THEN <<4, 4, 6, 6, 3>>[k] ELSE <<4, 4, 4, 6, 6, 6, 3, 3>>[k]

InitLattice ==
  \E k \in 1..Len(LatticeCfgs) :
    /\ k % NSHARDS = SHARD
    /\ cfg = [ls |-> 1..12, frames |-> <<LatticeCfgs[k]>>, fold |-> Fold(k)]
    /\ pc = 0 /\ acc = << >>

Rhos == << <<0, 1>>, <<3, 4>>, <<0 - 4, 3>>, <<5, 12>>, <<4, 0 - 3>> >>
InitRot ==
  \E pi \in 1..3, ci \in 1..Len(FreeCells), m \in {<<1, 1>>, <<1, 0>>}, a \in 0..5, wp \in {0, 2}, ri \in 1..Len(Rhos) :
    LET base == FrameOf(0, FreeCells[ci], m, 10, pi, a, (a % 2) + 1, wp, 1) IN
    /\ (Quick => (pi + ci + a + ri) % 6 = 0)
    /\ (pi + 2 * ci + SumSeq(m) + a + wp + ri) % NSHARDS = SHARD
    /\ cfg = [ls |-> (IF Quick THEN {l \in 1..12 : (l + a + ri) % 3 = 0} ELSE 1..12), rho |-> Rhos[ri],
              frames |-> <<base>>, rotated |-> <<RotCfg(Rhos[ri], base)>>]
    /\ pc = 0 /\ acc = << >>

\* frames of a trajectory: the particles move by frame-dependent integer steps
MovePos(pi, f) == [i \in 1..4 |-> VAdd(PosSets[pi][i], <<(f * i) % 3, (f + 2 * i) % 2>>)]
InitSeries ==
  \* dti = 3: the usual MD setting, decimal time step 0.002 with dumps every 50 steps (interval 0.1)
  \* (six frames only there: 0.5 / 0.1 is the first exact multiple at which floor division of the floats differs)
  \E F \in 3..6, pi \in {1, 4}, ci \in {1, 4}, wp \in {0, 2}, dti \in 1..3, dts \in {1, 10, 50} :
    \E m4 \in 4..(4 * (F - 1) + 3) :
      LET dt == << <<1, 2>>, <<3, 4>>, <<1, 500>> >>[dti] IN
      /\ (dti = 3) <=> (dts = 50)
      /\ (F = 6) => (dti = 3 /\ m4 = 20)
      /\ (dti = 3) => (m4 % 4 = 0 \/ m4 % 4 = 2)
      /\ (Quick => (dti = 3 /\ (F + pi + ci + wp + m4) % 2 = 0) \/ (F + pi + ci + wp + dti + dts + m4) % 8 = 0)
      /\ (F + pi + ci + wp + dti + dts + m4) % NSHARDS = SHARD
      /\ cfg = [ls |-> {4 + 2 * ((F + m4) % 2)}, dts |-> dts, dt |-> dt,
                period |-> RMul(B2Interval(dts, dt), <<m4, 4>>), m4 |-> m4,
                ts |-> [f \in 1..F |-> 500 + (f - 1) * dts],
                frames |-> [f \in 1..F |->
                   [FrameOf(0, FreeCells[ci], <<1, 1>>, 10, pi, f, (f % 2) + 1, wp, f) EXCEPT !.pos = MovePos(pi, f)]]]
      /\ \A f \in 1..F : \A i \in 1..4 : Defined(cfg.frames[f], i)
      /\ pc = 0 /\ acc = << >>

Init ==
  CASE Mode = "free"    -> InitFree
    [] Mode = "lattice" -> InitLattice
    [] Mode = "rot"     -> InitRot
    [] Mode = "series"  -> InitSeries

\* linearization point: read_neighbors returned on both handles for snapshot Len(acc)+1
ReadFrame ==
  /\ Len(acc) < Len(cfg.frames)
  /\ acc' = Append(acc, [snap |-> Len(acc) + 1, filefr |-> pc + 1])
  /\ pc'  = pc + 1
  /\ UNCHANGED cfg
Next == ReadFrame
Spec == Init /\ [][Next]_vars
Done == Len(acc) = Len(cfg.frames)

\* the configuration psi of snapshot k is computed from: positions of snapshot k,
\* lists and weights of the file frame the cursor was on
CfOf(fr, k) == [fr[acc[k].snap] EXCEPT !.nb = fr[acc[k].filefr].nb, !.wt = fr[acc[k].filefr].wt]

InvCursorFollowsFrames == pc = Len(acc) /\ \A k \in 1..Len(acc) : acc[k].snap = k /\ acc[k].filefr = k
InvDefined == \A f \in 1..Len(cfg.frames) : \A i \in 1..Len(cfg.frames[f].pos) : Defined(cfg.frames[f], i)

\* decided exactly wherever the phases are exact and small enough for 32-bit integers
\* (bs = the bonds of the particle, w its weights, tie = some bond has two images)
ExactB(t, bs, w, l, tie) == ~tie /\ PsiExactOK(t, bs, l) /\ PsiExactSmall(t, bs, w, l)
ExactAt(cf, i, l) == ExactB(cf.t, Bonds1(cf, i), WeightsOf(cf, i), l, HasBondTie(cf, i))
PsiX(cf, i, l) == PsiExact(cf.t, Bonds1(cf, i), WeightsOf(cf, i), l)

\* Forall(P): P(cf, bs, w, l) for every snapshot read so far, particle and l where psi is exact
ForExact(P(_, _, _, _)) ==
  \A k \in 1..Len(acc) : LET cf == CfOf(cfg.frames, k) IN
    \A i \in 1..Len(cf.pos) :
      LET bs  == Bonds1(cf, i)
          w   == WeightsOf(cf, i)
          tie == HasBondTie(cf, i)
      IN  \A l \in cfg.ls : ExactB(cf.t, bs, w, l, tie) => P(cf, bs, w, l)

InvUnitPhases ==
  LET P(cf, bs, w, l) == \A b \in Range(bs) : Mod2IsOne(cf.t, ExactPhase(cf.t, b, l)) IN ForExact(P)
InvModulusAtMostOne ==
  LET P(cf, bs, w, l) == Mod2LeqOne(cf.t, PsiExact(cf.t, bs, w, l)) IN ForExact(P)
InvEqualWeightsIsMean ==
  LET P(cf, bs, w, l) == (w # << >> /\ \A m \in DOMAIN w : w[m] = 2)
                            => ExactEq(PsiExact(cf.t, bs, w, l), PsiExact(cf.t, bs, << >>, l))
  IN  ForExact(P)
\* flipping the sign of every weight flips the sign of psi (normalisation by sum |w|)
InvWeightSign ==
  LET P(cf, bs, w, l) == w # << >> =>
        LET e == PsiExact(cf.t, bs, w, l)
            f == PsiExact(cf.t, bs, [m \in 1..Len(w) |-> 0 - w[m]], l)
        IN  ExactEq(<<0 - e[1], 0 - e[2], e[3]>>, f)
  IN  ForExact(P)

\* lattice mode: modulus exactly one iff fold | l, and zero otherwise
InvPerfectLattice ==
  Mode = "lattice" =>
    \A k \in 1..Len(acc) : LET cf == CfOf(cfg.frames, k) IN
      \A i \in 1..Len(cf.pos) :
        LET bs == Bonds1(cf, i) IN
        /\ ~HasBondTie(cf, i)
        /\ Len(bs) = cfg.fold
        /\ \A l \in cfg.ls :
             /\ ExactB(cf.t, bs, << >>, l, FALSE)
             /\ LET e == PsiExact(cf.t, bs, << >>, l) IN
                IF l % cfg.fold = 0
                THEN Mod2IsOne(cf.t, e) /\ (cfg.fold # 3 => (e[1] = e[3] /\ e[2] = 0))
                ELSE e[1] = 0 /\ e[2] = 0

\* rot mode: the minimum image commutes with the rotation, phases multiply by (rho/|rho|)^l
InvRotationCommutes ==
  Mode = "rot" =>
    LET cf == cfg.frames[1]  rf == cfg.rotated[1] IN
    \A i \in 1..Len(cf.pos) : \A k \in DOMAIN BondSets(cf, i) :
      BondSets(rf, i)[k] = {LMul(0, cfg.rho, b) : b \in BondSets(cf, i)[k]}
InvRotationPhase ==
  Mode = "rot" =>
    LET cf == cfg.frames[1]  rf == cfg.rotated[1] IN
    \A i \in 1..Len(cf.pos) : \A l \in cfg.ls : \A k \in DOMAIN BondSets(cf, i) : \A b \in BondSets(cf, i)[k] :
      (HasExactPhase(0, b, l) /\ NormBits(0, b, l) + NormBits(0, cfg.rho, l) <= 14) =>
        LET e == ExactPhase(0, b, l)
            r == ExactPhase(0, cfg.rho, l)
            p == LMul(0, <<e[1], e[2]>>, <<r[1], r[2]>>)
        IN  ExactEq(ExactPhase(0, LMul(0, cfg.rho, b), l), <<p[1], p[2], e[3] * r[3]>>)

\* series mode: the window rule (clauses as in C16)
SW == B2WindowLen(cfg.dts, cfg.dt, cfg.period)
InvWindow ==
  Mode = "series" =>
    LET iv == B2Interval(cfg.dts, cfg.dt)  T == Len(cfg.frames) IN
    /\ RLeq(RMul(<<SW, 1>>, iv), cfg.period) /\ RLt(cfg.period, RMul(<<SW + 1, 1>>, iv))
    /\ (cfg.m4 % 4 = 0 => SW = cfg.m4 \div 4)
    /\ SW >= 1 /\ SW <= T - 1
    /\ \A n \in 0..(T - SW) : \A c \in B2CentreSet(n, SW) :
         c >= n /\ c <= n + SW - 1 /\ Abs((c - n) - (n + SW - 1 - c)) <= 1

\* ---- emission -----------------------------------------------------------------
PsiOutAll(cf) ==
  [i \in 1..Len(cf.pos) |->
     LET bs  == Bonds1(cf, i)
         w   == WeightsOf(cf, i)
         tie == HasBondTie(cf, i)
     IN  [l \in 1..12 |->
            IF l \notin cfg.ls THEN << >>
            ELSE [alts |-> IF tie THEN PsiAlts(cf, i, l) ELSE <<PsiT(cf.t, bs, w, l)>>,
                  mod2 |-> IF ExactB(cf.t, bs, w, l, tie)
                           THEN LET e == PsiExact(cf.t, bs, w, l) IN <<LNorm(cf.t, <<e[1], e[2]>>), e[3] * e[3]>>
                           ELSE << >>]]]
FramesOut(fr) ==
  [k \in 1..Len(fr) |-> LET cf == CfOf(fr, k) IN
     [pos |-> cf.pos, nb |-> cf.nb, wt |-> cf.wt,
      psi |-> PsiOutAll(cf)]]
BaseCase ==
  [m |-> Mode, t |-> cfg.frames[1].t, basis |-> BasisT(cfg.frames[1].t), H |-> cfg.frames[1].H, ppp |-> cfg.frames[1].ppp,
   nmax |-> cfg.frames[1].nmax, ls |-> SortedSeq(cfg.ls), frames |-> FramesOut(cfg.frames)]
RotCase ==
  BaseCase @@ [rho |-> cfg.rho, rhopow |-> [l \in 1..12 |-> IF l \in cfg.ls THEN RhoPowT(cfg.rho, l) ELSE << >>],
               rotH |-> cfg.rotated[1].H, rotated |-> FramesOut(cfg.rotated)]
SeriesCase ==
  LET T == Len(cfg.frames)  N == Len(cfg.frames[1].pos) IN
  BaseCase @@ [ts |-> cfg.ts, dt |-> cfg.dt, period |-> cfg.period, w |-> SW, rows |-> SortedSeq(B2RowsSet(T, SW)),
               win |-> [k \in 1..(T - SW + 1) |->
                          [centre |-> SortedSeq(B2CentreSet(k - 1, SW)),
                           cplx   |-> [i \in 1..N |-> AvgComplexT(k - 1, SW, i)],
                           modph  |-> [i \in 1..N |-> AvgModPhaseT(k - 1, SW, i)]]],
               scorr |-> SpatialCorrT(T), tcorr |-> TimeCorrT]
Emit ==
  (Gen /\ Done) =>
    PrintT(ToJson(CASE Mode = "rot" -> RotCase [] Mode = "series" -> SeriesCase [] OTHER -> BaseCase))
=============================================================================
